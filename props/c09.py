"""C09 — array list and intrusive linked list keep exact sequence contents.

One harness (harness/seqs.c) and one model component (`seqs`: Driver/Seqs.lean over Model/ArrayList.lean and
Model/LinkedList.lean) interpret the same op language (`al …` / `ll …`, described at the top of seqs.c).
The direct oracle below does not use the Lean model: it replays the case on a Python reference
(list of byte strings with `None` for unspecified gap elements; list of node names) and checks the
implementation's own output against it."""
import itertools, json, os
from lib.core import Case, GenError, write_if_changed, LEAN
from lib import cbuild, core

ID = "C09"
LEAN_MODULES = ["AwsVerif.Props.C09"]
COMPONENT = "seqs"
HARNESS = dict(name="seqs", flavour="asan")
# P lines also carry bytes of gap elements / never-written storage and stale bytes, which the property does not
# constrain: the reference oracle below decides what is a concrete violation, any other difference is conformance drift.
P_DIFF_CONCRETE = False
# Allocator balance ("P live=<n>" printed by `al balance` at the end of every array-list case, after every list
# was cleaned up).  The unchanged tree leaks one block in aws_array_list_shrink_to_fit when the list is empty but
# still has capacity (witness: al init_dyn l0 2 3; al shrink l0; al balance -> P live=1); the model reproduces the
# count, so the streams agree.  Whether that is a defect to fix in /repo or an observation is the coordinator's
# decision: with ENFORCE_BALANCE = True (or VERIF_C09_BALANCE=1) the oracle reports every case whose balance is
# not 0 as a violation.
ENFORCE_BALANCE = os.environ.get("VERIF_C09_BALANCE", "0") == "1"
TRUSTED = ["translator gen/cfun.py + gen/arraylist_gen.py (stub functions cut from the text of source/array_list.c and array_list.inl: "
           "calc_necessary_size, growth rule, slice arithmetic; regenerated every run)",
           "hand models lean/AwsVerif/Model/ArrayList.lean, LinkedList.lean (tied by this correspondence run only)",
           "harness/seqs.c ghost bookkeeping (which node is in which list; fatal-precondition skips)",
           "libc qsort sorts (sort is specified, not modelled: sorted permutation)"]
ASSUMPTIONS = ["build configurations exercised: NDEBUG (theorems' model) and -DDEBUG_BUILD (poison fills reproduced by a driver overlay, "
               "pre/post-conditions active); both under ASan/UBSan",
               "allocator returns fresh blocks and never fails (aws_mem_acquire aborts otherwise); requests above 64 KiB are not issued",
               "API preconditions hold (item_size>0, swap indices < length, inserted nodes are detached, lists initialised, "
               "aliasing rules of copy/swap_contents/move_all)",
               "sort comparator is memcmp on whole elements (total order)"]
RULE = ("array-list cases: 1-3 lists (dynamic with initial allocation 0..8 or static 1..10 items with canaries), item sizes "
        "1..300 boundary-biased around 128/256, 10-45 ops; linked-list cases: 2-3 lists, 8 nodes, 10-40 ops; plus small-scope "
        "exhaustive enumeration; non-trivial = at least 6 state-changing ops")
NOT_PROVED = []



def regen(ctx):
    """rewrite lean/AwsVerif/Gen/ArrayListFns.lean (and the Gen.Math it calls) from /repo's current source"""
    from gen import arraylist_gen, math_gen, cfun
    repo, cfg = cbuild.REPO, cbuild.config_include()
    try:
        lean_math, _, meta = math_gen.generate(repo, cfg)
        text, _ = arraylist_gen.generate(repo, cfg, meta)
    except cfun.GenError as e:
        raise GenError(str(e))
    write_if_changed(os.path.join(LEAN, "AwsVerif", "Gen", "Math.lean"), lean_math)
    write_if_changed(os.path.join(LEAN, "AwsVerif", "Gen", "ArrayListFns.lean"), text)


MAXS = 2 ** 64 - 1
LIMIT = 65536
NLL, NNODES = 3, 8
ISZ_BOUNDARY = [1, 2, 3, 4, 7, 8, 16, 24, 31, 32, 33, 64, 100, 127, 128, 129, 200, 255, 256, 257, 300]


def val(k, isz):
    return bytes((k * 131 + i * 29 + (i // 128) * 3) % 256 for i in range(isz))


def parse_size(s):
    if s.startswith("MAX"):
        base, r = MAXS, s[3:]
    elif s.startswith("HALF"):
        base, r = MAXS // 2, s[4:]
    else:
        return int(s)
    if not r:
        return base
    return base + int(r[1:]) if r[0] == "+" else base - int(r[1:])


def fnv(bs):
    h = 0xcbf29ce484222325
    for b in bs:
        h = ((h ^ b) * 0x100000001b3) & MAXS
    return h


def render(bs):
    if len(bs) == 0:
        return "-"
    return bs.hex() if len(bs) <= 32 else "#%d:%016x" % (len(bs), fnv(bs))


# ------------------------------------------------------------------ reference array list
class RefAL:
    def __init__(self, isz, count=None):
        self.isz, self.count, self.items = isz, count, []   # count = static capacity in items, None = dynamic
        self.cs = None                                      # last current_size the implementation reported

    def nec(self, idx):
        """(error name | None, necessary size)"""
        if idx + 1 > MAXS or (idx + 1) * self.isz > MAXS:
            return "AWS_ERROR_OVERFLOW_DETECTED", None
        return None, (idx + 1) * self.isz

    def ensure(self, idx):
        e, n = self.nec(idx)
        if e:
            return e
        if self.count is not None and idx >= self.count:
            return "AWS_ERROR_INVALID_INDEX"
        return None

    def set(self, idx, v):
        e = self.ensure(idx)
        if e:
            return e
        if idx >= len(self.items):
            self.items += [None] * (idx - len(self.items)) + [v]
        else:
            self.items[idx] = v
        return None


def parse_val(t, isz):
    if t.startswith("v"):
        return val(int(t[1:]), isz)
    b = b"" if t == "-" else bytes.fromhex(t)
    return b if len(b) == isz else None


class Lines:
    permissive = False
    debug = False      # after `mode debug`: the library is the -DDEBUG_BUILD flavour (pre/post-conditions abort)

    def __init__(self, lines):
        self.l, self.i = lines, 0

    def next(self):
        x = self.l[self.i] if self.i < len(self.l) else None
        self.i += 1
        return x

    def peek(self):
        return self.l[self.i] if self.i < len(self.l) else None


class Bad(Exception):
    pass


def _expect(L, want, what):
    if L.permissive:
        return
    got = L.next()
    if got != want:
        raise Bad(f"{what}: implementation printed `{got}`, reference says `{want}`")


def _al_state(L, k, r, op):
    if L.permissive:
        return
    _expect(L, f"P len l{k} {len(r.items)}", f"{op}: length")
    w = L.next()
    if w is None or not w.startswith(f"W cs l{k} "):
        raise Bad(f"{op}: missing current_size line, got `{w}`")
    cs = int(w.split()[3])
    r.cs = cs
    if cs < len(r.items) * r.isz:
        raise Bad(f"{op}: length*item_size {len(r.items) * r.isz} exceeds current_size {cs}")
    if r.count is not None:
        if cs != r.count * r.isz:
            raise Bad(f"{op}: static storage changed size: current_size {cs}, caller gave {r.count * r.isz}")
        _expect(L, f"P guard l{k} ok", f"{op}: guard bytes around static storage")


def _match_elem(got, want, what):
    """want None = unspecified (gap) element: anything goes"""
    if want is not None and got != render(want):
        raise Bad(f"{what}: implementation returned {got}, reference holds {render(want)}")


def oracle_al(t, als, L, op):
    name = t[0]
    skip = L.peek() == "P skip"

    def skipped(allowed, why=""):
        if L.permissive:
            return allowed
        if skip:
            L.next()
            if not allowed:
                raise Bad(f"{op}: harness skipped a call the reference considers legal {why}")
            return True
        return False

    if name == "balance":
        for i in range(len(als)):
            als[i] = None
        if L.permissive:
            return
        g = L.next()
        if g is None or not g.startswith("P live="):
            raise Bad(f"{op}: missing allocator balance line, got `{g}`")
        if ENFORCE_BALANCE and g != "P live=0":
            raise Bad(f"{op}: allocator balance: {g[7:]} block(s) acquired by the lists are still live after every list was cleaned up")
        return
    if name == "fcap":
        cs, isz = parse_size(t[1]), parse_size(t[2])
        if skipped(isz == 0):
            return
        _expect(L, f"P cap={cs // isz}", f"{op}: aws_array_list_capacity")
        return
    if name == "fvalid":
        ln, cs, isz, dn = parse_size(t[1]), parse_size(t[2]), parse_size(t[3]), t[4] == "1"
        v = ln * isz <= MAXS and cs >= ln * isz and ((cs == 0) == dn) and isz != 0
        _expect(L, f"P valid {1 if v else 0}", f"{op}: aws_array_list_is_valid")
        return
    if name == "init_full":
        k, n, isz, k0 = int(t[1][1:]), parse_size(t[2]), parse_size(t[3]), parse_size(t[4])
        if skipped(isz == 0 or n == 0 or n * isz > LIMIT or k0 > LIMIT):
            return
        als[k] = RefAL(isz, n)
        als[k].items = [val(k0 + i, isz) for i in range(n)]
        _expect(L, "P rc=OK", op)
        _al_state(L, k, als[k], op)
        return
    if name in ("init_dyn", "init_static"):
        k, n, isz = int(t[1][1:]), parse_size(t[2]), parse_size(t[3])
        if name == "init_dyn":
            if skipped(isz == 0 or LIMIT < n * isz <= MAXS):
                return
            if n * isz > MAXS:
                als[k] = None
                _expect(L, "P rc=AWS_ERROR_OVERFLOW_DETECTED", op)
                return
            als[k] = RefAL(isz)
        else:
            if skipped(isz == 0 or n == 0 or n * isz > LIMIT):
                return
            als[k] = RefAL(isz, n)
        _expect(L, "P rc=OK", op)
        _al_state(L, k, als[k], op)
        return
    if name in ("copy", "swapc"):
        a, b = int(t[1][1:]), int(t[2][1:])
        ra, rb = als[a], als[b]
        if ra is None or rb is None or a == b or ra.isz != rb.isz:
            if not skipped(True):
                raise Bad(f"{op}: expected skip")
            return
        if name == "copy":
            # from->data == NULL (dynamic, current_size 0) is a fatal precondition
            if (skip or L.permissive) and skipped(ra.count is None and not ra.items):
                return
            if rb.count is not None and rb.count < len(ra.items):
                _expect(L, "P rc=AWS_ERROR_DEST_COPY_TOO_SMALL", op)
            else:
                _expect(L, "P rc=OK", op)
                rb.items = list(ra.items)
            _al_state(L, b, rb, op)
        else:
            if skipped(ra.count is not None or rb.count is not None):
                return
            _expect(L, "P rc=OK", op)
            als[a], als[b] = rb, ra
            _al_state(L, a, als[a], op)
            _al_state(L, b, als[b], op)
        return
    k = int(t[1][1:])
    r = als[k]
    if name in ("clean", "clean_secure"):
        als[k] = None
        _expect(L, "P rc=OK", op)
        _expect(L, "P zeroed 1", f"{op}: the list structure must be zeroed")
        if name == "clean_secure" and not L.permissive:
            g = L.next()
            if r is not None and r.count is not None:
                if g is None or not g.startswith("W raw "):
                    raise Bad(f"{op}: missing raw-storage line, got `{g}`")
            elif g not in ("P secure ok", "P secure none") or (g == "P secure none" and r is not None and r.cs):
                raise Bad(f"{op}: dynamic storage must be zeroed over its whole current_size before it is released, got `{g}`")
        return
    if r is None:
        if not skipped(True):
            raise Bad(f"{op}: expected skip on uninitialised list")
        return
    n = len(r.items)
    if name in ("push_back", "push_front"):
        v = parse_val(t[2], r.isz)
        e, nec = r.nec(n)
        if skipped(r.count is None and nec is not None and nec > LIMIT):
            return
        if r.count is not None and n >= r.count:
            _expect(L, "P rc=AWS_ERROR_LIST_EXCEEDS_MAX_SIZE", op)
        else:
            _expect(L, "P rc=OK", op)
            if name == "push_back":
                r.items.append(v)
            else:
                r.items.insert(0, v)
    elif name == "set":
        idx, v = parse_size(t[2]), parse_val(t[3], r.isz)
        e, nec = r.nec(idx)
        if skipped(r.count is None and nec is not None and nec > LIMIT):
            return
        e = r.set(idx, v)
        _expect(L, "P rc=" + (e or "OK"), op)
    elif name == "ensure":
        idx = parse_size(t[2])
        e, nec = r.nec(idx)
        if skipped(r.count is None and nec is not None and nec > LIMIT):
            return
        _expect(L, "P rc=" + (r.ensure(idx) or "OK"), op)
    elif name == "calc":
        e, nec = r.nec(parse_size(t[2]))
        _expect(L, "P rc=" + (e or "OK"), op)
        if not e:
            _expect(L, f"P nec={nec}", op)
        return
    elif name == "pop_back":
        if n == 0:
            _expect(L, "P rc=AWS_ERROR_LIST_EMPTY", op)
        else:
            _expect(L, "P rc=OK", op)
            r.items.pop()
    elif name == "pop_front":
        if n == 0:
            _expect(L, "P rc=AWS_ERROR_LIST_EMPTY", op)
        else:
            _expect(L, "P rc=OK", op)
            r.items.pop(0)
    elif name == "pop_front_n":
        m = parse_size(t[2])
        _expect(L, "P rc=OK", op)
        r.items = r.items[m:] if m < n else []
    elif name == "erase":
        idx = parse_size(t[2])
        if idx >= n:
            _expect(L, "P rc=AWS_ERROR_INVALID_INDEX", op)
        else:
            _expect(L, "P rc=OK", op)
            del r.items[idx]
    elif name == "clear":
        _expect(L, "P rc=OK", op)
        r.items = []
    elif name == "shrink":
        _expect(L, "P rc=" + ("OK" if r.count is None else "AWS_ERROR_LIST_STATIC_MODE_CANT_SHRINK"), op)
    elif name == "sort":
        _expect(L, "P rc=OK", op)
        r.items = [None] * n if any(x is None for x in r.items) else sorted(r.items)
    elif name == "swap":
        a, b = parse_size(t[2]), parse_size(t[3])
        if skipped(not (a < n and b < n)):
            return
        _expect(L, "P rc=OK", op)
        r.items[a], r.items[b] = r.items[b], r.items[a]
    elif name in ("front", "back", "get"):
        if name == "get":
            idx = parse_size(t[2])
            e = None if idx < n else "AWS_ERROR_INVALID_INDEX"
        else:
            idx = 0 if name == "front" else n - 1
            e = None if n > 0 else "AWS_ERROR_LIST_EMPTY"
        _expect(L, "P rc=" + (e or "OK"), op)
        if not e:
            g = L.next()
            if g is None or not g.startswith("P val "):
                raise Bad(f"{op}: missing value line, got `{g}`")
            _match_elem(g[6:], r.items[idx], f"{op} (element {idx})")
        return
    elif name == "valid":
        _expect(L, "P valid 1", f"{op}: aws_array_list_is_valid of a list the API produced")
        return
    elif name == "get_ptr":
        idx = parse_size(t[2])
        if idx >= n:
            _expect(L, "P rc=AWS_ERROR_INVALID_INDEX", op)
            return
        _expect(L, "P rc=OK", op)
        _expect(L, f"P off={idx * r.isz}", f"{op}: element address")
        g = L.next()
        if not L.permissive:
            if g is None or not g.startswith("P val "):
                raise Bad(f"{op}: missing value line, got `{g}`")
            _match_elem(g[6:], r.items[idx], f"{op} (element {idx})")
        return
    elif name == "dump":
        _expect(L, f"P len l{k} {n}", f"{op}: length")
        w = L.next()
        if w is None or not w.startswith(f"W cap l{k} "):
            raise Bad(f"{op}: missing capacity line, got `{w}`")
        cap = int(w.split()[3])
        if cap < n or (r.count is not None and cap != r.count) or (r.cs is not None and cap != r.cs // r.isz):
            raise Bad(f"{op}: capacity {cap} inconsistent with length {n} / static item count {r.count} / "
                      f"current_size {r.cs} div item_size {r.isz}")
        for i in range(n):
            g = L.next()
            if g is None or not g.startswith(f"P e {i} "):
                raise Bad(f"{op}: missing element {i}, got `{g}`")
            _match_elem(g.split(" ", 3)[3], r.items[i], f"{op}: get_at({i})")
        for nm, idx in (("front", 0), ("back", n - 1)):
            g = L.next()
            if g is None or not g.startswith(f"P {nm} "):
                raise Bad(f"{op}: missing {nm} line, got `{g}`")
            if n == 0:
                if g != f"P {nm} AWS_ERROR_LIST_EMPTY":
                    raise Bad(f"{op}: {nm} of an empty list gave `{g}`")
            else:
                _match_elem(g.split(" ", 2)[2], r.items[idx], f"{op}: {nm}")
        return
    elif name == "forged":
        flen = parse_size(t[2])
        if flen < 2 ** 32 or L.debug:
            if not skipped(True):
                raise Bad(f"{op}: expected skip")
            return
        if skip and skipped(r.count is None):    # data == NULL (dynamic, current_size 0): the length accessor asserts
            return
        sub = t[3]
        if sub == "shrink":
            if r.count is not None:
                e = "AWS_ERROR_LIST_STATIC_MODE_CANT_SHRINK"
            else:
                e = "AWS_ERROR_OVERFLOW_DETECTED" if flen * r.isz > MAXS else None
        else:
            e, nec = r.nec(flen)
            if skipped(e is None and r.count is None):
                return
            if e is None:
                e = "AWS_ERROR_LIST_EXCEEDS_MAX_SIZE"
        _expect(L, "P rc=" + (e or "OK"), op)
    else:
        _expect(L, "bad-op", op)
        return
    _al_state(L, k, r, op)


# ------------------------------------------------------------------ reference linked lists
class RefLL:
    def __init__(self):
        self.lists = [None] * NLL          # list of node indices, or None = not initialised
        self.where = [None] * NNODES

    def ref(self, tok):
        """X reference -> (kind, list index, position) or None if unusable; kind in node/h/t"""
        if tok[0] == "n":
            k = int(tok[1:])
            j = self.where[k]
            return None if j is None else ("node", j, self.lists[j].index(k))
        j = int(tok[1])
        if self.lists[j] is None:
            return None
        return (tok[3], j, None)


def _nm(k):
    return f"n{k}"


def _ll_state(L, r, op):
    for j in range(NLL):
        if r.lists[j] is not None:
            names = "".join(" " + _nm(k) for k in r.lists[j])
            _expect(L, f"P fwd L{j}{names}", f"{op}: forward walk of L{j}")
            names = "".join(" " + _nm(k) for k in reversed(r.lists[j]))
            _expect(L, f"P rev L{j}{names}", f"{op}: backward walk of L{j} (mirror of the forward walk)")
            _expect(L, f"P valid L{j} 1 1 0 0", f"{op}: aws_linked_list_is_valid / is_valid_deep of L{j}, node_is_in_list of its sentinels")
    _expect(L, "P inl " + "".join("0" if w is None else "1" for w in r.where), f"{op}: aws_linked_list_node_is_in_list of n0..n{NNODES - 1}")
    for k in range(NNODES):
        if r.where[k] is None:
            _expect(L, f"P det n{k} null null", f"{op}: detached node n{k} must have both links NULL")


def oracle_ll(t, r, L, op):
    name = t[0]

    def skip_if(cond):
        if cond:
            _expect(L, "P skip", f"{op}: precondition does not hold, harness must skip")
        return cond

    if name == "init":
        j = int(t[1][1:])
        if skip_if(r.lists[j]):
            return
        r.lists[j] = []
        _expect(L, "P ok", op)
    elif name in ("push_back", "push_front"):
        j, k = int(t[1][1:]), int(t[2][1:])
        if skip_if(r.lists[j] is None or r.where[k] is not None):
            return
        if name == "push_back":
            r.lists[j].append(k)
        else:
            r.lists[j].insert(0, k)
        r.where[k] = j
        _expect(L, "P ok", op)
    elif name in ("insert_before", "insert_after"):
        x, k = r.ref(t[1]), int(t[2][1:])
        before = name == "insert_before"
        if skip_if(x is None or (x[0] == "h" and before) or (x[0] == "t" and not before) or r.where[k] is not None):
            return
        kind, j, pos = x
        if kind == "h":
            ins = 0
        elif kind == "t":
            ins = len(r.lists[j])
        else:
            ins = pos if before else pos + 1
        r.lists[j].insert(ins, k)
        r.where[k] = j
        _expect(L, "P ok", op)
    elif name == "swap_nodes":
        a, b = int(t[1][1:]), int(t[2][1:])
        if a == b and skip_if(L.debug and r.where[a] is None):
            return
        if a != b:
            if skip_if(r.where[a] is None or r.where[b] is None):
                return
            ja, jb = r.where[a], r.where[b]
            ia, ib = r.lists[ja].index(a), r.lists[jb].index(b)
            r.lists[ja][ia] = b
            r.lists[jb][ib] = a
            r.where[a], r.where[b] = jb, ja
        _expect(L, "P ok", op)
    elif name in ("swapc", "move_back", "move_front"):
        a, b = int(t[1][1:]), int(t[2][1:])
        if skip_if(a == b or r.lists[a] is None or r.lists[b] is None):
            return
        if name == "swapc":
            r.lists[a], r.lists[b] = r.lists[b], r.lists[a]
        elif name == "move_back":
            r.lists[a], r.lists[b] = r.lists[a] + r.lists[b], []
        else:
            r.lists[a], r.lists[b] = r.lists[b] + r.lists[a], []
        for j in (a, b):
            for k in r.lists[j]:
                r.where[k] = j
        _expect(L, "P ok", op)
    elif name in ("pop_back", "pop_front"):
        j = int(t[1][1:])
        if skip_if(not r.lists[j]):
            return
        k = r.lists[j].pop() if name == "pop_back" else r.lists[j].pop(0)
        r.where[k] = None
        _expect(L, f"P pop n{k}", op)
    elif name == "remove":
        k = int(t[1][1:])
        if skip_if(r.where[k] is None):
            return
        r.lists[r.where[k]].remove(k)
        r.where[k] = None
        _expect(L, "P ok", op)
    elif name in ("begin", "end", "rbegin", "rend"):
        j = int(t[1][1:])
        if skip_if(r.lists[j] is None):
            return
        l = r.lists[j]
        w = {"begin": _nm(l[0]) if l else f"L{j}.t", "end": f"L{j}.t", "rbegin": _nm(l[-1]) if l else f"L{j}.h", "rend": f"L{j}.h"}[name]
        _expect(L, f"P {name} {w}", op)
        return
    elif name == "fvalid":
        j = int(t[1][1:])
        if skip_if(r.lists[j] is None):
            return
        _expect(L, "P fvalid 0", f"{op}: aws_linked_list_is_valid must reject a corrupted sentinel")
        return
    elif name == "fempty":
        j = int(t[1][1:])
        if skip_if(r.lists[j] is None):
            return
        _expect(L, f"P fempty {0 if r.lists[j] else 1}", f"{op}: aws_linked_list_empty is decided by head.next alone")
        return
    elif name == "fdeep":
        j, k = int(t[1][1:]), int(t[2][1:])
        if skip_if(r.lists[j] is None or r.where[k] != j):
            return
        _expect(L, "P fdeep 0", f"{op}: aws_linked_list_is_valid_deep must reject a one-directional edge")
        return
    elif name == "probe":
        k = int(t[1][1:])
        if skip_if(r.where[k] is not None):
            return
        both = t[2] == t[3] == f"n{k}"
        _expect(L, "P probe 1 1 1" if both else "P probe 0 0 0", f"{op}: node_next/prev_is_valid, node_is_in_list of a node that is in no list")
        return
    elif name in ("empty", "front", "back"):
        j = int(t[1][1:])
        if skip_if(r.lists[j] is None or (L.debug and name != "empty" and not r.lists[j])):
            return
        l = r.lists[j]
        if name == "empty":
            _expect(L, f"P empty {0 if l else 1}", op)
        elif name == "front":
            _expect(L, "P front " + (_nm(l[0]) if l else f"L{j}.t"), op)
        else:
            _expect(L, "P back " + (_nm(l[-1]) if l else f"L{j}.h"), op)
        return
    elif name in ("next", "prev"):
        x = r.ref(t[1])
        if skip_if(x is None or (L.debug and ((x[0] == "t" and name == "next") or (x[0] == "h" and name == "prev")))):
            return
        kind, j, pos = x
        l = r.lists[j]
        if name == "next":
            if kind == "t":
                w = "null"
            else:
                i = 0 if kind == "h" else pos + 1
                w = _nm(l[i]) if i < len(l) else f"L{j}.t"
        else:
            if kind == "h":
                w = "null"
            else:
                i = len(l) - 1 if kind == "t" else pos - 1
                w = _nm(l[i]) if i >= 0 else f"L{j}.h"
        _expect(L, f"P {name} {w}", op)
        return
    else:
        _expect(L, "bad-op", op)
        return
    _ll_state(L, r, op)


def oracle(case, lines):
    if case.tags.get("malformed"):
        return []
    L = Lines(lines)
    als = [None] * 4
    ll = RefLL()
    try:
        for op in case.ops:
            t = op.split(" ")
            if t[0] == "al":
                oracle_al(t[1:], als, L, op)
            elif t[0] == "ll":
                oracle_ll(t[1:], ll, L, op)
            elif op == "mode debug":
                _expect(L, "P mode debug", op)
                L.debug = True
            else:
                _expect(L, "bad-op", op)
        if L.peek() is not None:
            raise Bad(f"unexpected extra output `{L.peek()}`")
    except Bad as e:
        return [str(e)]
    return []


# ------------------------------------------------------------------ generators
class _Sink:
    """runs the reference alongside generation so that operands can be chosen around the current length"""

    def __init__(self, debug=False):
        self.ops, self.als, self.ll, self.vk, self.debug = [], [None] * 4, RefLL(), 0, debug
        if debug:
            self.ops.append("mode debug")

    def fresh(self):
        self.vk += 1
        return f"v{self.vk}"


def _sim_al(s, line):
    """apply to the generator's reference (approximate: skips treated as performed when legal)"""
    t = line.split(" ")[1:]
    L = _Permissive()
    L.debug = s.debug
    try:
        oracle_al(t, s.als, L, line)
    except Bad:
        pass
    s.ops.append(line)


class _Permissive(Lines):
    """a line source that agrees with whatever the reference expects (used only to advance the reference)"""
    permissive = True

    def __init__(self):
        super().__init__([])

    def peek(self):
        return None

    def next(self):
        return None


def _huge(rng, n, isz):
    """a count / index near the limits of size_t: MAX, HALF, powers of two, SIZE_MAX/item_size, and the values whose
    product with item_size wraps modulo 2^64 to a few elements (ceil(j*2^64/item_size) + d)"""
    q = MAXS // isz
    pool = [MAXS, MAXS - 1, MAXS // 2, MAXS // 2 + 1, 2 ** 63, 2 ** 63 + 1, 2 ** 62, 2 ** 61 + 2, 2 ** 32, 2 ** 32 + 1, 2 ** 32 - 1,
            q, q + 1, q + 2, q - 1, MAXS - n, MAXS - n + 1]
    for _ in range(6):
        j = rng.randint(1, max(1, isz - 1)) if isz > 1 else 1
        base = -((-(2 ** 64) * j) // isz)           # ceil(j * 2^64 / isz)
        pool.append(base + rng.choice([0, 1, 2, max(n - 1, 0), n, n + 1]))
    return str(min(max(rng.choice(pool), 0), MAXS))


def _idx(rng, n, isz):
    if rng.random() < 0.12:
        return _huge(rng, n, isz)
    r = rng.random()
    if r < 0.45 and n > 0:
        return str(rng.randrange(n))
    if r < 0.6:
        return str(n)
    if r < 0.72:
        return str(n + rng.randint(1, 3))
    if r < 0.78:
        return str(n + rng.randint(4, 25))
    if r < 0.84 and n > 0:
        return str(rng.choice([0, n - 1]))
    q = MAXS // isz
    return rng.choice(["MAX", "MAX-1", "HALF", "HALF+1", str(q), str(q - 1), str(min(q + 1, MAXS)), str(q - 2), str(2 ** 32), str(2 ** 63)])


def gen_al_case(rng, maxops, debug=False):
    isz = rng.choice(ISZ_BOUNDARY) if rng.random() < 0.7 else rng.randint(1, 300)
    s = _Sink(debug)
    if True:
        def init(k, size):
            if rng.random() < 0.12:
                _sim_al(s, f"al init_full l{k} {rng.choice([1, 2, 3, 4, 6, 10])} {size} {rng.randint(0, 40)}")
            elif rng.random() < 0.3:
                _sim_al(s, f"al init_static l{k} {rng.choice([1, 2, 3, 4, 6, 10])} {size}")
            elif rng.random() < 0.06:
                _sim_al(s, f"al init_dyn l{k} {_huge(rng, 0, size)} {size}")     # OVERFLOW_DETECTED or skip (too large)
                _sim_al(s, f"al init_dyn l{k} {rng.choice([0, 1, 4])} {size}")
            else:
                _sim_al(s, f"al init_dyn l{k} {rng.choice([0, 0, 1, 2, 3, 5, 8])} {size}")
        init(0, isz)
        nl = 1
        if rng.random() < 0.5:
            init(1, isz); nl = 2
            if rng.random() < 0.3:
                init(2, rng.choice([isz, rng.choice(ISZ_BOUNDARY)])); nl = 3
        W = [("push_back", 20), ("push_front", 8), ("set", 10), ("get", 5), ("pop_back", 5), ("pop_front", 5), ("pop_front_n", 5),
             ("erase", 8), ("swap", 9), ("sort", 3), ("clear", 1), ("shrink", 3), ("copy", 4), ("swapc", 3), ("ensure", 2),
             ("calc", 2), ("front", 2), ("back", 2), ("dump", 14), ("forged", 2), ("reinit", 1), ("get_ptr", 3), ("valid", 2),
             ("fvalid", 2), ("clean_secure", 1)]
        names, weights = [w[0] for w in W], [w[1] for w in W]
        for _ in range(rng.randint(10, maxops)):
            k = rng.randrange(nl) if rng.random() < 0.35 else 0
            r = s.als[k]
            if r is None:
                init(k, isz)
                continue
            n = len(r.items)
            op = rng.choices(names, weights)[0]
            if op in ("push_back", "push_front"):
                _sim_al(s, f"al {op} l{k} {s.fresh()}")
            elif op == "set":
                _sim_al(s, f"al set l{k} {_idx(rng, n, r.isz)} {s.fresh()}")
            elif op == "fvalid":
                ln = rng.choice([0, 1, n, 7, MAXS // r.isz, MAXS // r.isz + 1, MAXS])
                need = ln * r.isz
                cs = rng.choice([0, need, need + 1, max(need - 1, 0), need + r.isz, MAXS]) if need <= MAXS else rng.choice([0, MAXS, need % (MAXS + 1)])
                _sim_al(s, f"al fvalid {min(ln, MAXS)} {min(cs, MAXS)} {rng.choice([r.isz, r.isz, 0, 1])} {rng.choice([0, 0, 1])}")
                if rng.random() < 0.5:
                    _sim_al(s, f"al fcap {rng.choice([0, 1, r.isz - 1, r.isz, r.isz + 1, 2 * r.isz - 1, 7 * r.isz + 3, MAXS])} {r.isz}")
            elif op == "clean_secure":
                _sim_al(s, f"al clean_secure l{k}")
            elif op in ("get", "erase", "ensure", "calc", "get_ptr"):
                _sim_al(s, f"al {op} l{k} {_idx(rng, n, r.isz)}")
            elif op == "pop_front_n":
                m = rng.choice([0, 1, 2, max(n - 1, 0), n, n + 1, "MAX"]) if rng.random() < 0.7 else rng.randint(0, n + 1)
                if rng.random() < 0.3:
                    m = _huge(rng, n, r.isz)
                _sim_al(s, f"al pop_front_n l{k} {m}")
            elif op == "swap":
                if n >= 1 and rng.random() < 0.93:
                    a, b = rng.randrange(n), rng.randrange(n)
                    if rng.random() < 0.3:
                        a, b = rng.choice([(0, n - 1), (n - 1, 0), (0, 0), (n // 2, n - 1)])
                else:
                    a, b = n, rng.randint(0, n)
                    if rng.random() < 0.5:
                        a = _huge(rng, n, r.isz)
                _sim_al(s, f"al swap l{k} {a} {b}")
            elif op in ("copy", "swapc"):
                o = rng.randrange(nl)
                _sim_al(s, f"al {op} l{k} l{o}")
            elif op == "forged":
                fl = rng.choice(["MAX", "MAX-1", "HALF", str(MAXS // r.isz), str(min(MAXS // r.isz + 1, MAXS)), str(2 ** 40)])
                sub = rng.choice([f"push_back {s.fresh()}", f"push_front {s.fresh()}", "shrink"])
                _sim_al(s, f"al forged l{k} {fl} {sub}")
            elif op == "reinit":
                init(k, r.isz)
            else:
                _sim_al(s, f"al {op} l{k}")
            if op not in ("dump", "get", "front", "back", "calc", "get_ptr", "valid", "fvalid", "clean_secure") and rng.random() < (0.5 if isz <= 64 else 0.3):
                s.ops.append(f"al dump l{k}")
        for k in range(nl):
            s.ops.append(f"al dump l{k}")
        s.ops.append("al balance")
    return Case(s.ops, {"kind": "al", "isz": isz, "debug": debug})


def _sim_ll(s, line):
    L = _Permissive()
    L.debug = s.debug
    try:
        oracle_ll(line.split(" ")[1:], s.ll, L, line)
    except Bad:
        pass
    s.ops.append(line)


def gen_ll_case(rng, maxops, debug=False):
    s = _Sink(debug)
    nl = rng.choice([2, 2, 3])
    for j in range(nl):
        _sim_ll(s, f"ll init L{j}")
    r = s.ll
    W = [("push_back", 14), ("push_front", 10), ("pop_back", 5), ("pop_front", 5), ("insert_before", 8), ("insert_after", 8),
         ("remove", 8), ("swap_nodes", 14), ("swapc", 5), ("move_back", 5), ("move_front", 5), ("obs", 10), ("bad", 2), ("init", 1), ("probe", 3), ("forge", 3)]
    names, weights = [w[0] for w in W], [w[1] for w in W]
    for _ in range(rng.randint(10, maxops)):
        op = rng.choices(names, weights)[0]
        det = [k for k in range(NNODES) if r.where[k] is None]
        inl = [k for k in range(NNODES) if r.where[k] is not None]
        j = rng.randrange(nl)
        if op in ("push_back", "push_front"):
            if det:
                _sim_ll(s, f"ll {op} L{j} n{rng.choice(det)}")
        elif op in ("pop_back", "pop_front"):
            _sim_ll(s, f"ll {op} L{j}")
        elif op in ("insert_before", "insert_after"):
            if det:
                x = rng.random()
                if x < 0.7 and inl:
                    ref = f"n{rng.choice(inl)}"
                else:
                    ref = f"L{j}." + ("t" if op == "insert_before" else "h")
                _sim_ll(s, f"ll {op} {ref} n{rng.choice(det)}")
        elif op == "remove":
            if inl:
                _sim_ll(s, f"ll remove n{rng.choice(inl)}")
        elif op == "swap_nodes":
            if inl:
                x = rng.random()
                a = rng.choice(inl)
                l = r.lists[r.where[a]]
                i = l.index(a)
                if x < 0.3 and i + 1 < len(l):
                    b = l[i + 1]                     # adjacent, a before b
                elif x < 0.55 and i > 0:
                    b = l[i - 1]                     # adjacent, a after b
                elif x < 0.62:
                    b = a
                else:
                    b = rng.choice(inl)
                _sim_ll(s, f"ll swap_nodes n{a} n{b}")
        elif op in ("swapc", "move_back", "move_front"):
            o = rng.randrange(nl)
            _sim_ll(s, f"ll {op} L{j} L{o}")
        elif op == "obs":
            x = rng.choice(["empty", "front", "back", "next", "prev", "begin", "end", "rbegin", "rend"])
            if x in ("next", "prev"):
                ref = f"n{rng.choice(inl)}" if inl and rng.random() < 0.7 else f"L{j}." + rng.choice("ht")
                _sim_ll(s, f"ll {x} {ref}")
            else:
                _sim_ll(s, f"ll {x} L{j}")
        elif op == "probe":
            if det:
                k = rng.choice(det)
                pool = ["null", f"n{k}", f"L{j}.h", f"L{j}.t"] + [f"n{m}" for m in inl[:3]] + [f"n{m}" for m in det[:2]]
                a, b = (f"n{k}", f"n{k}") if rng.random() < 0.15 else (rng.choice(pool), rng.choice(pool))
                _sim_ll(s, f"ll probe n{k} {a} {b}")
        elif op == "forge":
            if rng.random() < 0.3:
                _sim_ll(s, f"ll fempty L{j}")
            elif rng.random() < 0.5 or not r.lists[j]:
                _sim_ll(s, f"ll fvalid L{j} {rng.choice(['hn', 'hp', 'tp', 'tn'])}")
            else:
                _sim_ll(s, f"ll fdeep L{j} n{rng.choice(r.lists[j])}")
        elif op == "bad":
            # precondition violations: both sides must skip identically
            _sim_ll(s, rng.choice([f"ll remove n{rng.randrange(NNODES)}", f"ll push_back L{j} n{rng.randrange(NNODES)}",
                                   f"ll swap_nodes n{rng.randrange(NNODES)} n{rng.randrange(NNODES)}", f"ll move_back L{j} L{j}",
                                   f"ll insert_after L{j}.t n{rng.randrange(NNODES)}", f"ll pop_back L{j}"]))
        else:
            _sim_ll(s, f"ll init L{j}")
    return Case(s.ops, {"kind": "ll", "debug": debug})


def gen_pop_case(rng, debug=True):
    """a list of 3..12 elements over exact-size static storage (canaries, ASan red zone right behind) or a dynamic block,
    then pops of fewer / exactly / more than half of the elements, erase, clear, shrink, refills — the offsets and sizes
    of the memmove / poison-fill code (the fills exist only with -DDEBUG_BUILD)"""
    isz = rng.choice([1, 2, 3, 7, 8, 17, 24, 64, 127, 128, 129, 300]) if rng.random() < 0.8 else rng.randint(1, 300)
    s = _Sink(debug)
    n0 = rng.randint(3, 12)
    if rng.random() < 0.5:
        _sim_al(s, f"al init_static l0 {n0 + rng.choice([0, 0, 1, 3])} {isz}")
    else:
        _sim_al(s, f"al init_dyn l0 {rng.choice([0, n0, n0 + 1, 2 * n0])} {isz}")
    for _ in range(n0):
        _sim_al(s, f"al push_back l0 {s.fresh()}")
    for _ in range(rng.randint(2, 8)):
        r = s.als[0]
        n = len(r.items)
        x = rng.random()
        if x < 0.3:
            k = rng.choice([1, max(1, n // 2 - 1), n // 2, n // 2 + 1, max(n - 1, 0), n, n + 1, 0])
            if rng.random() < 0.3:
                k = _huge(rng, n, isz)
            _sim_al(s, f"al pop_front_n l0 {k}")
        elif x < 0.45:
            _sim_al(s, "al pop_front l0")
        elif x < 0.65:
            _sim_al(s, f"al erase l0 {rng.choice([0, 0, 1, max(n - 1, 0), n // 2])}")
        elif x < 0.72:
            _sim_al(s, "al clear l0")
        elif x < 0.8:
            _sim_al(s, "al shrink l0")
        elif x < 0.9:
            _sim_al(s, f"al push_back l0 {s.fresh()}")
        else:
            _sim_al(s, f"al set l0 {n + rng.randint(0, 2)} {s.fresh()}")
        s.ops.append("al dump l0")
    s.ops.append("al balance")
    return Case(s.ops, {"kind": "al", "isz": isz, "debug": debug})


def gen_malformed(rng):
    pool = ["al", "ll", "al frob l0", "ll frob L0", "al push_back l9 v1", "ll push_back L7 n1", "al init_dyn l0 x 3", "zz",
            "al set l0 1", "ll remove", "al init_dyn l0 2 3", "al push_back l0 zz", "al push_back l0 aabb", "ll init L0",
            "ll push_back L0 n9", "al get l0", "al swap l0 1", "ll swap_nodes n1", "al dump l0", "al init_static l1 0 4",
            "al init_dyn l2 4 0", "al forged l0 5 shrink", "al forged l0 MAX frob", "ll next L0.x", "ll insert_before n1 L0"]
    return Case([rng.choice(pool) for _ in range(rng.randint(3, 12))], {"kind": "malformed", "malformed": True})


# ---- small-scope exhaustive: symbolic ops resolved against the running reference
AL_ALPHA = ["push_back", "push_front", "pop_back", "pop_front", "pop_front_n2", "set0", "set_last", "set_len", "set_gap",
            "erase0", "erase1", "erase_last", "swap_ends", "swap01", "sort", "clear", "shrink"]


def _al_resolve(sym, s, k=0):
    n = len(s.als[k].items)
    m = {"push_back": f"push_back l{k} {s.fresh()}", "push_front": f"push_front l{k} {s.fresh()}", "pop_back": f"pop_back l{k}",
         "pop_front": f"pop_front l{k}", "pop_front_n2": f"pop_front_n l{k} 2", "set0": f"set l{k} 0 {s.fresh()}",
         "set_last": f"set l{k} {max(n - 1, 0)} {s.fresh()}", "set_len": f"set l{k} {n} {s.fresh()}",
         "set_gap": f"set l{k} {n + 1} {s.fresh()}", "erase0": f"erase l{k} 0", "erase1": f"erase l{k} 1",
         "erase_last": f"erase l{k} {max(n - 1, 0)}", "swap_ends": f"swap l{k} 0 {max(n - 1, 0)}", "swap01": f"swap l{k} 1 0",
         "sort": f"sort l{k}", "clear": f"clear l{k}", "shrink": f"shrink l{k}"}
    return "al " + m[sym]


def exhaustive_al(depth, init, isz, alpha=AL_ALPHA, sample=None, rng=None, debug=False):
    out = []
    if True:
        seqs = itertools.product(alpha, repeat=depth)
        if sample is not None:
            seqs = [tuple(rng.choice(alpha) for _ in range(depth)) for _ in range(sample)]
        for seq in seqs:
            s = _Sink(debug)
            # descending keys so that sort has work to do
            s.vk = 40
            _sim_al(s, init.format(isz=isz))
            for sym in seq:
                s.vk = (s.vk * 7 + 3) % 50
                _sim_al(s, _al_resolve(sym, s))
                s.ops.append("al dump l0")
            s.ops.append("al balance")
            out.append(Case(s.ops, {"kind": "al", "isz": isz, "exhaustive": True, "debug": debug}))
    return out


LL_ALPHA = ["pb0", "pf0", "pb1", "popb0", "popf0", "rm_first", "rm_mid", "rm_last", "ib_mid", "ia_mid", "sw_adj", "sw_adj_rev",
            "sw_ends", "sw_same", "sw_cross", "swapc", "mb01", "mb10", "mf01", "mf10"]


def _ll_resolve(sym, s):
    r = s.ll
    l0, l1 = r.lists[0], r.lists[1]
    det = [k for k in range(NNODES) if r.where[k] is None]
    d = det[0] if det else 0
    mid = l0[len(l0) // 2] if l0 else 0
    f0 = l0[0] if l0 else 0
    m = {"pb0": f"push_back L0 n{d}", "pf0": f"push_front L0 n{d}", "pb1": f"push_back L1 n{d}", "popb0": "pop_back L0",
         "popf0": "pop_front L0", "rm_first": f"remove n{f0}", "rm_mid": f"remove n{mid}", "rm_last": f"remove n{l0[-1] if l0 else 0}",
         "ib_mid": f"insert_before n{mid} n{d}", "ia_mid": f"insert_after n{mid} n{d}",
         "sw_adj": f"swap_nodes n{f0} n{l0[1] if len(l0) > 1 else f0}", "sw_adj_rev": f"swap_nodes n{l0[1] if len(l0) > 1 else f0} n{f0}",
         "sw_ends": f"swap_nodes n{f0} n{l0[-1] if l0 else 0}", "sw_same": f"swap_nodes n{f0} n{f0}",
         "sw_cross": f"swap_nodes n{f0} n{l1[0] if l1 else 7}", "swapc": "swapc L0 L1", "mb01": "move_back L0 L1",
         "mb10": "move_back L1 L0", "mf01": "move_front L0 L1", "mf10": "move_front L1 L0"}
    return "ll " + m[sym]


def exhaustive_ll(depth, prefix, sample=None, rng=None, debug=False):
    out = []
    seqs = itertools.product(LL_ALPHA, repeat=depth)
    if sample is not None:
        seqs = [tuple(rng.choice(LL_ALPHA) for _ in range(depth)) for _ in range(sample)]
    for seq in seqs:
        s = _Sink(debug)
        for line in ["ll init L0", "ll init L1"] + prefix:
            _sim_ll(s, line)
        for sym in seq:
            _sim_ll(s, _ll_resolve(sym, s))
        out.append(Case(s.ops, {"kind": "ll", "exhaustive": True, "debug": debug}))
    return out


LL_PREFIXES = [[], ["ll push_back L0 n0", "ll push_back L0 n1", "ll push_back L0 n2"],
               ["ll push_back L0 n0", "ll push_back L0 n1", "ll push_back L1 n2", "ll push_back L1 n3"]]
AL_INITS = ["al init_dyn l0 0 {isz}", "al init_dyn l0 2 {isz}", "al init_static l0 3 {isz}"]


def gen_cases(rng, tier):
    quick = tier == "quick"
    cases = []
    cases += [gen_al_case(rng, 45) for _ in range(3000 if quick else 40000)]
    cases += [gen_ll_case(rng, 40) for _ in range(2500 if quick else 30000)]
    cases += [gen_malformed(rng) for _ in range(100 if quick else 1000)]
    if quick:
        for ini in AL_INITS:
            cases += exhaustive_al(2, ini, 2)
            cases += exhaustive_al(4, ini, rng.choice([1, 3, 130]), sample=400, rng=rng)
        for pre in LL_PREFIXES:
            cases += exhaustive_ll(2, pre)
            cases += exhaustive_ll(4, pre, sample=500, rng=rng)
    else:
        for ini in AL_INITS:
            cases += exhaustive_al(4, ini, 2)
            cases += exhaustive_al(3, ini, 129)
        cases += exhaustive_ll(4, LL_PREFIXES[0])
        cases += exhaustive_ll(4, LL_PREFIXES[1])
        cases += exhaustive_ll(3, LL_PREFIXES[2])
        cases += exhaustive_ll(5, LL_PREFIXES[1], sample=40000, rng=rng)
    return cases


def debug_cases(rng, tier):
    quick = tier == "quick"
    cases = [gen_pop_case(rng) for _ in range(500 if quick else 8000)]
    cases += [gen_al_case(rng, 35, debug=True) for _ in range(400 if quick else 6000)]
    cases += [gen_ll_case(rng, 30, debug=True) for _ in range(300 if quick else 4000)]
    for ini in AL_INITS:
        cases += exhaustive_al(2 if quick else 3, ini, 2, debug=True)
    for pre in LL_PREFIXES:
        cases += exhaustive_ll(2 if quick else 3, pre, debug=True)
    return cases


def _mark_debug_replays(ctx, first):
    """replays written by the debug-flavour stage must be replayed against the debug-flavour harness: move the op list
    under `debug_ops` so that `check.py --replay` goes through `replay()` below"""
    for name, text, path, no_input in ctx.violations[first:]:
        try:
            r = json.load(open(path))
        except Exception:
            continue
        if "ops" in r:
            r["debug_ops"] = r.pop("ops")
            if r["debug_ops"][:1] != ["mode debug"]:     # the minimiser may drop it (the harness does not need it, the model does)
                r["debug_ops"].insert(0, "mode debug")
        r["flavour"] = "debug (-DDEBUG_BUILD library and inline headers, ASan/UBSan)"
        with open(path, "w") as f:
            json.dump(r, f, indent=1)


def _debug_exe(ctx):
    try:
        return cbuild.build_harness(**dict(HARNESS, flavour="debug"))
    except cbuild.BuildError as e:
        ctx.machinery_broken("debug-flavour build: " + str(e)[:2000])
        return None


def extra_stages(ctx):
    """second configuration: library and inline headers compiled with -DDEBUG_BUILD (cbuild flavour `debug`): the DEBUG-only
    poison fills of array_list.inl/.c run, AWS_PRECONDITION / AWS_POSTCONDITION abort.  Same op language, same model
    (Driver/Seqs.lean reproduces the fills after `mode debug`), same oracle, ASan + canaries around static storage."""
    exe = _debug_exe(ctx)
    if exe is None:
        return
    cases = debug_cases(ctx.rng, ctx.tier)
    keep = ctx.cov.get("distribution")
    first = len(ctx.violations)
    res = core.correspondence_stage(ctx, cases, exe)
    if res is not None:
        ctx.cov["debug_build_distribution"] = ctx.cov.get("distribution")
    if keep is not None:
        ctx.cov["distribution"] = keep
    ctx.cov["debug_build_cases"] = len(cases)
    _mark_debug_replays(ctx, first)


def replay(ctx, r):
    if "debug_ops" not in r:
        print(json.dumps(r, indent=1)[:3000])
        return
    exe = _debug_exe(ctx)
    if exe is not None:
        core.correspondence_stage(ctx, [Case(r["debug_ops"], r.get("tags"))], exe)


MUTATING = ("push", "pop", "set", "erase", "swap", "sort", "clear", "shrink", "copy", "insert", "remove", "move", "init_full")


def nontrivial(case):
    return sum(1 for o in case.ops if (o.split(" ") + [""])[1].startswith(MUTATING)) >= 6


def distribution(cases, c_out):
    d = {"al_cases": 0, "ll_cases": 0, "malformed_cases": 0, "exhaustive_cases": 0, "ops": {}, "item_size": {}, "rc": {}, "skips": 0}
    for i, c in enumerate(cases):
        d[c.tags.get("kind", "al") + "_cases"] += 1
        if c.tags.get("debug"):
            d["debug_flavour_cases"] = d.get("debug_flavour_cases", 0) + 1
        if c.tags.get("exhaustive"):
            d["exhaustive_cases"] += 1
        if "isz" in c.tags:
            b = c.tags["isz"]
            key = "1-31" if b < 32 else "32-127" if b < 128 else "128" if b == 128 else "129-255" if b < 256 else "256-300"
            d["item_size"][key] = d["item_size"].get(key, 0) + 1
        for o in c.ops:
            t = o.split(" ")
            key = " ".join(t[:2])
            d["ops"][key] = d["ops"].get(key, 0) + 1
        for l in c_out.get(i, []):
            if l.startswith("P rc="):
                d["rc"][l[5:]] = d["rc"].get(l[5:], 0) + 1
            elif l == "P skip":
                d["skips"] += 1
    return d


MANIFEST = dict(
    category="proof",
    design_ref="5.9",
    text=("Lean 4 theorems over a byte-level model of array_list.inl/.c (backing store of Option bytes, growth rule, "
          "memmove offsets, 128-byte sliced swap) and a pointer-level model of linked_list.inl (same sequence of pointer "
          "stores): the array list refines a reference sequence for every operation sequence and item size, never touches "
          "memory outside its block, static storage never grows, overflowing indices fail without change; the linked list "
          "operations realise the list operations under well-linkedness, backward walk mirrors forward walk, a removed node "
          "is detached. calc_necessary_size, the growth rule and the swap slice arithmetic are additionally regenerated from "
          "array_list.c on every run (gen/arraylist_gen.py) and proved equal to the model's (c09_gen_*). Tied to /repo by a correspondence run of the compiled models against the real API (ASan/UBSan, "
          "canaries around static storage) plus a Python reference oracle and small-scope exhaustive enumeration."),
    note=("Trusted: Lean kernel; hand-written models (tied by correspondence only); harness; libc qsort (sort is modelled as "
          "the sorted permutation). All seven planned theorems are proved in full (NOT_PROVED is empty); theorems hold under "
          "the API preconditions (PreAll / WellLinked), which harness and driver enforce by printing `skip`."),
    technique="Lean 4 refinement proof (byte-level / pointer-level model) + model/implementation differential run + reference oracle",
)
