"""C04 — decoders and parsers are total and memory-safe on arbitrary input.

Implementation side (stage 1, no model stream): harness/parsers.c feeds arbitrary bytes to EVERY decoder
(xml, json, cbor decode-all, cbor consume-whole-item, uri, query iteration, percent-decoding, date-time in
all four formats, base64 (AVX2-dispatching and portable build), hex, utf-8 one-shot and chunked, uuid,
ipv4, ipv6, u64 dec/hex) under ASan+UBSan with exact-size input blocks, NULL/0 views, canary-filled
exact-size outputs, view-range checks, an error-channel check and a per-op watchdog.  The direct oracle
below reads only the implementation's lines.

Model side (stage 2, extra_stages): the hand-written checked-memory Lean models of source/host_utils.c (is_ipv6, is_ipv4),
source/uuid.c (init_from_str, to_str) and percent-decoding (aws_byte_buf_append_decoding_uri + aws_byte_cursor_read_hex_u8) are run
against the same harness on `p ipv6 / ipv4 / uuid / uuidstr / uridec` ops.  Generated layer (regen): Gen/C04Consts.lean (guards, offsets
and lengths cut out of the current source) and Gen/CborConsts.lean (claim table of cbor_stream_decode), with bridge theorems."""
import base64, os, struct, sys, time
from lib.core import Case
from lib import cbuild, core

ID = "C04"
LEAN_MODULES = ["AwsVerif.Props.C04"]
COMPONENT = None            # stage 1 has no model stream (set to "hostutils" only inside extra_stages)
NEEDS_DRIVER = True         # ... but stage 2 needs the compiled driver
P_DIFF_CONCRETE = False     # a verdict difference model/impl is a broken tie, not by itself a C04 violation
HARNESS = dict(
    name="parsers", flavour="asan",
    # source/encoding.c a second time, without USE_SIMD_ENCODING, public symbols prefixed pt_
    extra_srcs=[(os.path.join(cbuild.REPO, "source", "encoding.c"),
                 ["-include", os.path.join(cbuild.VERIF, "harness", "parsers_pt_rename.h")], "encoding_portable")],
)
TIMEOUT = 900
TRUSTED = ["hand models lean/AwsVerif/Model/{HostUtils,Uuid,PercentDecode,Scanf}.lean (is_ipv6, is_ipv4, uuid from_str/to_str, percent-decoding; "
           "tied by the stage-2 correspondence run and by the bridge theorems c04_gen_* to constants regenerated from the source)",
           "gen/c04_gen.py (textual extraction of guards / offsets / lengths) and gen/cbor_gen.py (claim table of cbor_stream_decode)",
           "glibc 2.36 semantics of sscanf %02hhx / %03hu / %1s as transcribed in Model/Scanf.lean (confirmed by the correspondence run only)",
           "harness/parsers.c monitors (view ranges, error channel, canaries, watchdog); gcc ASan/UBSan red zones",
           "cJSON and the AVX2 base64 codec have no model, and sscanf itself is modelled only as a function of the local NUL-terminated copy "
           "(what it reads inside libc is not observable: ASan does not see an over-read of the 16/37-byte stack copies): "
           "for them C04 is decided by sanitizer-monitored execution alone"]
ASSUMPTIONS = ["memchr/memcpy/memcmp/sscanf/strtol/timegm/mktime have their ISO C meaning and stay inside the objects they are given",
               "UBSan's 'null pointer passed as argument' on memchr/memcpy(NULL, ., 0) for the NULL/0 view is recorded, not counted as a violation"]
RULE = ("inputs for 16 parser entry points, three streams each (grammar-derived valid documents / structured mutations / uniform random bytes), "
        "sizes 0..4096 with a 1% tail to 64 KiB, batched 150 inputs per case (every case is non-trivial: it holds inputs of all three streams); "
        "distinct by op-file hash")
NOT_PROVED = []

def regen(ctx):
    """generated layer: Gen/C04Consts.lean (guards / offsets / lengths of read_hex_u8, uuid.c, host_utils.c cut out of the current
    source by gen/c04_gen.py) and Gen/CborConsts.lean (claim_bytes' test and the per-initial-byte claim table of
    cbor_stream_decode, gen/cbor_gen.py, shared with C10); the Props this file re-states (C01, C05, C12, C13) are re-proved against
    their own regenerated layers as well, so an edit that breaks one of them breaks C04's theorem list"""
    from gen import c04_gen
    try:
        txt, _ = c04_gen.generate(cbuild.REPO)
    except c04_gen.GenError as e:
        raise core.GenError(str(e))
    core.write_if_changed(os.path.join(core.LEAN, "AwsVerif", "Gen", "C04Consts.lean"), txt)
    import importlib
    for name in ("c10", "c13", "c01", "c05", "c12"):
        m = importlib.import_module("props." + name)
        if hasattr(m, "regen"):
            m.regen(ctx)


PARSERS = ["xml", "json", "cbor", "cbor_consume", "uri", "query", "uridec", "date", "b64", "b64p", "hex", "utf8",
           "uuid", "uuidstr", "ipv4", "ipv6", "u64"]
# relative share of the inputs
WEIGHT = {"xml": 14, "json": 7, "cbor": 8, "cbor_consume": 8, "uri": 9, "query": 5, "uridec": 5, "date": 8, "b64": 6,
          "b64p": 4, "hex": 4, "utf8": 6, "uuid": 4, "uuidstr": 1, "ipv4": 4, "ipv6": 5, "u64": 3}
QUICK_TOTAL = 150000
THOROUGH_TOTAL = 3200000
THOROUGH_ROUND = 200000
BATCH = 150

F6_DEPTH = 10000


# ------------------------------------------------------------------------------------------------ sizes
BOUNDARY_SIZES = [0, 1, 2, 3, 4, 5, 7, 8, 15, 16, 17, 31, 32, 33, 35, 36, 37, 39, 40, 63, 64, 65, 99, 100, 101, 127, 128, 129,
                  255, 256, 257, 258, 259, 260, 511, 512, 1023, 1024, 4095, 4096, 4097]


def pick_size(rng):
    r = rng.random()
    if r < 0.10:
        return rng.choice(BOUNDARY_SIZES)
    if r < 0.62:
        return rng.randint(0, 64)
    if r < 0.88:
        return rng.randint(65, 512)
    if r < 0.99:
        return rng.randint(513, 4096)
    return rng.randint(4097, 65536)


def hx(b):
    return b.hex() if b else "-"


# ------------------------------------------------------------------------------------------------ grammar generators
NAMES = [b"a", b"ab", b"abc", b"a1", b"b", b"Node", b"x", b"item", b"ns:tag", b"A", b"a-b", b"a.b"]


def _name(rng):
    r = rng.random()
    if r < 0.8:
        return rng.choice(NAMES)
    if r < 0.9:
        return bytes(rng.choice(b"abcxyzABC019_") for _ in range(rng.randint(1, 12)))
    return b"n" * rng.choice([200, 253, 254, 255, 256, 257, 258, 300])


def _text(rng, n, allow_gt=True):
    alpha = b"abc xyz012\n\t&;.,'\"=/?!-" + (b">" if allow_gt else b"")
    return bytes(rng.choice(alpha) for _ in range(n))


def gen_xml_node(rng, budget, depth, maxdepth):
    name = _name(rng)
    attrs = b""
    for _ in range(rng.choice([0, 0, 0, 1, 2, 3, 9, 10, 11]) if rng.random() < 0.4 else 0):
        q = rng.choice([b'"', b'"', b"'", b""])
        attrs += b" " + _name(rng) + b"=" + q + _text(rng, rng.randint(0, 6), False).replace(b" ", b"_").replace(b"\n", b"_").replace(b"\t", b"_") + q
    if rng.random() < 0.15 or budget <= 0:
        return b"<" + name + attrs + (b" " if rng.random() < 0.3 else b"") + b"/>"
    body = b""
    if depth < maxdepth and rng.random() < 0.7:
        kids = rng.randint(1, 4)
        for _ in range(kids):
            if rng.random() < 0.3:
                body += _text(rng, rng.randint(0, 8))
            body += gen_xml_node(rng, budget // kids - 8, depth + 1, maxdepth)
    else:
        body = _text(rng, rng.randint(0, max(0, min(budget, 40))))
    if rng.random() < 0.1:
        body += b" " * rng.randint(1, 3)
    return b"<" + name + attrs + b">" + body + b"</" + name + b">"


def gen_xml(rng, size):
    pre = b""
    if rng.random() < 0.5:
        pre += b'<?xml version="1.0" encoding="UTF-8"?>'
    if rng.random() < 0.2:
        pre += b"\n<!DOCTYPE note>"
    if rng.random() < 0.2:
        pre += b"\n<!-- c -->"
    if rng.random() < 0.3:
        pre = _text(rng, rng.randint(1, 5), False).replace(b"<", b"") + pre
    md = rng.choice([1, 2, 3, 5, 8, 19, 20, 21, 25]) if rng.random() < 0.5 else 4
    doc = pre + gen_xml_node(rng, size, 1, md)
    if rng.random() < 0.1:
        doc += gen_xml_node(rng, 10, 1, 2)
    return doc


class _XStat:
    def __init__(self):
        self.acts, self.nodes, self.bodies, self.bodylen = [], 0, 0, 0


def _strict_node(rng, depth, visited, st):
    """a well-formed element and, when the traversal reaches it, the action of its callback; returns the bytes"""
    name = rng.choice([b"a", b"ab", b"abc", b"b", b"Node", b"x1", b"a"])
    attrs = b"".join(b' %s="%s"' % (rng.choice([b"k", b"id", b"x"]), bytes(rng.choice(b"abc012") for _ in range(rng.randint(0, 4))))
                     for _ in range(rng.choice([0, 0, 1, 2, 8])))
    r = rng.random()
    if r < 0.2:
        # an empty element: its name is never the name of an enclosing element — the closing-tag search of the current
        # parser counts `<a/>` inside `<a>` as a nested opening tag (observed on the unchanged tree: `<a><a/></a>` read as
        # body or skipped gives AWS_ERROR_INVALID_XML; C12's business, not a C04 clause)
        name = rng.choice([b"e", b"br", b"nil"])
        if visited:
            st.nodes += 1
            act = rng.choice("sb")
            st.acts.append(act)
            st.bodies += act == "b"
        return b"<" + name + attrs + rng.choice([b"/>", b" />"])
    act = None
    if visited:
        st.nodes += 1
        act = rng.choice("dddbs")
        st.acts.append(act)
    inner = b""
    if r < 0.55 or depth >= 6:
        inner = bytes(rng.choice(b"abc xyz012>&;=/\"'\n") for _ in range(rng.randint(0, 12)))
    else:
        for _ in range(rng.randint(1, 4)):
            if rng.random() < 0.3:
                inner += bytes(rng.choice(b"abc >\n") for _ in range(rng.randint(0, 5)))
            inner += _strict_node(rng, depth + 1, visited and act == "d", st)
        if rng.random() < 0.3:
            inner += b"\n"
    if act == "b":
        st.bodies += 1
        st.bodylen += len(inner)
    return b"<" + name + attrs + b">" + inner + b"</" + name + b">"


def gen_xml_strict(rng):
    """(document, ' prog=.. expect=nodes,bodies,bodylen'): a document inside the parser's documented limits together with a
    callback program that only asks for what the API allows (no descend into an empty element); the outcome is then determined"""
    st = _XStat()
    pre = rng.choice([b"", b"", b'<?xml version="1.0" encoding="UTF-8"?>', b'<?xml version="1.0"?>\n<!DOCTYPE d>\n', b"\n "])
    doc = pre + _strict_node(rng, 1, True, st) + rng.choice([b"", b"", b"\n"])
    return doc, " prog=%s expect=%d,%d,%d" % ("".join(st.acts), st.nodes, st.bodies, st.bodylen)


def xml_opts(rng):
    n = rng.randint(1, 12)
    prog = "".join(rng.choices("dbsa", weights=[55, 22, 18, 5], k=n))
    if rng.random() < 0.25:
        prog = rng.choice(["d", "b", "s", "db", "ddb", "dddddddddddddddddddddddddb"])
    o = " prog=" + prog
    if rng.random() < 0.3:
        o += " depth=" + str(rng.choice([1, 2, 3, 5, 19, 20, 21, 64, 1000]))
    return o


def gen_json_value(rng, budget, depth):
    r = rng.random()
    if budget <= 2 or depth > 40:
        r = r * 0.5
    if r < 0.12:
        return rng.choice([b"true", b"false", b"null"])
    if r < 0.30:
        k = rng.random()
        if k < 0.5:
            return str(rng.randint(-10 ** rng.randint(0, 19), 10 ** rng.randint(0, 22))).encode()
        if k < 0.8:
            return ("%s%d.%de%s%d" % (rng.choice(["", "-"]), rng.randint(0, 999), rng.randint(0, 99999), rng.choice(["", "+", "-"]), rng.randint(0, 400))).encode()
        return b"1" * rng.choice([1, 17, 40, 400]) + b"." + b"9" * rng.choice([1, 20, 400])
    if r < 0.5:
        return gen_json_string(rng, min(budget, 30))
    ws = rng.choice([b"", b"", b" ", b"\n ", b"\t"])
    if r < 0.75:
        n = rng.randint(0, 5)
        return b"[" + ws + (b"," + ws).join(gen_json_value(rng, budget // (n + 1), depth + 1) for _ in range(n)) + ws + b"]"
    n = rng.randint(0, 5)
    return b"{" + ws + (b"," + ws).join(gen_json_string(rng, 6) + ws + b":" + ws + gen_json_value(rng, budget // (n + 1), depth + 1) for _ in range(n)) + ws + b"}"


def gen_json_string(rng, n):
    if rng.random() < 0.04:
        # a run of control characters: each prints as \uXXXX (6 bytes), so the printer's size estimate is exercised right
        # at the 256 / 512 / 1024-byte boundaries of its growing buffer
        k = rng.choice([rng.randint(36, 56), rng.randint(80, 110), rng.randint(165, 215), rng.randint(1, 30)])
        return b'"' + b"".join(b"\\u%04x" % rng.choice([1, 2, 0x0b, 0x1f, 0x10]) for _ in range(k)) + b'"'
    out = b'"'
    for _ in range(rng.randint(0, max(0, n))):
        r = rng.random()
        if r < 0.7:
            out += bytes([rng.choice(b"abcXYZ 019_-/")])
        elif r < 0.8:
            out += rng.choice([b"\\n", b"\\t", b'\\"', b"\\\\", b"\\/", b"\\b", b"\\f", b"\\r"])
        elif r < 0.9:
            out += b"\\u%04x" % rng.choice([0, 1, 0x1f, 0x41, 0x7f, 0x80, 0x7ff, 0x800, 0xffff, 0xd800, 0xdbff, 0xdc00, 0xdfff, rng.randint(0, 0xffff)])
        elif r < 0.95:
            out += b"\\ud83d\\ude00"
        else:
            out += "é€😀".encode()
    return out + b'"'


def gen_json(rng, size):
    if rng.random() < 0.03:
        return gen_json_string(rng, 0) if rng.random() < 0.5 else b"[" + b",".join(gen_json_string(rng, 3) for _ in range(rng.randint(1, 4))) + b"]"
    return gen_json_value(rng, max(size, 4), 0)


def cbor_head(major, val, rng=None, minimal=True):
    if val < 24 and (minimal or rng is None or rng.random() < 0.7):
        return bytes([major << 5 | val])
    widths = [(24, 1, 0xff), (25, 2, 0xffff), (26, 4, 0xffffffff), (27, 8, 0xffffffffffffffff)]
    ok = [w for w in widths if val <= w[2]]
    w = ok[0] if minimal or rng is None else rng.choice(ok)
    return bytes([major << 5 | w[0]]) + val.to_bytes(w[1], "big")


def gen_cbor_item(rng, budget, depth, maxdepth):
    r = rng.random()
    if budget <= 1 or depth >= maxdepth:
        r *= 0.55
    ival = lambda: rng.choice([0, 1, 23, 24, 255, 256, 65535, 65536, 2 ** 32 - 1, 2 ** 32, 2 ** 64 - 1, rng.randint(0, 2 ** 64 - 1), rng.randint(0, 30)])
    if r < 0.12:
        return cbor_head(0, ival(), rng, False)
    if r < 0.2:
        return cbor_head(1, ival(), rng, False)
    if r < 0.32:
        n = rng.randint(0, min(24, max(0, budget)))
        return cbor_head(2, n, rng, False) + rng.randbytes(n)
    if r < 0.44:
        n = rng.randint(0, min(24, max(0, budget)))
        return cbor_head(3, n, rng, False) + bytes(rng.choice(b"abcxyz 01") for _ in range(n))
    if r < 0.50:
        return rng.choice([b"\xf4", b"\xf5", b"\xf6", b"\xf7"])
    if r < 0.55:
        k = rng.random()
        if k < 0.3:
            return b"\xf9" + rng.randbytes(2)
        if k < 0.6:
            return b"\xfa" + rng.randbytes(4)
        return b"\xfb" + rng.randbytes(8)
    if r < 0.68:
        n = rng.randint(0, 4)
        return cbor_head(4, n, rng, False) + b"".join(gen_cbor_item(rng, budget // (n + 1), depth + 1, maxdepth) for _ in range(n))
    if r < 0.78:
        n = rng.randint(0, 3)
        return cbor_head(5, n, rng, False) + b"".join(gen_cbor_item(rng, budget // (2 * n + 1), depth + 1, maxdepth) for _ in range(2 * n))
    if r < 0.86:
        return cbor_head(6, rng.choice([0, 1, 2, 3, 4, 5, 24, 55799, 2 ** 64 - 1]), rng, False) + gen_cbor_item(rng, budget - 1, depth + 1, maxdepth)
    if r < 0.92:
        n = rng.randint(0, 4)
        return b"\x9f" + b"".join(gen_cbor_item(rng, budget // (n + 1), depth + 1, maxdepth) for _ in range(n)) + b"\xff"
    if r < 0.96:
        n = rng.randint(0, 3)
        return b"\xbf" + b"".join(gen_cbor_item(rng, budget // (2 * n + 1), depth + 1, maxdepth) for _ in range(2 * n)) + b"\xff"
    major = rng.choice([2, 3])
    n = rng.randint(0, 3)
    chunks = b""
    for _ in range(n):
        k = rng.randint(0, 5)
        chunks += cbor_head(major, k) + bytes(rng.choice(b"abc") for _ in range(k))
    return bytes([major << 5 | 31]) + chunks + b"\xff"


def gen_cbor(rng, size):
    out = b""
    n = rng.randint(1, 4)
    for _ in range(n):
        out += gen_cbor_item(rng, max(2, size // n), 0, rng.choice([2, 4, 8, 16]))
    return out


NEST_HEADS = [b"\x81", b"\x9f", b"\xc0", b"\xa1\x00", b"\xbf\x00", b"\xd8\x18", b"\x82\x00", b"\x98\x01", b"\xc6", b"\xdb\x00\x00\x00\x00\x00\x00\x00\x01"]


def gen_cbor_deep(rng):
    """nesting depth up to 512, well-formed (every opened indefinite container is closed)"""
    d = rng.choice([1, 2, 19, 20, 21, 63, 64, 100, 255, 256, 257, 500, 511, 512, rng.randint(1, 512)])
    head = rng.choice(NEST_HEADS)
    tail = b"\x00"
    if head[0] in (0x9f, 0xbf):
        tail = b"\x00" + b"\xff" * d
    if head == b"\x82\x00":
        head = b"\x82"  # [x, 0] nested in the first slot
        tail = b"\x00" + b"\x00" * d
    return head * d + tail


def _pct(rng, n):
    out = b""
    for _ in range(n):
        r = rng.random()
        if r < 0.7:
            out += bytes([rng.choice(b"abcXYZ019-._~")])
        elif r < 0.9:
            out += b"%%%02X" % rng.randint(0, 255) if rng.random() < 0.5 else b"%%%02x" % rng.randint(0, 255)
        else:
            out += rng.choice([b"+", b"!", b"$", b"'", b"(", b")", b"*", b",", b";"])
    return out


def gen_ipv4(rng):
    return b".".join(str(rng.choice([0, 1, 9, 10, 99, 100, 127, 199, 200, 249, 250, 255, rng.randint(0, 255)])).encode() for _ in range(4))


def gen_ipv6_addr(rng):
    grp = lambda: ("%x" % rng.choice([0, 1, 0xf, 0x10, 0xff, 0xfff, 0xffff, rng.randint(0, 0xffff)])).encode() if rng.random() < 0.8 else b"%04X" % rng.randint(0, 0xffff)
    r = rng.random()
    if r < 0.4:
        return b":".join(grp() for _ in range(8))
    k = rng.randint(0, 7)
    left = rng.randint(0, k)
    return b":".join(grp() for _ in range(left)) + b"::" + b":".join(grp() for _ in range(k - left))


def gen_ipv6(rng):
    a = gen_ipv6_addr(rng)
    r = rng.random()
    zone = bytes(rng.choice(b"eth0wlan1AZ9") for _ in range(rng.randint(1, 6)))
    if r < 0.5:
        return a
    if r < 0.75:
        return a + b"%" + zone
    return a + b"%25" + zone


AT_ENDINGS = [b"http://user@", b"u@", b"@", b"http://u:p@", b"http://@", b"//@", b"a://b@", b"http://user:@", b"http://:@",
              b"s3://a@b@", b"http://user@[", b"http://user@?", b"http://user@/", b"http://user@:", b"http://user@:80", b"x@[]",
              b"http://[::1]@", b"@@", b"http://a%40@", b"u:p@h@"]


def gen_uri(rng, size):
    if rng.random() < 0.06:
        # authority text that ends right after '@' (or right after the userinfo): exact-size view, nothing behind it
        e = rng.choice(AT_ENDINGS)
        return e if rng.random() < 0.7 else gen_uri(rng, size // 2 + 8)[:rng.randint(0, 12)].replace(b"/", b"") + b"@"
    out = b""
    if rng.random() < 0.8:
        out += rng.choice([b"http", b"https", b"s3", b"ws", b"a+b.c-d", b"file"]) + b"://"
    if rng.random() < 0.25:
        out += _pct(rng, rng.randint(0, 6))
        if rng.random() < 0.6:
            out += b":" + _pct(rng, rng.randint(0, 6))
        out += b"@"
    r = rng.random()
    if r < 0.55:
        out += b".".join(bytes(rng.choice(b"abcxyz019-") for _ in range(rng.randint(1, 8))) for _ in range(rng.randint(1, 4)))
    elif r < 0.7:
        out += gen_ipv4(rng)
    elif r < 0.95:
        out += b"[" + gen_ipv6(rng) + b"]"
    if rng.random() < 0.4:
        out += b":" + str(rng.choice([0, 1, 80, 443, 8080, 65535, 65536, 2 ** 32 - 1, 2 ** 32, 2 ** 64 - 1, 2 ** 64, rng.randint(0, 99999)])).encode()
    if rng.random() < 0.8:
        for _ in range(rng.randint(1, 5)):
            out += b"/" + _pct(rng, rng.randint(0, max(1, min(12, size // 8))))
    if rng.random() < 0.6:
        out += b"?" + gen_query(rng, size // 2)
    return out


def gen_query(rng, size):
    parts = []
    for _ in range(rng.randint(0, max(1, min(30, size // 6 + 1)))):
        r = rng.random()
        k = _pct(rng, rng.randint(0, 8))
        if r < 0.7:
            parts.append(k + b"=" + _pct(rng, rng.randint(0, 10)))
        elif r < 0.85:
            parts.append(k)
        elif r < 0.92:
            parts.append(b"")
        else:
            parts.append(k + b"=" + _pct(rng, 2) + b"=" + _pct(rng, 2))
    return b"&".join(parts)


PCT_TAILS = [b"%", b"%4", b"%A", b"%f", b"%0", b"%%", b"%4g", b"%g4", b"%41", b"%zz", b"%\0", b"%4\0"]


def gen_uridec(rng, size):
    body = _pct(rng, min(size, 600))
    if rng.random() < 0.3:
        # the text ENDS in '%', '%X' or '%XY': the view is an exact-size heap block, so a decoder that looks for the
        # second hex digit of a truncated escape reads the red zone
        body = body[:rng.choice([0, 0, 1, 2, len(body)])] + rng.choice(PCT_TAILS)
    return body


def gen_uuidstr(rng, size):
    return rng.randbytes(rng.choice([16, 16, 16, 16, 0, 1, 15, 17, 40]))


WD = [b"Mon", b"Tue", b"Wed", b"Thu", b"Fri", b"Sat", b"Sun"]
MON = [b"Jan", b"Feb", b"Mar", b"Apr", b"May", b"Jun", b"Jul", b"Aug", b"Sep", b"Oct", b"Nov", b"Dec"]
TZS = [b"GMT", b"UT", b"UTC", b"Z", b"+0000", b"-0000", b"+0100", b"-0830", b"+1400", b"-1200", b"EST", b"gmt", b"+9999"]


def gen_date(rng, size):
    Y = rng.choice([1970, 1969, 2000, 2038, 2100, 9999, 1, 0, 1900, 1601, rng.randint(0, 9999)])
    M = rng.choice([1, 2, 12, rng.randint(1, 12)])
    D = rng.choice([1, 28, 29, 30, 31, rng.randint(1, 31)])
    h, m, s = rng.choice([0, 23, rng.randint(0, 23)]), rng.choice([0, 59, rng.randint(0, 59)]), rng.choice([0, 59, 60, rng.randint(0, 59)])
    r = rng.random()
    if r < 0.4:
        out = b""
        if rng.random() < 0.8:
            out += rng.choice(WD) + b", "
        yy = b"%04d" % Y if rng.random() < 0.85 else b"%02d" % (Y % 100)
        out += b"%02d %s %s %02d:%02d:%02d" % (D, rng.choice([MON[M - 1], MON[M - 1].upper(), MON[M - 1].lower()] * 4 + [MON[M - 1][:1], MON[M - 1][:2], MON[M - 1] + b"e", b"September", b"", b"J", b"Ja"]), yy, h, m, s)
        if rng.random() < 0.9:
            out += b" " + rng.choice(TZS)
        return out
    if r < 0.75:
        out = b"%04d-%02d-%02d" % (Y, M, D)
        if rng.random() < 0.15:
            return out
        out += rng.choice([b"T", b"t", b" "]) + b"%02d:%02d:%02d" % (h, m, s)
        if rng.random() < 0.4:
            out += rng.choice([b".", b","]) + b"%d" % rng.randint(0, 10 ** rng.randint(1, 12))
        out += rng.choice([b"Z", b"z", b"+00:00", b"-08:00", b"+0530", b"+14:00", b"-99:99"])
        return out
    out = b"%04d%02d%02d" % (Y, M, D)
    if rng.random() < 0.15:
        return out
    out += rng.choice([b"T", b"t"]) + b"%02d%02d%02d" % (h, m, s)
    if rng.random() < 0.3:
        out += b".%d" % rng.randint(0, 999999)
    return out + rng.choice([b"Z", b"z", b"+0000", b"-0800"])


def gen_date_strict(rng):
    """(text, ' expect_date=<rfc|iso>,<unix time>'): canonical RFC 822 / ISO 8601 texts with an explicit UTC designator or numeric
    offset, inside 1970..2037, so that the verdict, the utc flag and the timestamp are determined"""
    import calendar
    Y, M, D = rng.randint(1970, 2037), rng.randint(1, 12), rng.randint(1, 28)
    h, m, sec = rng.randint(0, 23), rng.randint(0, 59), rng.randint(0, 59)
    ts = calendar.timegm((Y, M, D, h, m, sec, 0, 0, 0))
    oh, om, sign = rng.randint(0, 13), rng.choice([0, 30, 45]), rng.choice([1, -1])
    off = sign * (oh * 3600 + om * 60)
    if rng.random() < 0.5:
        # always with the weekday: without it the current reader drops the first day digit ("11 Mar 2000 ..." is read as
        # day 1; DESIGN.md section 7, O1 — no property covers it, so it is kept out of the expected-value stream)
        wd = WD[calendar.weekday(Y, M, D)] + b", "
        if rng.random() < 0.6:
            tz, o = rng.choice([b"GMT", b"UT", b"UTC", b"Z", b"gmt"]), 0
        else:
            tz, o = b"%s%02d%02d" % (b"+" if sign > 0 else b"-", oh, om), off
        txt = wd + b"%02d %s %04d %02d:%02d:%02d %s" % (D, MON[M - 1], Y, h, m, sec, tz)
        return txt, " expect_date=rfc,%d" % (ts - o)
    basic = rng.random() < 0.4
    d = (b"%04d%02d%02d" if basic else b"%04d-%02d-%02d") % (Y, M, D)
    if rng.random() < 0.15:
        return d, " expect_date=iso,%d" % calendar.timegm((Y, M, D, 0, 0, 0, 0, 0, 0))
    t = (b"%02d%02d%02d" if basic else b"%02d:%02d:%02d") % (h, m, sec)
    frac = rng.choice([b"", b"", b".5", b",123456", b".000"])
    if rng.random() < 0.5:
        z, o = rng.choice([b"Z", b"z"]), 0
    else:
        z, o = (b"%s%02d%02d" if rng.random() < 0.5 else b"%s%02d:%02d") % (b"+" if sign > 0 else b"-", oh, om), off
    return d + rng.choice([b"T", b"t", b" "]) + t + frac + z, " expect_date=iso,%d" % (ts - o)


def gen_b64(rng, size):
    raw = rng.randbytes((size * 3) // 4)
    enc = bytearray(base64.b64encode(raw))
    if enc and rng.random() < 0.2:
        # padding characters in every position of the last quantum (and now and then elsewhere), non-zero trailing bits
        i = len(enc) - 1 - rng.randrange(min(4, len(enc))) if rng.random() < 0.8 else rng.randrange(len(enc))
        enc[i] = rng.choice(b"==A/+B") if rng.random() < 0.8 else rng.choice(b"\0 -_")
    return bytes(enc)


def gen_hex(rng, size):
    h = rng.randbytes(size // 2).hex()
    r = rng.random()
    if r < 0.3:
        h = h.upper()
    elif r < 0.5:
        h = "".join(c.upper() if rng.random() < 0.5 else c for c in h)
    if rng.random() < 0.3 and h:
        h = h[1:]
    return h.encode()


CP_EDGES = [0, 1, 0x7f, 0x80, 0x7ff, 0x800, 0xd7ff, 0xe000, 0xfffd, 0xffff, 0x10000, 0x10ffff]


def gen_utf8(rng, size):
    out = bytearray()
    while len(out) < size:
        r = rng.random()
        if r < 0.5:
            cp = rng.randint(0, 0x7f)
        elif r < 0.65:
            cp = rng.choice(CP_EDGES)
        elif r < 0.8:
            cp = rng.randint(0x80, 0x7ff)
        elif r < 0.92:
            cp = rng.randint(0x800, 0xffff)
            if 0xd800 <= cp <= 0xdfff:
                cp = 0xe000
        else:
            cp = rng.randint(0x10000, 0x10ffff)
        out += chr(cp).encode("utf-8", "surrogatepass")
    return bytes(out)


def gen_uuid(rng, size):
    h = rng.randbytes(16).hex()
    if rng.random() < 0.3:
        h = h.upper()
    s = "%s-%s-%s-%s-%s" % (h[:8], h[8:12], h[12:16], h[16:20], h[20:])
    if rng.random() < 0.2:
        s += rng.choice(["", "x", " ", "-0000", "\0", "0" * 30])
    return s.encode()


def gen_u64(rng, size):
    r = rng.random()
    if r < 0.35:
        v = rng.choice([0, 1, 9, 10, 2 ** 32, 2 ** 63, 2 ** 64 - 1, 2 ** 64, 2 ** 64 + 1, 10 ** 19, 10 ** 20 - 1, 18446744073709551609, 18446744073709551619, rng.randint(0, 2 ** 65)])
        s = str(v)
    elif r < 0.7:
        v = rng.choice([0, 0xf, 0x10, 2 ** 64 - 1, 2 ** 64, 2 ** 60, rng.randint(0, 2 ** 66)])
        s = ("%x" if rng.random() < 0.5 else "%X") % v
    else:
        s = "".join(rng.choice("0123456789") for _ in range(rng.choice([1, 18, 19, 20, 21, 40])))
    if rng.random() < 0.2:
        s = "0" * rng.choice([1, 5, 30, 300]) + s
    return s.encode()


GEN = {
    "xml": gen_xml, "json": gen_json, "cbor": gen_cbor, "cbor_consume": gen_cbor, "uri": gen_uri, "query": gen_query,
    "uridec": gen_uridec, "date": gen_date, "b64": gen_b64, "b64p": gen_b64, "hex": gen_hex, "utf8": gen_utf8,
    "uuid": gen_uuid, "uuidstr": gen_uuidstr, "ipv4": lambda rng, size: gen_ipv4(rng), "ipv6": lambda rng, size: gen_ipv6(rng), "u64": gen_u64,
}
DELIMS = {
    "xml": b"<>/=\"' ?!", "json": b"{}[]:,\"\\", "uri": b":/?#@[]&=%", "query": b"&=%", "uridec": b"%", "date": b" ,:-+TZ.",
    "b64": b"=+/", "b64p": b"=+/", "uuid": b"-", "ipv4": b".", "ipv6": b":%", "hex": b"", "utf8": b"\x80\xc0\xe0\xf0\xf8\xbf",
    "u64": b"", "cbor": b"\x81\x9f\xbf\xff\x5f\x7f\xa1\xc0\x98\x1b\x5b", "cbor_consume": b"\x81\x9f\xbf\xff\x5f\x7f\xa1\xc0\x98\x1b\x5b",
}
STRAY = b"<>&%=:[]\""
# the small fixed-format parsers: sizes concentrate around their length limits
SMALL = {"date": 100, "uuid": 36, "ipv4": 15, "ipv6": 39, "u64": 20}


# ------------------------------------------------------------------------------------------------ mutations
def mutate(rng, parser, doc):
    b = bytearray(doc)
    delims = DELIMS.get(parser, b"")
    for _ in range(rng.choice([1, 1, 1, 2, 2, 3])):
        n = len(b)
        k = rng.randint(0, 17)
        dpos = [i for i in range(n) if b[i] in delims] if delims and k in (1, 2, 3) and n <= 8192 else []
        if k == 0 and n:                      # truncate
            del b[rng.randint(0, n - 1):]
        elif k == 1 and dpos:                 # duplicate a delimiter
            i = rng.choice(dpos); b[i:i] = bytes([b[i]]) * rng.choice([1, 1, 2, 5])
        elif k == 2 and dpos:                 # drop a delimiter
            del b[rng.choice(dpos)]
        elif k == 3 and len(dpos) >= 2:       # reorder two delimiters
            i, j = rng.sample(dpos, 2); b[i], b[j] = b[j], b[i]
        elif k == 4:                          # stray special character
            i = rng.randint(0, n); b[i:i] = bytes([rng.choice(STRAY)])
        elif k == 5:                          # NUL
            i = rng.randint(0, n); b[i:i] = b"\0" * rng.choice([1, 1, 2])
        elif k == 6:                          # huge digit string
            i = rng.randint(0, n); b[i:i] = bytes([rng.choice(b"0123456789")]) * rng.choice([20, 21, 40, 100, 400])
        elif k == 7:                          # '%' at the end / '%zz' / '%4'
            b += rng.choice([b"%", b"%4", b"%zz", b"%%", b"%2"])
        elif k == 8:
            i = rng.randint(0, n); b[i:i] = rng.choice([b"%zz", b"%", b"%0g", b"%g0", b"%\0\0"])
        elif k == 9 and n:                    # over-long name: stretch an alphanumeric run
            i = rng.randint(0, n - 1)
            b[i:i] = bytes([b[i] if chr(b[i]).isalnum() else 0x61]) * rng.choice([250, 253, 254, 255, 256, 257, 258, 259, 260, 300, 1000])
        elif k == 10:                         # deep nesting: wrap
            d = rng.choice([19, 20, 21, 22, 64, 300, 999, 1000, 1001, 2000] + ([30000] if parser == "json" else [])) if parser in ("xml", "json") else rng.choice([20, 64, 300, 512])
            if parser == "xml":
                nm = rng.choice([b"a", b"w", b"ab"]); sib = rng.choice([b"", b"", b"<e/>", b"<s></s>"]); b = bytearray((b"<" + nm + b">" + sib) * d + bytes(b) + (b"</" + nm + b">") * rng.choice([d, d, d - 1, 0]))
            elif parser == "json":
                o, c = rng.choice([(b"[", b"]"), (b'{"a":', b"}"), (b"[{},", b"]"), (b"[[],", b"]"), (b'{"a":{},"b":', b"}")]); b = bytearray(o * d + bytes(b) + c * rng.choice([d, d, d - 1, 0]))
            elif parser in ("cbor", "cbor_consume"):
                b = bytearray(rng.choice(NEST_HEADS) * min(d, 512) + bytes(b))
            elif parser == "uri":
                b = bytearray(b"[" * d + bytes(b) + b"]" * d)
            else:
                b = bytearray(bytes(b) * rng.choice([2, 3]))
        elif k == 11 and n:                   # flip a byte
            i = rng.randint(0, n - 1); b[i] = rng.randint(0, 255)
        elif k == 12 and n:                   # flip a bit
            i = rng.randint(0, n - 1); b[i] ^= 1 << rng.randint(0, 7)
        elif k == 13 and n:                   # delete a slice
            i = rng.randint(0, n - 1); del b[i:i + rng.randint(1, max(1, n // 4))]
        elif k == 14 and n:                   # repeat a slice
            i = rng.randint(0, n - 1); j = min(n, i + rng.randint(1, max(1, n // 4))); b[j:j] = b[i:j] * rng.choice([1, 2, 8])
        elif k == 15:                         # splice with another valid document
            other = GEN[parser](rng, 40)
            i = rng.randint(0, n); b[i:i] = other[:rng.randint(0, len(other))]
        elif k == 16:                         # whitespace / sign / 0x prefixes (scanf-style leniencies)
            i = rng.randint(0, n); b[i:i] = rng.choice([b" ", b"\t", b"\n", b"+", b"-", b"0x", b"0X", b" 0x", b"\r\n"])
        elif k == 17 and n:                   # high-bit / non-ASCII byte
            i = rng.randint(0, n - 1); b[i] = rng.choice([0x80, 0xff, 0xc0, 0xfe, 0x7f, 0xe2])
    return bytes(b)


def one_input(rng, parser):
    """returns (stream, bytes)"""
    r = rng.random()
    if parser in SMALL and rng.random() < 0.8:
        lim = SMALL[parser]
        size = rng.choice([0, 1, lim - 1, lim, lim + 1, rng.randint(0, lim + 8)])
    else:
        size = pick_size(rng)
    if r < 0.25:
        return "random", rng.randbytes(size)
    doc = GEN[parser](rng, size)
    if parser in ("cbor", "cbor_consume") and rng.random() < 0.15:
        doc = gen_cbor_deep(rng)
    if r < 0.55:
        return "valid", doc
    m = mutate(rng, parser, doc)
    cap = 200000 if parser == "json" else 70000      # {"a": nested 30000 deep is 150 kB
    if len(m) > cap:
        m = m[:cap]
    return "mutated", m


def opts_for(rng, parser):
    if parser == "xml":
        return xml_opts(rng)
    if parser == "uridec":
        return " pre=%d cap=%d" % (rng.choice([0, 0, 1, 7, 100]), rng.choice([0, 0, 1, 8, 100, 5000]))
    if parser == "uuidstr":
        return " pre=%d slack=%d" % (rng.choice([0, 0, 1, 7]), rng.choice([0, 1, 35, 36, 37, 37, 38, 64]))
    if parser == "utf8":
        return " chunk=%d" % rng.randint(0, 2 ** 32) + (" failat=%d" % rng.randint(1, 20) if rng.random() < 0.1 else "")
    return ""


def _gen_batch(args):
    """worker: one deterministic sub-stream (own PRNG seeded by the parent) -> list of (ops, streams)"""
    import random
    seed, plan = args
    rng = random.Random(seed)
    out = []
    for k in range(0, len(plan), BATCH):
        ops, streams = [], {}
        for p in plan[k:k + BATCH]:
            if p == "date" and rng.random() < 0.15:
                data, o = gen_date_strict(rng)
                ops.append("p date %s%s" % (hx(data), o))
                streams["date/strict"] = streams.get("date/strict", 0) + 1
                continue
            if p == "xml" and rng.random() < 0.15:
                data, o = gen_xml_strict(rng)
                ops.append("p xml %s%s" % (hx(data), o))
                streams["xml/strict"] = streams.get("xml/strict", 0) + 1
                continue
            stream, data = one_input(rng, p)
            ops.append("p %s %s%s" % (p, hx(data), opts_for(rng, p)))
            key = p + "/" + stream
            streams[key] = streams.get(key, 0) + 1
        out.append((ops, streams))
    return out


def gen_inputs(rng, total, workers=16):
    """`total` inputs over all parsers (shares from WEIGHT), batched BATCH ops per case; generated in parallel by
    `workers` processes, each with its own PRNG seeded from `rng` (so the result is a function of VERIF_SEED)"""
    import multiprocessing
    wsum = sum(WEIGHT.values())
    plan = []
    for p in PARSERS:
        plan += [p] * (total * WEIGHT[p] // wsum + 1)
    rng.shuffle(plan)
    per = (len(plan) // workers // BATCH + 1) * BATCH
    jobs = [(rng.getrandbits(64), plan[k:k + per]) for k in range(0, len(plan), per)]
    if workers > 1 and len(jobs) > 1:
        with multiprocessing.get_context("fork").Pool(min(workers, len(jobs))) as pool:
            res = pool.map(_gen_batch, jobs)
    else:
        res = [_gen_batch(j) for j in jobs]
    return [Case(ops, {"streams": streams}) for r in res for (ops, streams) in r]


def cbor_head_cases(rng):
    """every initial byte of cbor_stream_decode x every truncation of its argument / payload (0..9 bytes behind the head, and for
    the string heads the declared length, one less and one more), each as its own exact-size block, through both drivers"""
    cases = []
    for parser in ("cbor", "cbor_consume"):
        ops = []
        for b in range(256):
            tails = [rng.randbytes(t) for t in range(10)]
            ai = b & 31
            if (b >> 5) in (2, 3):       # byte / text strings: payload exactly / one short / one over the declared length
                n = ai if ai < 24 else rng.choice([0, 1, 3])
                lenbytes = b"" if ai < 24 else (n.to_bytes({24: 1, 25: 2, 26: 4, 27: 8}[ai], "big") if ai < 28 else b"")
                tails += [lenbytes + bytes(max(0, n - 1)), lenbytes + bytes(n), lenbytes + bytes(n + 1), lenbytes[:-1]]
            for t in tails:
                ops.append("p %s %s" % (parser, hx(bytes([b]) + t)))
            if len(ops) >= 300:
                cases.append(Case(ops, {"streams": {parser + "/heads": len(ops)}})); ops = []
        if ops:
            cases.append(Case(ops, {"streams": {parser + "/heads": len(ops)}}))
    return cases


PREFIX_DOCS = {"date": 14, "uuid": 4, "ipv4": 6, "ipv6": 6, "u64": 4, "uri": 10, "query": 6, "uridec": 6, "xml": 8, "json": 8, "cbor": 8,
               "cbor_consume": 8, "b64": 4, "b64p": 2, "hex": 2, "utf8": 4}


def prefix_cases(rng):
    """truncation at EVERY prefix: for a few short documents per parser (valid, and mutated ones), every prefix as its own
    exact-size block"""
    cases = []
    for parser, m in PREFIX_DOCS.items():
        ops = []
        for j in range(m):
            doc = b""
            for _ in range(20):
                doc = GEN[parser](rng, rng.choice([8, 24, 48]))
                if 0 < len(doc) <= 160:
                    break
            doc = doc[:160]
            if j % 2:
                doc = mutate(rng, parser, doc)[:160]
            o = opts_for(rng, parser)
            for k in range(len(doc) + 1):
                ops.append("p %s %s%s" % (parser, hx(doc[:k]), o))
        for k in range(0, len(ops), 300):
            cases.append(Case(ops[k:k + 300], {"streams": {parser + "/prefixes": len(ops[k:k + 300])}}))
    return cases


XML_DEPTHS = [0, 1, 2, 19, 20, 21, 50, 1000]
FAR = 250000


def depth_limit_cases(rng):
    """every recursive parser at its nesting limit: limit-1, limit, limit+1, limit+10 and far beyond (250 000 levels), with the
    plain shape and with 'limit evasion' shapes in which siblings (an empty element / {} / []) precede the nested child on every
    level; XML with the default and with non-default max_depth and an all-descending callback program.  The verdict is known:
    XML descends k levels iff k < max_depth (else AWS_ERROR_INVALID_XML), cJSON accepts iff the deepest nesting is <= 1000."""
    ops = []
    hxs = lambda b: hx(b)
    for D in XML_DEPTHS:
        L = D or 20
        for k in sorted({L - 1, L, L + 1, L + 10, 3 * L + 7, FAR}):
            if k < 1:
                continue
            want = "OK" if k < L else "ERR:AWS_ERROR_INVALID_XML"
            dopt = " depth=%d" % D if D else ""
            ops.append("pn xml %d %s - %s prog=d%s expectrc=%s" % (k, hxs(b"<a>"), hxs(b"</a>"), dopt, want))
            ops.append("pn xml %d %s %s %s prog=ds%s expectrc=%s" % (k, hxs(b"<a><b></b>"), hxs(b"x"), hxs(b"</a>"), dopt, want))
            ops.append("pn xml %d %s - %s prog=dss%s expectrc=%s" % (k, hxs(b"<n><e/><f k=\"1\"/>"), hxs(b"</n>"), dopt, want))
    shapes = [(b"[", b"1", b"]", 0), (b"[{},", b"1", b"]", 1), (b"[[],", b"1", b"]", 1), (b'{"a":{},"b":', b"1", b"}", 1),
              (b'{"a":[],"b":[{},', b"{}", b"]}", 1), (b'[1,"x",{},', b"[]", b"]", 1), (b'{"k":', b"{}", b"}", 1)]
    for (o, m, c, extra) in shapes:
        per = o.count(b"[") + o.count(b"{") - o.count(b"]") - o.count(b"}")      # levels opened per repetition
        for k in (998, 999, 1000, 1001, 1500, FAR):
            k2 = max(1, k // per)
            deepest = k2 * per + extra
            ops.append("pn json %d %s %s %s expectrc=%s" % (k2, hxs(o), hxs(m), hxs(c), "OK" if deepest <= 1000 else "NULL"))
    # CBOR consume (F6 is the known finding: only depths far below its threshold here), siblings before the nested child
    for head, tail in ((b"\x82\x00", b"\x00"), (b"\x83\x00\xa0", b"\x00"), (b"\x9f\x00", b"\x00"), (b"\xa2\x00\x00\x01", b"\x00")):
        for k in (1, 64, 512, 4000):
            closes = b"\xff" if head[0] == 0x9f else b""
            ops.append("pn cbor_consume %d %s %s %s" % (k, hxs(head), hxs(tail), hxs(closes) if closes else "-"))
    # the far-beyond documents go into cases of their own: if one of them crashes, the verdicts at the limit are still judged
    far = [o for o in ops if o.split(" ")[2] == str(FAR) or int(o.split(" ")[2]) > 100000]
    near = [o for o in ops if o not in far]
    return ([Case(near[k:k + 60], {"streams": {"depth_limits": len(near[k:k + 60])}}) for k in range(0, len(near), 60)] +
            [Case(far[k:k + 8], {"streams": {"depth_limits_far": len(far[k:k + 8])}}) for k in range(0, len(far), 8)])


def gen_cases(rng, tier):
    # thorough: the first round only; extra_stages runs the remaining rounds (memory: hex text of a round ~ 0.3 GB)
    return depth_limit_cases(rng) + cbor_head_cases(rng) + prefix_cases(rng) + gen_inputs(rng, QUICK_TOTAL if tier == "quick" else THOROUGH_ROUND)


# ------------------------------------------------------------------------------------------------ oracle
def _walk(case, lines):
    """yields (op_index, op, [lines of that op]) using the E markers"""
    k, cur = 0, []
    for l in lines:
        cur.append(l)
        if l.startswith("E "):
            yield k, (case.ops[k] if k < len(case.ops) else "?"), cur
            k, cur = k + 1, []
    if cur:
        yield k, (case.ops[k] if k < len(case.ops) else "?"), cur


def _short(op):
    return op if len(op) <= 300 else op[:200] + "...(%d chars)" % len(op)


def _fnv_kv(data):
    """the framing aws_query_string_next_param must produce: non-empty '&'-separated pieces, each cut at its first '='"""
    h, count, pos = 14695981039346656037, 0, 0
    for seg in data.split(b"&"):
        if seg:
            count += 1
            e = seg.find(b"=")
            t = "%d,%d,%d,%d;" % ((pos, len(seg), pos + len(seg), 0) if e < 0 else (pos, e, pos + e + 1, len(seg) - e - 1))
            for ch in t.encode():
                h = ((h ^ ch) * 1099511628211) & 0xFFFFFFFFFFFFFFFF
        pos += len(seg) + 1
    return count, h


_HEXV = {c: int(chr(c), 16) for c in b"0123456789abcdefABCDEF"}


def _u64_ref(data, base):
    if not data:
        return "ERR AWS_ERROR_INVALID_ARGUMENT"
    v = 0
    for c in data:
        d = _HEXV.get(c, 255)
        if d >= base:
            return "ERR AWS_ERROR_INVALID_ARGUMENT"
        v = v * base + d
        if v >= 1 << 64:
            return "ERR AWS_ERROR_OVERFLOW_DETECTED"
    return "OK v=%d" % v


def _cbor_ref(parser, data):
    """expected 'OK items=N' when the whole input is a sequence of well-formed items without unassigned simple values, else None"""
    from lib import cbor_ref
    if len(data) > 4096 or not data:
        return None
    try:
        els = cbor_ref.elements(data)
        if any(e.kind == "simple" for e in els):
            return None
        pos, items = 0, 0
        while pos < len(data):
            pos = cbor_ref.well_formed(data, pos)
            items += 1
    except cbor_ref.Malformed:
        return None
    except Exception:
        return None
    return "OK items=%d" % (len(els) if parser == "cbor" else items)


def _reference_errors(op, ls):
    """clauses checked against an independent reference: a parser that mis-frames its input (wrong element count, wrong
    parameter boundaries, wrong number) while staying in bounds"""
    t = op.split(" ")
    if len(t) < 3 or t[0] not in ("p", "pn"):
        return []
    parser = t[1]
    want_rc = [x[9:] for x in t if x.startswith("expectrc=")]
    if want_rc:
        w = want_rc[0].replace(":", " ")
        head = "P %s blk parse %s " % (parser, w)
        if not any(l.startswith(head) or l.startswith(head.rstrip()) for l in ls):
            return ["nesting limit: expected `%s`" % head.strip()]
        return []
    want_date = [x[12:] for x in t if x.startswith("expect_date=")]
    if want_date:
        kind, ts = want_date[0].split(",")
        out = []
        for call in ("auto", "buf_auto", "rfc822" if kind == "rfc" else "iso8601"):
            head = "P date blk %s OK utc=1 ts=%s " % (call, ts)
            if not any(l.startswith(head) for l in ls):
                out.append("canonical UTC date-time, expected `%s`" % head.strip())
        return out
    if t[0] == "p" and parser == "hex":
        try:
            data = b"" if t[2] == "-" else bytes.fromhex(t[2])
        except ValueError:
            return []
        if all(c in _HEXV for c in data):
            txt = data.decode()
            raw = bytes.fromhex(txt if len(txt) % 2 == 0 else "0" + txt)
            h = 14695981039346656037
            for b in raw:
                h = ((h ^ b) * 1099511628211) & 0xFFFFFFFFFFFFFFFF
            want = "P hex blk decode_exact OK outlen=%d fnv=%016x " % (len(raw), h)
        else:
            want = "P hex blk decode_exact ERR AWS_ERROR_INVALID_HEX_STR "
        return [] if any(l.startswith(want) for l in ls) else ["hex text, expected `%s`" % want.strip()]
    if t[0] != "p" or parser not in ("xml", "query", "u64", "cbor", "cbor_consume"):
        return []
    if parser == "xml":
        exp = [x for x in t[3:] if x.startswith("expect=")]
        if not exp:
            return []
        n, b, bl = exp[0][7:].split(",")
        want = "OK nodes=%s bodies=%s bodylen=%s " % (n, b, bl)
        return [] if any(l.startswith("P xml blk parse " + want) for l in ls) else ["well-formed document inside the limits, expected `%s`" % want.strip()]
    try:
        data = b"" if t[2] == "-" else bytes.fromhex(t[2])
    except ValueError:
        return []
    if parser == "query":
        count, h = _fnv_kv(data)
        want = "params=%d kv=%016x " % (count, h)
        return [] if any(l.startswith("P query blk iterate OK " + want) for l in ls) else ["query framing, expected `%s`" % want.strip()]
    if parser == "u64":
        out = []
        for name, base in (("dec", 10), ("hex", 16)):
            want = "P u64 blk %s %s " % (name, _u64_ref(data, base))
            if not any(l.startswith(want) for l in ls):
                out.append("expected `%s`" % want.strip())
        return out
    want = _cbor_ref(parser, data)
    if want is None:
        return []
    head = "P %s blk %s %s " % (parser, "decode_all" if parser == "cbor" else "consume", want)
    return [] if any(l.startswith(head) for l in ls) else ["well-formed CBOR, expected `%s`" % head.strip()]


def oracle(case, lines):
    errs = []
    done = 0
    for k, op, ls in _walk(case, lines):
        ended = False
        for l in ls:
            if l.startswith("P "):
                if "BAD:" in l or l.startswith("P WATCHDOG") or "Unknown Error Code" in l:
                    errs.append("%s -> %s" % (_short(op), l))
                elif " ERR AWS_ERROR_SUCCESS" in l:
                    errs.append("%s -> failure with AWS_ERROR_SUCCESS: %s" % (_short(op), l))
            elif l.startswith("E "):
                ended = True
            elif l == "bad-op" or l.startswith("H harness-assert"):
                errs.append("harness rejected op %s: %s" % (_short(op), l))
            elif "runtime error:" in l and "null pointer passed as argument" not in l:
                errs.append("%s -> UBSan: %s" % (_short(op), l.strip()))
        if ended:
            done += 1
            for e in _reference_errors(op, ls):
                errs.append("%s -> %s; got %s" % (_short(op), e, [l for l in ls if l.startswith("P ")][:2]))
    if done != len(case.ops) and not errs:
        errs.append("implementation produced results for %d of %d ops" % (done, len(case.ops)))
    return errs


def nontrivial(case):
    return len(case.ops) >= 1


# ------------------------------------------------------------------------------------------------ distribution
_ACC = {"impl": {}, "model": {}}


def _merge(a, b):
    """add the numeric leaves of b into a (dicts of dicts of numbers)"""
    for k, v in b.items():
        if isinstance(v, dict):
            _merge(a.setdefault(k, {}), v)
        else:
            a[k] = a.get(k, 0) + v
    return a


def distribution(cases, c_out):
    """measured distribution; accumulates over the stages / rounds of one run"""
    per = {}
    sizes = {"0": 0, "1-64": 0, "65-512": 0, "513-4096": 0, "4097-65536": 0, ">65536": 0}
    streams = {}
    notes = {"ubsan_null_arg_zero_len": 0, "utf8_chunked_vs_oneshot_DIFF": 0, "utf8_codepoint_above_10FFFF_accepted": 0, "w_leak": 0,
             "null_view_calls": 0}
    n_inputs = 0
    stage = "model" if cases and cases[0].tags.get("stage") == "model" else "impl"
    for i, c in enumerate(cases):
        for k, v in c.tags.get("streams", {}).items():
            streams[k] = streams.get(k, 0) + v
        for op in c.ops:
            t = op.split(" ", 3)
            if len(t) < 3 or t[0] not in ("p", "pn"):
                continue
            n_inputs += 1
            if t[0] == "pn":
                f = op.split(" ")
                n = int(f[2]) * (sum(len(x) // 2 for x in (f[3], f[5]) if x != "-")) if len(f) >= 6 else 0
                sizes[">65536" if n > 65536 else "4097-65536" if n > 4096 else "513-4096" if n > 512 else "65-512" if n > 64 else "1-64"] += 1
                continue
            n = 0 if t[2] == "-" else len(t[2]) // 2
            if t[1] == "cbor_consume_nested":
                n = int(t[2])
            key = "0" if n == 0 else "1-64" if n <= 64 else "65-512" if n <= 512 else "513-4096" if n <= 4096 else "4097-65536" if n <= 65536 else ">65536"
            sizes[key] += 1
        for l in c_out.get(i, []):
            if l.startswith("P "):
                t = l.split(" ")
                if len(t) < 5:
                    continue
                d = per.setdefault(t[1], {"ok": 0, "fail": 0, "kinds": {}})
                if t[2] == "null":
                    notes["null_view_calls"] += 1
                cls = t[4]
                if cls in ("OK", "true"):
                    d["ok"] += 1
                else:
                    d["fail"] += 1
                    kind = t[5] if cls == "ERR" and len(t) > 5 else cls
                    d["kinds"][kind] = d["kinds"].get(kind, 0) + 1
            elif l.startswith("W "):
                if "DIFF" in l:
                    notes["utf8_chunked_vs_oneshot_DIFF"] += 1
                elif " NOTE " in l:
                    notes["utf8_codepoint_above_10FFFF_accepted"] += 1
                elif " leak " in l:
                    notes["w_leak"] += 1
            elif "runtime error: null pointer passed" in l:
                notes["ubsan_null_arg_zero_len"] += 1
    _merge(_ACC[stage], {"inputs": n_inputs, "sizes": sizes, "streams": streams, "per_parser_calls": per, "notes": notes})
    d = dict(_ACC["impl"])
    if _ACC["model"]:
        d["model_stage"] = _ACC["model"]
    return d


# ------------------------------------------------------------------------------------------------ known findings
def cbor_depth(data, limit=1 << 22):
    """maximum nesting depth (arrays, maps, tags, indefinite containers) of the first items of a CBOR byte string,
    computed structurally without recursion"""
    i, n = 0, len(data)
    stack = []   # remaining child counts (None = indefinite)
    best = 0
    steps = 0
    while i < n and steps < limit:
        steps += 1
        b = data[i]; i += 1
        major, info = b >> 5, b & 31
        val = info
        if info in (24, 25, 26, 27):
            w = 1 << (info - 24)
            if i + w > n:
                break
            val = int.from_bytes(data[i:i + w], "big"); i += w
        elif info in (28, 29, 30):
            break
        opened = None
        if b == 0xff:
            if stack and stack[-1] is None:
                stack.pop()
            else:
                break
            # closing a container completes an item of the parent: fall through to the accounting below
        elif major in (0, 1, 7):
            pass
        elif major in (2, 3):
            if info == 31:
                opened = None; stack.append(None); best = max(best, len(stack)); continue
            i += val
            if i > n:
                break
        elif major == 4:
            if info == 31:
                stack.append(None); best = max(best, len(stack)); continue
            if val:
                stack.append(val); best = max(best, len(stack)); continue
        elif major == 5:
            if info == 31:
                stack.append(None); best = max(best, len(stack)); continue
            if val:
                stack.append(2 * val); best = max(best, len(stack)); continue
        elif major == 6:
            stack.append(1); best = max(best, len(stack)); continue
        # one item completed
        while stack and stack[-1] is not None:
            stack[-1] -= 1
            if stack[-1] == 0:
                stack.pop()
            else:
                break
    return best


def _op_bytes(op):
    t = op.split(" ")
    if len(t) >= 4 and t[1] == "cbor_consume_nested":
        head = bytes.fromhex(t[3])
        tail = bytes.fromhex(t[4]) if len(t) >= 5 and t[4] != "-" else b"\x00"
        return "cbor_consume", head * int(t[2]) + tail
    if len(t) >= 3 and t[0] == "p":
        return t[1], (b"" if t[2] == "-" else bytes.fromhex(t[2]))
    return None, b""


def _exe():
    return cbuild.build_harness(**HARNESS)


def _run_ops(ops, timeout=120):
    rc, out, _ = core.run_stream([_exe()], "case 0\n" + "\n".join(ops) + "\n", timeout, globals().get("C_ENV"))
    lines = []
    seen = False
    for l in out.splitlines():
        if l.startswith("case "):
            seen = True
        elif seen:
            lines.append(l)
    return rc, lines, out


def _minimise_bytes(case, fails, budget_s=12):
    """byte-level delta debugging of the single remaining `p <parser> <hex> ...` op (in place)"""
    if len(case.ops) != 1:
        return
    t = case.ops[0].split(" ")
    if len(t) < 3 or t[0] != "p" or t[1] == "cbor_consume_nested" or t[2] == "-" or any(x.startswith("expect") for x in t[3:]):
        return
    data = bytes.fromhex(t[2])
    mk = lambda d: " ".join(t[:2] + [hx(d)] + t[3:])
    t0 = time.time()
    chunk = max(1, len(data) // 2)
    while chunk >= 1 and time.time() - t0 < budget_s:
        i = 0
        while i < len(data) and time.time() - t0 < budget_s:
            cand = data[:i] + data[i + chunk:]
            if fails(mk(cand)):
                data = cand
            else:
                i += chunk
        chunk //= 2
    case.ops[0] = mk(data)


def classify(case, detail):
    """F6 <=> the (minimised) case is exactly one cbor_consume input nested >= 10000 deep and the run crashed.
    Everything else is minimised further at byte level (the core only minimises op lists) and stays a violation."""
    kind = detail.get("kind")
    pops = [o for o in case.ops if o.startswith("p ")]
    if kind == "crash" and len(pops) == 1 and len(case.ops) == 1:
        parser, data = _op_bytes(pops[0])
        text = detail.get("text") or ""
        overflow = ("stack-overflow" in text or "rc=-11" in text) and "heap-buffer-overflow" not in text and "WATCHDOG" not in text
        if parser == "cbor_consume" and overflow and cbor_depth(data) >= F6_DEPTH:
            return "F6"
    try:
        if kind == "crash":
            _minimise_bytes(case, lambda op: _run_ops([op], 60)[0] != 0)
        elif kind == "oracle":
            _minimise_bytes(case, lambda op: (lambda r: r[0] == 0 and bool(oracle(Case([op]), r[1])))(_run_ops([op], 60)))
    except Exception as e:  # minimisation is best effort
        sys.stderr.write("byte minimisation failed: %r\n" % (e,))
    return None


# ------------------------------------------------------------------------------------------------ stage 2: model vs implementation
UUID_ALPHA = b"0123456789abcdefABCDEFxX+- \t\n\r\v\f-\0g."
IPV4_ALPHA = b"0123456789.+- \t\nx\0"
PCT_ALPHA = b"ab%%%0123456789abcdefABCDEFgz\0"


def model_inputs(rng, kind):
    if kind == "ipv6":
        r = rng.random()
        if r < 0.35:
            return gen_ipv6(rng)
        if r < 0.75:
            return mutate(rng, "ipv6", gen_ipv6(rng))[:200]
        if r < 0.9:
            return bytes(rng.choice(b"0123456789abcdefABCDEF::::%%%25gz") for _ in range(rng.choice([0, 1, 2, 3, 38, 39, 40, 41, rng.randint(0, 60)])))
        return rng.randbytes(rng.randint(0, 48))
    if kind == "uuid":
        b = bytearray(gen_uuid(rng, 36)[:36] if rng.random() < 0.9 else rng.randbytes(36))
        for _ in range(rng.choice([0, 0, 1, 2, 4])):
            if b:
                b[rng.randrange(len(b))] = rng.choice(UUID_ALPHA)
        r = rng.random()
        if r < 0.15:
            b = b[:rng.choice([0, 1, 35, rng.randint(0, 36)])]
        elif r < 0.35:
            b += bytes(rng.choice(UUID_ALPHA) for _ in range(rng.randint(1, 6)))
        elif r < 0.4:
            b[rng.randrange(len(b) + 1):0] = b" "
        return bytes(b)
    if kind == "ipv4":
        r = rng.random()
        if r < 0.55:
            b = bytearray(b".".join(str(rng.choice([0, 1, 9, 25, 99, 100, 255, 256, 260, 999, 1000, rng.randint(0, 300)])).encode() for _ in range(4)))
            for _ in range(rng.choice([0, 0, 1, 2, 3])):
                i = rng.randrange(len(b) + 1); b[i:i] = bytes([rng.choice(IPV4_ALPHA)])
            return bytes(b)
        return bytes(rng.choice(IPV4_ALPHA) for _ in range(rng.choice([0, 1, 7, 14, 15, 16, 17, rng.randint(0, 18)])))
    if kind == "uridec":
        r = rng.random()
        if r < 0.5:
            return bytes(rng.choice(PCT_ALPHA) for _ in range(rng.randint(0, 14)))
        if r < 0.8:
            return gen_uridec(rng, rng.choice([0, 1, 2, 3, 8, 40]))
        return mutate(rng, "uridec", gen_uridec(rng, 20))[:300]
    return rng.randbytes(rng.choice([16, 16, 16, 0, 3, 20]))    # uuidstr


def model_cases(rng, tier):
    n = 6000 if tier == "quick" else 100000
    fixed6 = [b"", b":", b"::", b":::", b"::1", b"1::", b"1:2:3:4:5:6:7:8", b"1:2:3:4:5:6:7:8:9", b"1:2:3:4:5:6:7::", b"::2:3:4:5:6:7:8",
              b"1::3:4:5:6:7:8", b"1:2:3:4:5:6:7", b"12345::", b"1::2::3", b":1::", b"::1:", b"fe80::1%eth0", b"fe80::1%25eth0", b"fe80::1%",
              b"fe80::1%25", b"fe80::1%2", b"fe80::1%a%!", b"%", b"%%", b"::%", b"ffff:ffff:ffff:ffff:ffff:ffff:ffff:ffff", b"f" * 40, b"::" + b"0" * 37,
              b"0:" * 19 + b"0", b"::g", b"::G", b"::1\0", b"1:2:3:4:5:6:7:8%x%25", b"::%25a", b"::%25", b"::%250"]
    u = b"123e4567-e89b-12d3-a456-426614174000"
    ops = ["p ipv6 " + hx(f) for f in fixed6]
    ops += ["p uuid " + hx(x) for x in [b"", u, u[:35], u + b"x", b" " + u[1:], b"0x" + u[2:], b"-1" + u[2:], b"+f" + u[2:], u.upper(), u.replace(b"-", b" "),
                                        u[:8] + b" " + u[9:], u[:35] + b"\0", b"\0" * 36, b"-" * 36, b"0" * 36, u[:9] + b" " + u[10:]]]
    ops += ["p ipv4 " + hx(x) for x in [b"", b"1.2.3.4", b"1.2.3.4 ", b"1.2.3.4x", b" 1.2.3.4", b"1. 2.3.4", b"+1.2.3.4", b"-1.2.3.4", b"-0.0.0.0", b"001.2.3.4",
                                        b"0001.2.3.4", b"1.2.3.4.", b"1.2.3.", b"256.1.1.1", b"255.255.255.255", b"1.2.3.4\n", b"1.2.3.4 x", b"1..2.3",
                                        b"1.2.3.4\0junk", b"123.123.123.123", b"123.123.123.1234", b"1234567890123456", b"1.2.3.+4", b"1.2.3.-0", b"1.2.3.+"]]
    ops += ["p uridec %s pre=%d cap=%d show=1" % (hx(x), pre, cap) for x in [b"", b"%", b"%4", b"%41", b"a%", b"a%4", b"a%41", b"%zz", b"%4z", b"%z4", b"%%41", b"%25",
                                                                            b"abc", b"%41%4", b"%41%", b"\0%00", b"%fF%Ff"] for (pre, cap) in [(0, 0), (3, 3), (1, 40)]]
    ops += ["p uuidstr %s pre=%d slack=%d" % (hx(x), pre, sl) for x in [bytes(16), bytes(range(16)), b"\xff" * 16, b"", b"\x12\x3e"] for (pre, sl) in
            [(0, 37), (0, 36), (0, 0), (5, 37), (5, 36), (2, 64)]]
    kinds = ["ipv6"] * 4 + ["uuid"] * 3 + ["ipv4"] * 3 + ["uridec"] * 3 + ["uuidstr"]
    for _ in range(n):
        k = rng.choice(kinds)
        d = model_inputs(rng, k)
        if k == "uridec":
            ops.append("p uridec %s pre=%d cap=%d show=1" % (hx(d), rng.choice([0, 0, 1, 7]), rng.choice([0, 0, 1, 8, 100])))
        elif k == "uuidstr":
            ops.append("p uuidstr %s pre=%d slack=%d" % (hx(d), rng.choice([0, 1, 5]), rng.choice([0, 1, 35, 36, 37, 38, 50])))
        else:
            ops.append("p %s %s" % (k, hx(d)))
    cases = [Case(ops[k:k + 200], {"stage": "model"}) for k in range(0, len(ops), 200)]
    return cases


def extra_stages(ctx):
    p = ctx.p
    try:
        exe = _exe()
    except cbuild.BuildError:
        return  # already reported by stage 1
    # thorough: remaining rounds of stage 1 (same harness, no model stream)
    if ctx.tier == "thorough":
        done = THOROUGH_ROUND
        while done < THOROUGH_TOTAL and len(ctx.violations) < 5 and time.time() - ctx.t0 < 1500:
            core.correspondence_stage(ctx, gen_inputs(ctx.rng, THOROUGH_ROUND), exe)
            done += THOROUGH_ROUND
    _summary(ctx, _ACC["impl"])
    # stage 2: the Lean model of aws_host_utils_is_ipv6 against the same harness
    p.COMPONENT = "hostutils"
    p.C_ENV = {"C04_PREWARM": "1"}   # the one harmless UBSan nonnull report of is_ipv4(NULL,0) is emitted before the first case
    try:
        core.correspondence_stage(ctx, model_cases(ctx.rng, ctx.tier), exe)
    finally:
        p.COMPONENT = None
        p.C_ENV = None
    if ctx.tier == "thorough":
        lim = recursion_limit(exe)
        ctx.notes.append("measured cbor consume_next_whole_data_item recursion limit (asan build, default stack): deepest surviving nesting = %s" % lim)


def _summary(ctx, d):
    if not d or "inputs" not in d:
        return
    print("[C04] inputs=%d sizes=%s ubsan-null-arg-notes=%d" % (d["inputs"], d["sizes"], d["notes"]["ubsan_null_arg_zero_len"]))
    for k in sorted(d["per_parser_calls"]):
        v = d["per_parser_calls"][k]
        kinds = ", ".join("%s:%d" % (a.replace("AWS_ERROR_", ""), b) for a, b in sorted(v["kinds"].items(), key=lambda x: -x[1])[:6])
        print("[C04]   %-13s calls ok=%-7d fail=%-7d %s" % (k, v["ok"], v["fail"], kinds))


def recursion_limit(exe=None, head="81", hi=400000):
    """binary search on the nesting depth at which aws_cbor_decoder_consume_next_whole_data_item still returns"""
    survives = lambda d: _run_ops(["p cbor_consume_nested %d %s" % (d, head)], 120)[0] == 0
    lo = 1
    if survives(hi):
        return ">=%d" % hi
    while hi - lo > 1:
        mid = (lo + hi) // 2
        if survives(mid):
            lo = mid
        else:
            hi = mid
    return lo


def replay(ctx, obj):
    print(obj)


MANIFEST = dict(
    category="proof",
    design_ref="5.4",
    text=("Two layers. (1) Proof: Lean 4 theorems over hand-written models that touch the input only through a checked cursor (any offset "
          "outside the exact-size input block, and any store outside the output capacity, is a fault). Proved in Props/C04.lean, for every "
          "byte string: aws_host_utils_is_ipv6 (no read outside the input, always a verdict, verdict = a cursor-free specification with a "
          "declarative characterisation of the accepted addresses); aws_host_utils_is_ipv4 (longer than 15 bytes refused unread, otherwise "
          "exactly len bytes copied, verdict = scan of the local copy); aws_byte_buf_append_decoding_uri + aws_byte_cursor_read_hex_u8 (a cursor "
          "of fewer than 2 bytes is refused without any read, no read outside the view and no store outside the reserved capacity for every "
          "input incl. those ending in %, %X, %XY, fuel cursor->len suffices, outcome = C13's pure decoder, appended length <= input length); "
          "aws_uuid_init_from_str / aws_uuid_to_str (shorter than 36 refused unread, otherwise exactly bytes [0,36) read and the tail ignored; "
          "to_str refuses iff fewer than 37 bytes are free and otherwise writes exactly [len,len+37); from_str(to_str u) = u); "
          "cbor_stream_decode for ALL 256 initial bytes and every truncation (never dereferences outside [0,source_size), reports <= "
          "source_size, on FINISHED the dereferenced bytes and the string view are exactly the claimed bytes, otherwise reports 0) — this one "
          "interprets the per-initial-byte claim table and claim_bytes' test REGENERATED from streaming.c on every run. Guards, offsets and "
          "lengths of read_hex_u8, uuid.c and host_utils.c are regenerated too (gen/c04_gen.py) and tied to the models by bridge theorems "
          "c04_gen_*, so an edit of one of them stops the theorem list from compiling. The list also re-states the XML (C12), URI (C13), "
          "base64/hex (C05) and byte-cursor / unsigned-integer (C01) safety theorems. The models are tied to /repo by a correspondence run "
          "(ipv6, ipv4, uuid, uuid to_str + round trip, percent-decoding with decoded bytes) against the code rebuilt from the working tree. "
          "(2) Sanitizer-monitored execution of EVERY decoder of the current tree on arbitrary bytes (valid / mutated / random streams, "
          "every input an exact-size heap copy and also the NULL/0 view, every CBOR head x every truncation, texts ending in an incomplete "
          "escape or right after '@', every prefix of short valid and mutated documents, canary-filled exact-size outputs with pre-existing content, view-range checks, "
          "error-channel check, watchdog, and framing checks against independent references — XML node/body counts of generated in-limit "
          "documents with their callback programs, CBOR element / item counts of well-formed input (lib/cbor_ref.py), query parameter "
          "boundaries, unsigned-integer values, URI components tiling the text, AVX2-dispatch vs portable base64 verdicts, a reused UTF-8 "
          "decoder behaving like a fresh one, dt.tz staying NUL-terminated, verdict / utc flag / timestamp of canonical UTC date-times, "
          "hex output against a reference, URI user/password/host/delimiter framing, nesting limits of XML (default and non-default "
          "max_depth) and cJSON with limit-evasion shapes up to 250 000 levels; 160 000 inputs quick, 3.2 M thorough). cJSON (aws_json_value_new_from_string), what sscanf does inside libc (UUID, IPv4) and the AVX2 base64 "
          "codec have no model: for them C04 is decided by the sanitizer-monitored execution alone. Open finding F6: "
          "aws_cbor_decoder_consume_next_whole_data_item recurses once per nesting level without a limit (stack overflow beyond ~52 000 "
          "levels in the ASan build, ~131 000 at -O2, 8 MiB stack); CBOR totality is claimed only below that depth."),
    note=("Trusted: Lean kernel; hand-written models (tied by correspondence runs and bridge theorems only); the textual generators; harness "
          "monitors and ASan/UBSan red zones; libc (memchr, memcpy, memcmp, sscanf as modelled for glibc 2.36, strtol, timegm, mktime). "
          "UBSan's nonnull-attribute reports for memchr/memcpy(NULL, ., 0) on the NULL/0 view are recorded in the evidence, not counted as "
          "violations. Not covered: inputs beyond 64 KiB in the sampled streams, allocator failure, an over-read of sscanf's local stack "
          "copies (invisible to ASan; guarded by the bridge theorem c04_gen_host_utils / c04_gen_uuid only)."),
    technique="Lean 4 theorems over checked-cursor models + generated claim tables with bridge theorems + model/implementation differential run + ASan/UBSan-monitored structured fuzzing of every decoder",
)
