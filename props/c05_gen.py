"""C05 generated layer: tables and constants of /repo/source/encoding.c -> lean/AwsVerif/Gen/CodecTables.lean

Two independent extractions, cross-checked on every run:
  (1) text: `gcc -E -P` of encoding.c, then a small parser of the C initialisers
      (string literals with escapes, brace lists of integer/char literals, declared array size -> zero fill);
  (2) probe: a tiny program that `#include`s the current encoding.c (portable configuration) and prints the
      four objects as the compiler sees them, plus the static function s_hex_decode_char_to_int evaluated on
      all 256 arguments (a function on a 256-element domain, fully tabulated, *is* the function).
A disagreement between (1) and (2), or a source that neither can read, raises GenError.
"""
import hashlib, os, re, subprocess
from lib import core, cbuild

SRC = os.path.join(cbuild.REPO, "source", "encoding.c")
OUT = os.path.join(core.LEAN, "AwsVerif", "Gen", "CodecTables.lean")


def _pp():
    cmd = ["gcc", "-E", "-P"] + cbuild.DEFINES + cbuild.includes() + [SRC]
    r = subprocess.run(cmd, stdout=subprocess.PIPE, stderr=subprocess.PIPE, text=True)
    if r.returncode != 0:
        raise core.GenError("gcc -E failed on encoding.c: " + r.stderr[-400:])
    return r.stdout


_ESC = {"n": 10, "t": 9, "r": 13, "0": 0, "\\": 92, "'": 39, '"': 34, "a": 7, "b": 8, "f": 12, "v": 11}


def _c_string(body):
    out, i = [], 0
    while i < len(body):
        c = body[i]
        if c == "\\":
            i += 1
            e = body[i]
            if e == "x":
                m = re.match(r"[0-9a-fA-F]+", body[i + 1:])
                if not m:
                    raise core.GenError("bad \\x escape in string literal")
                out.append(int(m.group(0), 16) & 0xFF)
                i += 1 + len(m.group(0))
                continue
            if e in "01234567":
                m = re.match(r"[0-7]{1,3}", body[i:])
                out.append(int(m.group(0), 8) & 0xFF)
                i += len(m.group(0))
                continue
            if e not in _ESC:
                raise core.GenError("unknown escape \\%s in string literal" % e)
            out.append(_ESC[e])
            i += 1
            continue
        if ord(c) > 127:
            raise core.GenError("non-ASCII byte in string literal")
        out.append(ord(c))
        i += 1
    return out


def _c_int(tok):
    t = tok.strip()
    m = re.fullmatch(r"\(\s*(?:uint8_t|unsigned char|char)\s*\)\s*(.+)", t)
    if m:
        t = m.group(1).strip()
    if re.fullmatch(r"'(\\.|[^\\'])'", t):
        return _c_string(t[1:-1])[0]
    t2 = re.sub(r"[uUlL]+$", "", t)
    try:
        if re.fullmatch(r"0[xX][0-9a-fA-F]+", t2):
            return int(t2, 16)
        if re.fullmatch(r"0[0-7]*", t2):
            return int(t2, 8) if len(t2) > 1 else 0
        if re.fullmatch(r"[1-9][0-9]*", t2):
            return int(t2)
    except ValueError:
        pass
    raise core.GenError("initialiser element not an integer literal: %r" % tok)


def _strings(expr):
    """adjacent string literals -> bytes (without the terminating NUL)"""
    parts = re.findall(r'"((?:\\.|[^"\\])*)"', expr)
    if not parts or re.sub(r'"((?:\\.|[^"\\])*)"', "", expr).strip():
        raise core.GenError("expected string literal(s), found: " + expr[:80])
    out = []
    for p in parts:
        out += _c_string(p)
    return out


def parse_text():
    pp = _pp()
    t = {}
    m = re.search(r"static\s+const\s+(?:uint8_t|unsigned\s+char)\s*\*\s*HEX_CHARS\s*=\s*\(\s*const\s+(?:uint8_t|unsigned\s+char)\s*\*\s*\)\s*((?:\"(?:\\.|[^\"\\])*\"\s*)+);", pp)
    if not m:
        raise core.GenError("HEX_CHARS definition not found in the expected form")
    t["hex_chars"] = _strings(m.group(1)) + [0]
    m = re.search(r"static\s+const\s+(?:uint8_t|unsigned\s+char)\s+BASE64_SENTINEL_VALUE\s*=\s*([^;]+);", pp)
    if not m:
        raise core.GenError("BASE64_SENTINEL_VALUE not found")
    t["sentinel"] = _c_int(m.group(1))
    if not 0 <= t["sentinel"] <= 255:
        raise core.GenError("BASE64_SENTINEL_VALUE does not fit uint8_t")
    m = re.search(r"static\s+const\s+(?:uint8_t|unsigned\s+char)\s+BASE64_ENCODING_TABLE\s*\[\s*(\d*)\s*\]\s*=\s*([^;]+);", pp)
    if not m:
        raise core.GenError("BASE64_ENCODING_TABLE not found")
    init = m.group(2).strip()
    if init.startswith("{"):
        vals = [_c_int(x) for x in init.strip("{} \n").split(",") if x.strip()]
    else:
        vals = _strings(init)
        if not m.group(1) or int(m.group(1)) > len(vals):
            vals = vals + [0]            # the terminating NUL is part of the array
    if m.group(1):
        n = int(m.group(1))
        if len(vals) > n:
            raise core.GenError("BASE64_ENCODING_TABLE: more initialisers than elements")
        vals += [0] * (n - len(vals))
    t["enc"] = vals
    m = re.search(r"static\s+const\s+(?:uint8_t|unsigned\s+char)\s+BASE64_DECODING_TABLE\s*\[\s*(\d*)\s*\]\s*=\s*\{([^}]*)\}\s*;", pp)
    if not m:
        raise core.GenError("BASE64_DECODING_TABLE not found")
    vals = [_c_int(x) for x in m.group(2).split(",") if x.strip()]
    n = int(m.group(1)) if m.group(1) else len(vals)
    if len(vals) > n:
        raise core.GenError("BASE64_DECODING_TABLE: more initialisers than elements")
    vals += [0] * (n - len(vals))        # static storage: missing elements are zero
    if any(not 0 <= v <= 255 for v in vals):
        raise core.GenError("BASE64_DECODING_TABLE element outside uint8_t")
    if n != 256:
        raise core.GenError("BASE64_DECODING_TABLE has %d elements; the decoder indexes it with an unsigned char" % n)
    t["dec"] = vals
    return t, pp


PROBE = r"""
#include "%s"
#include <stdio.h>
int main(void) {
    printf("sentinel %%u\n", (unsigned)BASE64_SENTINEL_VALUE);
    printf("enc");
    for (size_t i = 0; i < sizeof(BASE64_ENCODING_TABLE); ++i) printf(" %%u", (unsigned)BASE64_ENCODING_TABLE[i]);
    printf("\ndec");
    for (size_t i = 0; i < sizeof(BASE64_DECODING_TABLE); ++i) printf(" %%u", (unsigned)BASE64_DECODING_TABLE[i]);
    printf("\nhex_chars");
    for (size_t i = 0; i < 17; ++i) printf(" %%u", (unsigned)HEX_CHARS[i]);
    printf("\nhex_to_num");
    for (int c = 0; c < 256; ++c) {
        uint8_t v = 0xEE;
        int rc = s_hex_decode_char_to_int((char)(unsigned char)c, &v);
        printf(" %%u", rc ? 255u : (unsigned)v);
        if (!rc && v >= 16) { printf("\nBAD value %%u for %%d\n", (unsigned)v, c); return 3; }
    }
    printf("\n");
    return 0;
}
"""


def run_probe(pp):
    key = hashlib.sha256((pp + PROBE).encode()).hexdigest()[:16]
    d = os.path.join(cbuild.CACHE, "c05probe-" + key)
    res = os.path.join(d, "out.txt")
    if not os.path.exists(res):
        os.makedirs(d, exist_ok=True)
        src = os.path.join(d, "probe.c")
        with open(src, "w") as f:
            f.write(PROBE % SRC)
        exe = os.path.join(d, "probe")
        cmd = ["gcc", "-std=gnu99", "-O0", "-w", "-DNDEBUG"] + cbuild.DEFINES + cbuild.includes() + \
              ["-ffunction-sections", "-fdata-sections", src, "-o", exe, "-Wl,--gc-sections"]
        r = subprocess.run(cmd, stdout=subprocess.PIPE, stderr=subprocess.STDOUT, text=True)
        if r.returncode != 0:
            raise core.GenError("table probe does not compile against the current encoding.c: " + r.stdout[-600:])
        r = subprocess.run([exe], stdout=subprocess.PIPE, stderr=subprocess.STDOUT, text=True, timeout=20)
        if r.returncode != 0:
            raise core.GenError("table probe failed: " + r.stdout[-300:])
        with open(res + ".tmp", "w") as f:
            f.write(r.stdout)
        os.replace(res + ".tmp", res)
    out = {}
    for line in open(res):
        p = line.split()
        if p:
            out[p[0]] = [int(x) for x in p[1:]]
    for k in ("sentinel", "enc", "dec", "hex_chars", "hex_to_num"):
        if k not in out:
            raise core.GenError("table probe output incomplete: " + k)
    return out


def _lean_list(name, doc, vals, per=16):
    rows = []
    for i in range(0, len(vals), per):
        rows.append("  " + ", ".join(str(v) for v in vals[i:i + per]))
    return f"/-- {doc} -/\ndef {name} : List UInt8 := [\n" + ",\n".join(rows) + "]\n"


def regen(ctx=None):
    t, pp = parse_text()
    p = run_probe(pp)
    if t["sentinel"] != p["sentinel"][0] or t["enc"] != p["enc"] or t["dec"] != p["dec"] or t["hex_chars"] != p["hex_chars"]:
        raise core.GenError("translator self-check: tables parsed from the source text differ from what the compiler sees")
    if len(p["hex_to_num"]) != 256:
        raise core.GenError("hex probe incomplete")
    body = ("/-! GENERATED by props/c05_gen.py from source/encoding.c of the tree under test on every run. Do not edit. -/\n"
            "namespace AwsVerif.Gen.CodecTables\n\n" +
            _lean_list("base64EncodingTable", "`BASE64_ENCODING_TABLE[]` (65 elements: the string literal and its NUL)", t["enc"]) + "\n" +
            _lean_list("base64DecodingTable", "`BASE64_DECODING_TABLE[256]`", t["dec"]) + "\n" +
            _lean_list("hexChars", "`HEX_CHARS` (string literal and its NUL)", t["hex_chars"]) + "\n" +
            _lean_list("hexToNum", "`s_hex_decode_char_to_int((char)c, &v)` for c = 0..255: v, or 255 where it returns AWS_OP_ERR", p["hex_to_num"]) + "\n" +
            f"/-- `BASE64_SENTINEL_VALUE` -/\ndef base64Sentinel : UInt8 := {t['sentinel']}\n\n"
            "end AwsVerif.Gen.CodecTables\n")
    core.write_if_changed(OUT, body)
    regen_avx2()
    return t, p


# ------------------------------------------------------------------ AVX2 constants (source/arch/intel/encoding_avx2.c)
AVX = os.path.join(cbuild.REPO, "source", "arch", "intel", "encoding_avx2.c")
OUT_AVX = os.path.join(core.LEAN, "AwsVerif", "Gen", "CodecAvx2Consts.lean")


def _strip_comments(src):
    return re.sub(r"/\*.*?\*/|//[^\n]*", " ", src, flags=re.S)


def _function_body(src, name):
    """text between the braces of the definition of `name`"""
    m = re.search(r"\b" + re.escape(name) + r"\s*\([^;{]*\)\s*\{", src)
    if not m:
        raise core.GenError(f"encoding_avx2.c: definition of {name} not found")
    i, depth = m.end(), 1
    while i < len(src) and depth:
        depth += {"{": 1, "}": -1}.get(src[i], 0)
        i += 1
    if depth:
        raise core.GenError(f"encoding_avx2.c: unbalanced braces in {name}")
    return src[m.end():i - 1]


def _const(expr):
    """integer constant expression made of integer / character literals, + - << and parentheses (casts are dropped)"""
    e = re.sub(r"\(\s*(?:int|char|uint8_t|uint32_t|unsigned char|unsigned|size_t)\s*\)", "", expr.strip())
    toks = re.findall(r"'(?:\\.|[^\\'])'|0[xX][0-9a-fA-F]+[uUlL]*|\d+[uUlL]*|<<|[+\-()]|\S", e)
    out = []
    for tk in toks:
        if tk in ("+", "-", "<<", "(", ")"):
            out.append(tk)
        else:
            try:
                out.append(str(_c_int(tk)))
            except core.GenError:
                raise core.GenError("encoding_avx2.c: constant expression not understood: %r" % expr)
    try:
        val = eval(" ".join(out), {"__builtins__": {}}, {})
    except Exception:
        raise core.GenError("encoding_avx2.c: constant expression not understood: %r" % expr)
    if not isinstance(val, int) or val < 0:
        raise core.GenError("encoding_avx2.c: constant expression not understood: %r" % expr)
    return val


def _calls(body, fname, first_arg, nargs):
    out = []
    for m in re.finditer(r"\b" + fname + r"\s*\(\s*" + re.escape(first_arg) + r"\s*,([^()]*(?:\([^()]*\)[^()]*)*)\)", body):
        args = [a for a in m.group(1).split(",")]
        if len(args) != nargs:
            raise core.GenError(f"encoding_avx2.c: {fname} call with {len(args) + 1} arguments")
        out.append(tuple(_const(a) for a in args))
    return out


def _int_list(text):
    return [_const(x) for x in text.split(",") if x.strip()]


def parse_avx2():
    try:
        src = _strip_comments(open(AVX).read())
    except OSError as e:
        raise core.GenError("encoding_avx2.c unreadable: %s" % e)
    c = {}
    dv = _function_body(src, "decode_vec")
    c["dec_ranges"] = _calls(dv, "translate_range", "*in", 3)
    c["dec_exact"] = _calls(dv, "translate_exact", "*in", 2)
    m = re.search(r"_mm256_sub_epi8\s*\(\s*tmp3\s*,\s*_mm256_set1_epi8\s*\(([^()]*)\)\s*\)", dv)
    m2 = re.search(r"_mm256_cmpeq_epi8\s*\(\s*tmp3\s*,\s*_mm256_set1_epi8\s*\(([^()]*)\)\s*\)", dv)
    if not m or not m2:
        raise core.GenError("encoding_avx2.c: decode_vec bias / failure test not in the expected form")
    c["dec_bias"], c["dec_fail"] = _const(m.group(1)), _const(m2.group(1))
    ec = _function_body(src, "encode_chars")
    c["enc_ranges"] = _calls(ec, "translate_range", "in", 3)
    c["enc_exact"] = _calls(ec, "translate_exact", "in", 2)
    if len(c["dec_ranges"]) != 3 or len(c["dec_exact"]) != 2 or len(c["enc_ranges"]) != 3 or len(c["enc_exact"]) != 2:
        raise core.GenError("encoding_avx2.c: expected 3 translate_range + 2 translate_exact calls in decode_vec and in encode_chars, found "
                            f"{len(c['dec_ranges'])}+{len(c['dec_exact'])} and {len(c['enc_ranges'])}+{len(c['enc_exact'])}")
    # translate_range / translate_exact themselves: the shape the per-lane model transcribes
    tr = re.sub(r"\s+", "", _function_body(src, "translate_range"))
    for frag in ("_mm256_set1_epi8(lo)", "_mm256_set1_epi8((char)(hi-lo))", "_mm256_set1_epi8(offset)", "_mm256_sub_epi8(in,lovec)",
                 "_mm256_min_epu8(tmp,hivec)", "_mm256_cmpeq_epi8(mask,tmp)", "_mm256_add_epi8(tmp,offsetvec)", "_mm256_and_si256(tmp,mask)"):
        if frag not in tr:
            raise core.GenError("encoding_avx2.c: translate_range no longer has the modelled shape (missing %s)" % frag)
    te = re.sub(r"\s+", "", _function_body(src, "translate_exact"))
    for frag in ("_mm256_cmpeq_epi8(in,_mm256_set1_epi8(match))", "_mm256_and_si256(mask,_mm256_set1_epi8(decode))"):
        if frag not in te:
            raise core.GenError("encoding_avx2.c: translate_exact no longer has the modelled shape (missing %s)" % frag)
    # shuffle tables
    pv = _function_body(src, "pack_vec")
    es = _function_body(src, "encode_stride")
    for key, body in (("dec", pv), ("enc", es)):
        m = re.search(r"shufvec_buf\s*=\s*\{([^}]*)\}", body)
        m2 = re.search(r"shuf32\s*=\s*_mm256_set_epi32\s*\(([^()]*)\)", body)
        if not m or not m2:
            raise core.GenError(f"encoding_avx2.c: shuffle tables of {'pack_vec' if key == 'dec' else 'encode_stride'} not found")
        c[key + "_shufvec"] = _int_list(m.group(1))
        c[key + "_shuf32"] = list(reversed(_int_list(m2.group(1))))     # _mm256_set_epi32 lists element 7 first
        if len(c[key + "_shufvec"]) != 32 or len(c[key + "_shuf32"]) != 8:
            raise core.GenError("encoding_avx2.c: shuffle table of unexpected size")
    # masks and shift counts of pack_vec / encode_stride
    def lane_ops(body, fname, names, masks_re, shift_re, or_re):
        masks = {}
        for nm in names:
            m = re.search(masks_re % nm, body)
            if not m:
                raise core.GenError(f"encoding_avx2.c: {fname}: mask for {nm} not found")
            masks[nm] = _const(m.group(1))
        ops = []
        for nm in names:
            m = re.search(shift_re % (nm, nm), body)
            if not m:
                raise core.GenError(f"encoding_avx2.c: {fname}: shift of {nm} not in the expected form")
            ops.append((masks[nm], 1 if m.group(1) == "slli" else 0, _const(m.group(2))))
        if not re.search(or_re, re.sub(r"\s+", "", body)):
            raise core.GenError(f"encoding_avx2.c: {fname}: the OR tree combining the four parts no longer has the known shape")
        return ops
    c["pack_ops"] = lane_ops(pv, "pack_vec", ["A", "B", "C", "D"],
                             r"mask%s\s*=\s*_mm256_set1_epi32\s*\(((?:[^()]|\([^()]*\))*)\)\s*;",
                             r"bits%s\s*=\s*_mm256_(slli|srli)_epi32\s*\(\s*_mm256_and_si256\s*\(\s*in\s*,\s*mask%s\s*\)\s*,\s*([^()]*)\)\s*;",
                             r"_mm256_or_si256\(_mm256_or_si256\(bitsA,bitsB\),_mm256_or_si256\(bitsC,bitsD\)\)")
    for nm in "0123":
        if not re.search(r"digit%s\s*=\s*_mm256_and_si256\s*\(\s*mask%s\s*,\s*vec\s*\)" % (nm, nm), es):
            raise core.GenError("encoding_avx2.c: encode_stride: digit%s = and(mask%s, vec) not found" % (nm, nm))
    c["stride_ops"] = lane_ops(es, "encode_stride", ["0", "1", "2", "3"],
                               r"mask%s\s*=\s*_mm256_set1_epi32\s*\(((?:[^()]|\([^()]*\))*)\)\s*;",
                               r"digit%s\s*=\s*_mm256_(slli|srli)_epi32\s*\(\s*digit%s\s*,\s*([^()]*)\)\s*;",
                               r"_mm256_or_si256\(_mm256_or_si256\(digit0,digit1\),_mm256_or_si256\(digit2,digit3\)\)")
    # decode(): which vector the stores read, in BOTH preprocessor configurations (with / without _mm256_extract_epi64)
    db = _function_body(src, "decode")
    m = re.search(r"(?:__m256i\s+)?(\w+)\s*=\s*pack_vec\s*\(\s*vec\s*\)\s*;", db)
    lo = re.search(r"_mm256_extracti128_si256\s*\(\s*(\w+)\s*,\s*([^()]*?)\s*\)", db)
    ext = re.search(r"#\s*ifdef\s+AWS_HAVE_MM256_EXTRACT_EPI64\s+uint64_t\s+hi\s*=\s*_mm256_extract_epi64\s*\(\s*(\w+)\s*,\s*([^()]*?)\s*\)\s*;\s*"
                    r"const\s+uint64_t\s*\*\s*p_hi\s*=\s*&hi\s*;\s*#\s*else\s+const\s+uint64_t\s*\*\s*p_hi\s*=\s*\(\s*uint64_t\s*\*\s*\)\s*&\s*(\w+)\s*\+\s*([^;]*?)\s*;\s*#\s*endif", db)
    st = re.search(r"_mm_storeu_si128\s*\(\s*\(__m128i\s*\*\)\s*out\s*,\s*lo\s*\)\s*;\s*memcpy\s*\(\s*out\s*\+\s*([^,]*?)\s*,\s*p_hi\s*,\s*sizeof\s*\(\s*\*p_hi\s*\)\s*\)\s*;", db)
    if not m or not lo or not ext or not st:
        raise core.GenError("encoding_avx2.c: decode(): pack_vec result / low-half extraction / high element (both #ifdef branches) / stores not in the expected form")
    packed = m.group(1)
    readers = {"_mm256_extracti128_si256": lo.group(1), "_mm256_extract_epi64 (#ifdef branch)": ext.group(1), "(uint64_t *)&… (#else branch)": ext.group(3)}
    for what, v in readers.items():
        if v != packed:
            raise core.GenError(f"encoding_avx2.c: decode(): {what} reads `{v}` but the packed vector is `{packed}`")
    if _const(lo.group(2)) != 0 or _const(ext.group(2)) != _const(ext.group(4)):
        raise core.GenError("encoding_avx2.c: decode(): the two configurations take different 64-bit elements / the low half is not half 0")
    c["dec_hi_elem"], c["dec_hi_off"] = _const(ext.group(2)), _const(st.group(1))
    # driver loops
    dd = _function_body(src, "aws_common_private_base64_decode_sse41")
    m = re.search(r"while\s*\(\s*len\s*(>=|>)\s*([^()]+?)\s*\)", dd)
    if not m:
        raise core.GenError("encoding_avx2.c: decode main loop condition not found")
    c["dec_loop_min"] = _const(m.group(2)) + (1 if m.group(1) == ">" else 0)
    m = re.search(r"memset\s*\(\s*tmp_in\s*,([^,]*),", dd)
    m2 = re.search(r"for\s*\(\s*int\s+i\s*=\s*0\s*;\s*i\s*<\s*([^;]+);\s*i\+\+\s*\)\s*\{\s*if\s*\(\s*tmp_in\s*\[\s*len\s*-\s*1\s*\]\s*==\s*([^)]*)\)", dd)
    m3 = re.search(r"tmp_in\s*\[\s*len\s*-\s*1\s*\]\s*=(?!=)\s*([^;]*);", dd)
    if not m or not m2 or not m3:
        raise core.GenError("encoding_avx2.c: decode tail (fill / padding strip) not in the expected form")
    c["dec_fill"], c["dec_strip_max"], c["dec_pad"], c["dec_pad_repl"] = _const(m.group(1)), _const(m2.group(1)), _const(m2.group(2)), _const(m3.group(1))
    ee = _function_body(src, "aws_common_private_base64_encode_sse41")
    m = re.search(r"while\s*\(\s*inlen\s*(>=|>)\s*([^()]+?)\s*\)", ee)
    m2 = re.search(r"stridelen\s*=\s*inlen\s*>\s*(\w+)\s*\?\s*(\w+)\s*:\s*inlen", ee)
    pads = re.findall(r"output\s*\[\s*outlen\s*-\s*(\d+)\s*\]\s*=\s*([^;]*);", ee)
    if not m or not m2 or len(pads) != 2 or m2.group(1) != m2.group(2):
        raise core.GenError("encoding_avx2.c: encode loops not in the expected form")
    c["enc_loop_min"] = _const(m.group(2)) + (1 if m.group(1) == ">" else 0)
    c["enc_stride"] = _const(m2.group(1))
    if sorted(int(a) for a, _ in pads) != [1, 2] or len({_const(b) for _, b in pads}) != 1:
        raise core.GenError("encoding_avx2.c: encode padding stores not in the expected form")
    c["enc_pad"] = _const(pads[0][1])
    for k, v in c.items():
        if k in ("pack_ops", "stride_ops"):
            if any(m >= 1 << 32 or n >= 32 for m, _, n in v):
                raise core.GenError(f"encoding_avx2.c: {k}: mask / shift outside a 32-bit lane")
            continue
        for x in (v if isinstance(v, list) else [v]):
            for y in (x if isinstance(x, tuple) else (x,)):
                if not 0 <= y <= 255:
                    raise core.GenError(f"encoding_avx2.c: constant {k}={y} does not fit a byte")
    return c


def regen_avx2():
    c = parse_avx2()
    trip = lambda l: "[" + ", ".join("(" + ", ".join(str(x) for x in t) + ")" for t in l) + "]"
    lst = lambda l: "[" + ", ".join(str(x) for x in l) + "]"
    body = ("/-! GENERATED by props/c05_gen.py from source/arch/intel/encoding_avx2.c of the tree under test on every run. Do not edit. -/\n"
            "namespace AwsVerif.Gen.CodecAvx2Consts\n\n"
            "/-- decode_vec: `translate_range(*in, lo, hi, offset)` calls -/\n"
            f"def decRanges : List (Nat × Nat × Nat) := {trip(c['dec_ranges'])}\n"
            "/-- decode_vec: `translate_exact(*in, match, decode)` calls -/\n"
            f"def decExact : List (Nat × Nat) := {trip(c['dec_exact'])}\n"
            "/-- decode_vec: the bias subtracted at the end, and the value that marks a failed lane -/\n"
            f"def decBias : Nat := {c['dec_bias']}\ndef decFail : Nat := {c['dec_fail']}\n"
            "/-- encode_chars: `translate_range(in, lo, hi, offset)` / `translate_exact(in, match, decode)` calls -/\n"
            f"def encRanges : List (Nat × Nat × Nat) := {trip(c['enc_ranges'])}\n"
            f"def encExact : List (Nat × Nat) := {trip(c['enc_exact'])}\n"
            "/-- pack_vec: `shufvec_buf` in memory order, `shuf32` with element 0 first -/\n"
            f"def decShufvec : List Nat := {lst(c['dec_shufvec'])}\ndef decShuf32 : List Nat := {lst(c['dec_shuf32'])}\n"
            "/-- encode_stride: `shufvec_buf` in memory order, `shuf32` with element 0 first -/\n"
            f"def encShufvec : List Nat := {lst(c['enc_shufvec'])}\ndef encShuf32 : List Nat := {lst(c['enc_shuf32'])}\n"
            "/-- decode(): the 64-bit element of the packed vector copied after the low 128 bits (the same in the configurations with and\n"
            "without _mm256_extract_epi64: both read the packed vector), and the output offset it is copied to -/\n"
            f"def decHiElem : Nat := {c['dec_hi_elem']}\ndef decHiOff : Nat := {c['dec_hi_off']}\n"
            "/-- pack_vec: for bitsA..bitsD `(mask, 1 = slli / 0 = srli, count)`; combined as (A|B)|(C|D) -/\n"
            f"def packOps : List (Nat × Nat × Nat) := {trip(c['pack_ops'])}\n"
            "/-- encode_stride: for digit0..digit3 `(mask, 1 = slli / 0 = srli, count)`; combined as (0|1)|(2|3) -/\n"
            f"def strideOps : List (Nat × Nat × Nat) := {trip(c['stride_ops'])}\n"
            "/-- aws_common_private_base64_decode_sse41: smallest `len` for which the vector loop runs, the fill character of tmp_in,\n"
            "how many trailing padding characters are stripped, the padding character and what replaces it -/\n"
            f"def decLoopMin : Nat := {c['dec_loop_min']}\ndef decFill : Nat := {c['dec_fill']}\ndef decStripMax : Nat := {c['dec_strip_max']}\n"
            f"def decPad : Nat := {c['dec_pad']}\ndef decPadRepl : Nat := {c['dec_pad_repl']}\n"
            "/-- aws_common_private_base64_encode_sse41: smallest `inlen` for which the full-vector loop runs, bytes per stride, padding character -/\n"
            f"def encLoopMin : Nat := {c['enc_loop_min']}\ndef encStride : Nat := {c['enc_stride']}\ndef encPad : Nat := {c['enc_pad']}\n\n"
            "end AwsVerif.Gen.CodecAvx2Consts\n")
    core.write_if_changed(OUT_AVX, body)
    return c
