"""C05 generated layer: tables and constants of /repo/source/encoding.c -> lean/AwsVerif/Gen/CodecTables.lean

Two independent extractions, cross-checked on every run:
  (1) text: `gcc -E -P` of encoding.c, then a small parser of the C initialisers
      (string literals with escapes, brace lists of integer/char literals, declared array size -> zero fill);
  (2) probe: a tiny program that `#include`s the current encoding.c (portable configuration) and prints the
      four objects as the compiler sees them, plus the static function s_hex_decode_char_to_int evaluated on
      all 256 arguments (a function on a 256-element domain, fully tabulated, *is* the function).
A disagreement between (1) and (2), or a source that neither can read, raises GenError.
"""
import hashlib, os, re, subprocess
from lib import core, cbuild

SRC = os.path.join(cbuild.REPO, "source", "encoding.c")
OUT = os.path.join(core.LEAN, "AwsVerif", "Gen", "CodecTables.lean")


def _pp():
    cmd = ["gcc", "-E", "-P"] + cbuild.DEFINES + cbuild.includes() + [SRC]
    r = subprocess.run(cmd, stdout=subprocess.PIPE, stderr=subprocess.PIPE, text=True)
    if r.returncode != 0:
        raise core.GenError("gcc -E failed on encoding.c: " + r.stderr[-400:])
    return r.stdout


_ESC = {"n": 10, "t": 9, "r": 13, "0": 0, "\\": 92, "'": 39, '"': 34, "a": 7, "b": 8, "f": 12, "v": 11}


def _c_string(body):
    out, i = [], 0
    while i < len(body):
        c = body[i]
        if c == "\\":
            i += 1
            e = body[i]
            if e == "x":
                m = re.match(r"[0-9a-fA-F]+", body[i + 1:])
                if not m:
                    raise core.GenError("bad \\x escape in string literal")
                out.append(int(m.group(0), 16) & 0xFF)
                i += 1 + len(m.group(0))
                continue
            if e in "01234567":
                m = re.match(r"[0-7]{1,3}", body[i:])
                out.append(int(m.group(0), 8) & 0xFF)
                i += len(m.group(0))
                continue
            if e not in _ESC:
                raise core.GenError("unknown escape \\%s in string literal" % e)
            out.append(_ESC[e])
            i += 1
            continue
        if ord(c) > 127:
            raise core.GenError("non-ASCII byte in string literal")
        out.append(ord(c))
        i += 1
    return out


def _c_int(tok):
    t = tok.strip()
    m = re.fullmatch(r"\(\s*(?:uint8_t|unsigned char|char)\s*\)\s*(.+)", t)
    if m:
        t = m.group(1).strip()
    if re.fullmatch(r"'(\\.|[^\\'])'", t):
        return _c_string(t[1:-1])[0]
    t2 = re.sub(r"[uUlL]+$", "", t)
    try:
        if re.fullmatch(r"0[xX][0-9a-fA-F]+", t2):
            return int(t2, 16)
        if re.fullmatch(r"0[0-7]*", t2):
            return int(t2, 8) if len(t2) > 1 else 0
        if re.fullmatch(r"[1-9][0-9]*", t2):
            return int(t2)
    except ValueError:
        pass
    raise core.GenError("initialiser element not an integer literal: %r" % tok)


def _strings(expr):
    """adjacent string literals -> bytes (without the terminating NUL)"""
    parts = re.findall(r'"((?:\\.|[^"\\])*)"', expr)
    if not parts or re.sub(r'"((?:\\.|[^"\\])*)"', "", expr).strip():
        raise core.GenError("expected string literal(s), found: " + expr[:80])
    out = []
    for p in parts:
        out += _c_string(p)
    return out


def parse_text():
    pp = _pp()
    t = {}
    m = re.search(r"static\s+const\s+(?:uint8_t|unsigned\s+char)\s*\*\s*HEX_CHARS\s*=\s*\(\s*const\s+(?:uint8_t|unsigned\s+char)\s*\*\s*\)\s*((?:\"(?:\\.|[^\"\\])*\"\s*)+);", pp)
    if not m:
        raise core.GenError("HEX_CHARS definition not found in the expected form")
    t["hex_chars"] = _strings(m.group(1)) + [0]
    m = re.search(r"static\s+const\s+(?:uint8_t|unsigned\s+char)\s+BASE64_SENTINEL_VALUE\s*=\s*([^;]+);", pp)
    if not m:
        raise core.GenError("BASE64_SENTINEL_VALUE not found")
    t["sentinel"] = _c_int(m.group(1))
    if not 0 <= t["sentinel"] <= 255:
        raise core.GenError("BASE64_SENTINEL_VALUE does not fit uint8_t")
    m = re.search(r"static\s+const\s+(?:uint8_t|unsigned\s+char)\s+BASE64_ENCODING_TABLE\s*\[\s*(\d*)\s*\]\s*=\s*([^;]+);", pp)
    if not m:
        raise core.GenError("BASE64_ENCODING_TABLE not found")
    init = m.group(2).strip()
    if init.startswith("{"):
        vals = [_c_int(x) for x in init.strip("{} \n").split(",") if x.strip()]
    else:
        vals = _strings(init)
        if not m.group(1) or int(m.group(1)) > len(vals):
            vals = vals + [0]            # the terminating NUL is part of the array
    if m.group(1):
        n = int(m.group(1))
        if len(vals) > n:
            raise core.GenError("BASE64_ENCODING_TABLE: more initialisers than elements")
        vals += [0] * (n - len(vals))
    t["enc"] = vals
    m = re.search(r"static\s+const\s+(?:uint8_t|unsigned\s+char)\s+BASE64_DECODING_TABLE\s*\[\s*(\d*)\s*\]\s*=\s*\{([^}]*)\}\s*;", pp)
    if not m:
        raise core.GenError("BASE64_DECODING_TABLE not found")
    vals = [_c_int(x) for x in m.group(2).split(",") if x.strip()]
    n = int(m.group(1)) if m.group(1) else len(vals)
    if len(vals) > n:
        raise core.GenError("BASE64_DECODING_TABLE: more initialisers than elements")
    vals += [0] * (n - len(vals))        # static storage: missing elements are zero
    if any(not 0 <= v <= 255 for v in vals):
        raise core.GenError("BASE64_DECODING_TABLE element outside uint8_t")
    if n != 256:
        raise core.GenError("BASE64_DECODING_TABLE has %d elements; the decoder indexes it with an unsigned char" % n)
    t["dec"] = vals
    return t, pp


PROBE = r"""
#include "%s"
#include <stdio.h>
int main(void) {
    printf("sentinel %%u\n", (unsigned)BASE64_SENTINEL_VALUE);
    printf("enc");
    for (size_t i = 0; i < sizeof(BASE64_ENCODING_TABLE); ++i) printf(" %%u", (unsigned)BASE64_ENCODING_TABLE[i]);
    printf("\ndec");
    for (size_t i = 0; i < sizeof(BASE64_DECODING_TABLE); ++i) printf(" %%u", (unsigned)BASE64_DECODING_TABLE[i]);
    printf("\nhex_chars");
    for (size_t i = 0; i < 17; ++i) printf(" %%u", (unsigned)HEX_CHARS[i]);
    printf("\nhex_to_num");
    for (int c = 0; c < 256; ++c) {
        uint8_t v = 0xEE;
        int rc = s_hex_decode_char_to_int((char)(unsigned char)c, &v);
        printf(" %%u", rc ? 255u : (unsigned)v);
        if (!rc && v >= 16) { printf("\nBAD value %%u for %%d\n", (unsigned)v, c); return 3; }
    }
    printf("\n");
    return 0;
}
"""


def run_probe(pp):
    key = hashlib.sha256((pp + PROBE).encode()).hexdigest()[:16]
    d = os.path.join(cbuild.CACHE, "c05probe-" + key)
    res = os.path.join(d, "out.txt")
    if not os.path.exists(res):
        os.makedirs(d, exist_ok=True)
        src = os.path.join(d, "probe.c")
        with open(src, "w") as f:
            f.write(PROBE % SRC)
        exe = os.path.join(d, "probe")
        cmd = ["gcc", "-std=gnu99", "-O0", "-w", "-DNDEBUG"] + cbuild.DEFINES + cbuild.includes() + \
              ["-ffunction-sections", "-fdata-sections", src, "-o", exe, "-Wl,--gc-sections"]
        r = subprocess.run(cmd, stdout=subprocess.PIPE, stderr=subprocess.STDOUT, text=True)
        if r.returncode != 0:
            raise core.GenError("table probe does not compile against the current encoding.c: " + r.stdout[-600:])
        r = subprocess.run([exe], stdout=subprocess.PIPE, stderr=subprocess.STDOUT, text=True, timeout=20)
        if r.returncode != 0:
            raise core.GenError("table probe failed: " + r.stdout[-300:])
        with open(res + ".tmp", "w") as f:
            f.write(r.stdout)
        os.replace(res + ".tmp", res)
    out = {}
    for line in open(res):
        p = line.split()
        if p:
            out[p[0]] = [int(x) for x in p[1:]]
    for k in ("sentinel", "enc", "dec", "hex_chars", "hex_to_num"):
        if k not in out:
            raise core.GenError("table probe output incomplete: " + k)
    return out


def _lean_list(name, doc, vals, per=16):
    rows = []
    for i in range(0, len(vals), per):
        rows.append("  " + ", ".join(str(v) for v in vals[i:i + per]))
    return f"/-- {doc} -/\ndef {name} : List UInt8 := [\n" + ",\n".join(rows) + "]\n"


def regen(ctx=None):
    t, pp = parse_text()
    p = run_probe(pp)
    if t["sentinel"] != p["sentinel"][0] or t["enc"] != p["enc"] or t["dec"] != p["dec"] or t["hex_chars"] != p["hex_chars"]:
        raise core.GenError("translator self-check: tables parsed from the source text differ from what the compiler sees")
    if len(p["hex_to_num"]) != 256:
        raise core.GenError("hex probe incomplete")
    body = ("/-! GENERATED by props/c05_gen.py from source/encoding.c of the tree under test on every run. Do not edit. -/\n"
            "namespace AwsVerif.Gen.CodecTables\n\n" +
            _lean_list("base64EncodingTable", "`BASE64_ENCODING_TABLE[]` (65 elements: the string literal and its NUL)", t["enc"]) + "\n" +
            _lean_list("base64DecodingTable", "`BASE64_DECODING_TABLE[256]`", t["dec"]) + "\n" +
            _lean_list("hexChars", "`HEX_CHARS` (string literal and its NUL)", t["hex_chars"]) + "\n" +
            _lean_list("hexToNum", "`s_hex_decode_char_to_int((char)c, &v)` for c = 0..255: v, or 255 where it returns AWS_OP_ERR", p["hex_to_num"]) + "\n" +
            f"/-- `BASE64_SENTINEL_VALUE` -/\ndef base64Sentinel : UInt8 := {t['sentinel']}\n\n"
            "end AwsVerif.Gen.CodecTables\n")
    core.write_if_changed(OUT, body)
    return t, p
