"""C14 — logging delivers every accepted line exactly once, whole and in order."""
import os, re, time, subprocess, hashlib
from concurrent.futures import ThreadPoolExecutor
from lib.core import Case, GenError, write_if_changed, LEAN
from lib import cbuild, core, detsched
from gen import log_gen, cfun

ID = "C14"
LEAN_MODULES = ["AwsVerif.Props.C14"]
COMPONENT = "logline"
DRIVER_EXE = "awslog"   # own executable: the model imports a function translated from the source on every run
P_DIFF_CONCRETE = False   # the direct oracle decides what contradicts the property; a model/implementation difference alone is conformance drift
HARNESS = dict(name="logline", flavour="asan", ldflags=["-Wl,--wrap=clock_gettime", "-Wl,--wrap=pthread_self"])
TIMEOUT = 900
NOT_PROVED = []
TRUSTED = ["hand model lean/AwsVerif/Model/Log.lean (formatter control flow, gate, pipeline, channel transition systems; tied by the correspondence runs only)",
           "translator gen/cfun.py + gen/log_gen.py for s_advance_and_clamp_index, the size constants, level names and format literals (regenerated every run)",
           "harness/logline.c (frozen clock via --wrap=clock_gettime; every `env` runs on a fresh thread whose pthread_self is pinned via --wrap=pthread_self, the id text itself is computed and cached by the library), harness/logbg.c, harness/detsched.c",
           "snprintf/strftime length semantics as stated in Model/Log.lean (snprintf, timestamp)"]
ASSUMPTIONS = ["timestamp and thread-id text come from libc/pthreads: parameters of the model (NUL-free, newline-free)",
               "every segment shorter than 2^31 bytes and total_length < 2^64 (int / size_t ranges)",
               "interleavings are sequentially consistent and switch at synchronisation operations only; senders do not call send concurrently with or after clean-up in the implementation runs (the model allows it)",
               "|timestamp| <= AWS_DATE_TIME_STR_MAX_LEN and |thread id| < AWS_THREAD_ID_T_REPR_BUFSZ for the default formatter's size computation"]
RULE = ("op files over aws_format_standard_log_line (total_length 2..300 exhaustively per configuration, boundaries around the prefix "
        "and message end, 8192/9000-byte buffers), the no-alloc logger (message lengths 0..9000) and a pipeline logger (all 7 levels x 7 filter "
        "settings, level stores interleaved, failing channel); non-trivial = at least one line produced; distinct by op-file hash. "
        "Background channel: seeded detsched schedules (1-4 senders, 0-6 lines each, clean-up at a random point, recording writer failing every "
        "k-th write), each replayed on the Lean transition system; foreground channel and the no-alloc logger shared by 1-4 threads under the "
        "same scheduler (oracle only), all behind a sink whose every k-th write fails and which then works again (library file writer / "
        "fwrite of the no-alloc logger); pipeline logger with a writer failing on scheduled calls; subject lists of assorted sizes registered "
        "as exact-size heap arrays, subject ids at first-1, first, last, last+1, last+2, in unregistered slots and beyond all slots, lists "
        "unregistered again; no logger installed (null logger); a formatter that succeeds without a line; loggers and file writers opened "
        "by file NAME over two lifetimes (append vs truncate, descriptors closed); aws_log_writer_init_file argument shapes; level names "
        "both ways in assorted case; aws_logger_init_standard shared by threads under the scheduler")

LEVELS = [b"NONE", b"FATAL", b"ERROR", b"WARN", b"INFO", b"DEBUG", b"TRACE"]
DATE_FMTS = ["%a, %d %b %Y %H:%M:%S GMT", "%Y-%m-%dT%H:%M:%SZ", "%Y%m%dT%H%M%SZ"]
STRIDE, PACKAGE_SLOTS = 1024, 32
COMMON_SUBJECTS = [b"aws-c-common", b"task-scheduler", b"thread", b"memtrace", b"xml-parser", b"common-io", b"bus", b"test",
                   b"json-parser", b"cbor"]      # the library's own list in slot 0 (declared to the model by `subjects 0 …`)


def spec_subject_name(registry, sid):
    """independent statement of aws_log_subject_name: the registered entry for first <= id < first + count of a registered
    slot, "Unknown" for every other id"""
    slot, idx = divmod(sid, STRIDE)
    if slot < PACKAGE_SLOTS and slot in registry and idx < len(registry[slot]):
        return registry[slot][idx]
    return b"Unknown"


def subjects_ops(rng):
    """registration ops for a case: the library's slot 0 and 1-3 harness lists of assorted sizes"""
    registry = {0: COMMON_SUBJECTS}
    for slot in rng.sample(range(1, PACKAGE_SLOTS), rng.randint(1, 3)):
        count = rng.choice([1, 1, 2, 3, 5, 8, 17])
        registry[slot] = [None if rng.random() < 0.12 else       # an entry registered with a NULL name
                          bytes(rng.choice(b"abcdefghijklmnopqrstuvwxyz-") for _ in range(rng.choice([0, 1, 4, 15, 15, 40, 101])))
                          for _ in range(count)]
    ops = [f"subjects {slot} " + " ".join(hx(n) for n in names) for slot, names in registry.items()]
    return ops, registry


def subject_ids(rng, registry):
    """ids around every registered list (first-1, first, last, last+1 = count, last+2, end of the slot), in unregistered
    slots and beyond all slots"""
    ids = []
    for slot, names in registry.items():
        base = slot * STRIDE
        ids += [base, base + len(names) - 1, base + len(names), base + len(names) + 1, base + STRIDE - 1,
                base + rng.randrange(len(names)), base + rng.randrange(len(names))]
        ids += [base + i for i, n in enumerate(names) if n is None]      # entries registered with a NULL name
        if base:
            ids.append(base - 1)
    free = [k for k in range(PACKAGE_SLOTS) if k not in registry]
    ids += [rng.choice(free) * STRIDE + rng.choice([0, 1, 7]), PACKAGE_SLOTS * STRIDE - 1, PACKAGE_SLOTS * STRIDE,
            PACKAGE_SLOTS * STRIDE + 3, 99999, (1 << 32) - 1]
    return ids


NOALLOC = 8192          # DESIGN 5.14; the oracle uses the value the source has now (regen), boundaries are generated around both
_state = {}


def noalloc_cap():
    return _state.get("consts", {}).get("MAXIMUM_NO_ALLOC_LOG_LINE_SIZE", NOALLOC)



def regen(ctx):
    try:
        text, meta = log_gen.generate(cbuild.REPO, cbuild.config_include())
    except cfun.GenError as e:
        raise GenError(str(e))
    write_if_changed(os.path.join(LEAN, "AwsVerif", "Gen", "LogClamp.lean"), text)
    _state["consts"] = meta["consts"]


def hx(b):
    if b is None:
        return "NULL"      # a NULL name pointer (subject lists)
    return b.hex() if b else "-"


def unhx(s):
    return b"" if s == "-" else bytes.fromhex(s)


def pattern(n):
    return bytes(48 + (i * 7 + n) % 75 for i in range(n))


def msg_of(n, shape):
    if shape == 4 and n != 0:
        return b"0" * (n - 1) + b"7"
    return pattern(n)


def ts_texts(secs):
    g = time.gmtime(secs)
    return [time.strftime(f, g).encode() for f in DATE_FMTS]


def env_op(rng, secs=None, tid=None):
    if secs is None:
        secs = rng.choice([0, 1, 951782400, 1790462482, rng.randint(0, 17_000_000_000), rng.randint(0, 4_000_000_000)])
    if tid is None:
        # the id text is what the library prints for the pthread_t the harness pins for this case's thread: 16 hex digits
        r = rng.random()
        v = (0x7f0000000000 + rng.getrandbits(40)) if r < 0.6 else rng.choice([0, 1, (1 << 64) - 1, rng.getrandbits(64), rng.getrandbits(64)])
        tid = ("%016x" % v).encode()
    ts = ts_texts(secs)
    return f"env {secs} {hx(tid)} {hx(ts[0])} {hx(ts[1])} {hx(ts[2])}", tid, ts


def prefix_of(level, ts, tid, subject):
    """independent statement of the line prefix (DESIGN 5.14): [LEVEL] [timestamp] [thread-id] [subject] - """
    p = b"[" + LEVELS[level] + b"] [" + ts + b"] [" + tid + b"] "
    if subject is not None:
        p += b"[" + subject + b"]"
    return p + b" - "


def rand_subject(rng):
    r = rng.random()
    if r < 0.2:
        return None
    if r < 0.3:
        return b""
    if r < 0.8:
        return rng.choice([b"aws-c-common", b"s", b"harness-subject", b"task-scheduler"])
    return bytes(rng.choice(b"abcxyz-_.:/ []%") for _ in range(rng.randint(1, 120)))


def subj_tok(s):
    return "null" if s is None else hx(s)


def other_thread(rng, e):
    """a second `env` for the same case: same instant, another thread (the harness runs what follows on a fresh thread
    with this id) - lines of a second thread of the process must carry ITS id"""
    t = e.split()
    tid = ("%016x" % (0x7f0000000000 + rng.getrandbits(40))).encode()
    if hx(tid) == t[2]:
        tid = b"00007f0000000001"
    return env_op(rng, secs=int(t[1]), tid=tid)[0]


def gen_fmt_exhaustive(rng, level, tier):
    e, tid, ts = env_op(rng)
    subject = rand_subject(rng)
    df = rng.choice([0, 1, 1, 2])
    msg_len = rng.choice([0, 1, 5, 17, 40, 100, 250, 400])
    shape = rng.randint(0, 4)
    ops = [e] + [f"fmt {t} {level} {subj_tok(subject)} {msg_len} {df} {shape}" for t in range(2, 301)]
    ops += [other_thread(rng, e)] + [f"fmt {t} {level} {subj_tok(subject)} {msg_len} {df} {shape}" for t in sorted(rng.sample(range(2, 301), 30))]
    return Case(ops, {"stream": "fmt-exhaustive", "level": level})


def gen_fmt_boundary(rng):
    e, tid, ts = env_op(rng)
    ops = [e]
    for it in range(12):
        if it == 6:
            ops.append(other_thread(rng, e))     # same text lengths, another thread
        level = rng.randint(0, 6)
        subject = rand_subject(rng)
        df = rng.choice([0, 1, 2])
        msg_len = rng.choice([0, 1, 2, 3, rng.randint(0, 40), rng.randint(0, 300)])
        shape = rng.randint(0, 4)
        p = len(prefix_of(level, ts[df], tid, subject))
        ends = sorted({max(0, x) for x in list(range(p - 3, p + 5)) + list(range(p + msg_len - 2, p + msg_len + 6)) +
                       [len(LEVELS[level]) + 4 + len(ts[df]) + k for k in (-1, 0, 1, 2, 3)]})
        for t in ends:
            ops.append(f"fmt {t} {level} {subj_tok(subject)} {msg_len} {df} {shape}")
    return Case(ops, {"stream": "fmt-boundary"})


def gen_fmt_big(rng, n):
    e, tid, ts = env_op(rng)
    ops = [e]
    for _ in range(n):
        level = rng.randint(0, 6)
        subject = rand_subject(rng)
        df = rng.choice([0, 1, 2])
        total = rng.choice([NOALLOC, NOALLOC, 9000, 8191, 8193, 4096, 1000, 20000, rng.randint(300, 9500)])
        p = len(prefix_of(level, ts[df], tid, subject))
        msg_len = rng.choice([0, 9000, 8999, max(0, total - p - 2), max(0, total - p - 1), max(0, total - p - 3), max(0, total - p),
                              rng.randint(0, 9000), rng.randint(max(0, total - p - 20), total)])
        ops.append(f"fmt {total} {level} {subj_tok(subject)} {msg_len} {df} {rng.randint(0, 4)}")
    return Case(ops, {"stream": "fmt-big"})


def gen_fmt_malformed(rng):
    e, tid, ts = env_op(rng)
    ops = [e]
    for _ in range(40):
        r = rng.random()
        level, df, total = rng.randint(0, 6), rng.choice([0, 1, 2]), rng.randint(2, 400)
        if r < 0.3:
            level = rng.choice([7, 8, 9, 100])
        elif r < 0.6:
            df = rng.choice([3, 4, 7])
        elif r < 0.9:
            total = rng.choice([0, 1])
        else:
            level, total = 7, 0
        ops.append(f"fmt {total} {level} {subj_tok(rand_subject(rng))} {rng.randint(0, 50)} {df} {rng.randint(0, 4)}")
    return Case(ops, {"stream": "fmt-malformed"})


def log_op(rng, which, level, registry, msg_len=None, how=None):
    sid = rng.choice(subject_ids(rng, registry))
    name = spec_subject_name(registry, sid)
    if msg_len is None:
        msg_len = rng.choice([0, 1, rng.randint(0, 60), rng.randint(0, 60), rng.randint(0, 400)])
    how = how or rng.choice(["macro", "cond"])
    shape = rng.randint(0, 4)
    if which == "n":
        return f"noalloc {level} {sid} {hx(name)} {msg_len} {shape} {how}"
    return f"pipe {which} {level} {sid} {hx(name)} {msg_len} {shape} {how}"


def wfail_op(rng, horizon):
    """the recording writer fails on these call ordinals (counted from the case start)"""
    ks = sorted({rng.randint(0, horizon) for _ in range(rng.randint(1, 6))} | ({0} if rng.random() < 0.3 else set()))
    return "wfail " + " ".join(str(k) for k in ks)


def gen_gate_exhaustive(rng, which):
    e, tid, ts = env_op(rng)
    sops, reg = subjects_ops(rng)
    ops = [e] + sops + [f"init {which} {rng.randint(0, 6)}"]
    if which == "a" and rng.random() < 0.7:
        ops.append(wfail_op(rng, 25))
    for f in range(7):
        if f == 3:
            ops.append(other_thread(rng, e))
        ops.append(f"setlevel {which} {f}")
        for l in range(7):
            ops.append(log_op(rng, which, l, reg))
    return Case(ops, {"stream": "gate-exhaustive", "logger": which})


def gen_noalloc_sweep(rng, lens):
    e, tid, ts = env_op(rng)
    sops, reg = subjects_ops(rng)
    ops = [e] + sops + ["init n 6"]
    for j, n in enumerate(lens):
        if j == len(lens) // 2:
            ops.append(other_thread(rng, e))
        ops.append(log_op(rng, "n", rng.randint(0, 6), reg, n))
    return Case(ops, {"stream": "noalloc-sweep"})


def gen_pipe_random(rng, n):
    e, tid, ts = env_op(rng)
    sops, reg = subjects_ops(rng)
    ops = [e] + sops
    have = set()
    for it in range(n):
        if it == n // 2:
            ops.append(other_thread(rng, e))
        r0 = rng.random()
        if r0 < 0.05:
            ops.append(f"nologger {rng.randint(0, 6)} {rng.randint(0, 40)}")     # no logger installed: the null logger
            continue
        if r0 < 0.09:
            ops.append("strlevel " + hx(level_text(rng)))
            continue
        if r0 < 0.11:
            ops.append(f"levelname {rng.choice([0, 1, 2, 3, 4, 5, 6, 6, 7, 8, 100])}")
            continue
        if r0 < 0.14 and len(reg) > 1:
            slot = rng.choice([k for k in reg if k != 0])
            ops.append(f"unsubjects {slot}")           # its ids answer "Unknown" from now on
            del reg[slot]
            continue
        w = rng.choice("aabnc")
        if w not in have:
            ops.append(f"init {w} {rng.choice([0, 1, 2, 3, 4, 5, 6, 6, 9])}" + (f" {rng.choice([0, 1, 2])}" if w in "ab" and rng.random() < 0.5 else ""))
            have.add(w)
            continue
        r = rng.random()
        if r < 0.08:
            ops.append(wfail_op(rng, 20) if rng.random() < 0.85 else "wfail -")
        elif r < 0.25:
            ops.append(f"setlevel {w} {rng.choice([0, 1, 2, 3, 4, 5, 6, 7, 100])}")
        else:
            big = rng.random() < 0.08
            ops.append(log_op(rng, w, rng.choice([0, 1, 2, 3, 4, 5, 6, 6, 7, 8]), reg,
                              rng.choice([8999, 9000, 8192, rng.randint(8000, 8200), rng.randint(0, 9000)]) if big else None))
    return Case(ops, {"stream": "pipe-random"})


def level_text(rng):
    """texts for aws_string_to_log_level: the names in assorted case, near misses, junk"""
    name = rng.choice(LEVELS)
    r = rng.random()
    if r < 0.3:
        return name
    if r < 0.6:
        return bytes(c ^ 0x20 if rng.random() < 0.5 else c for c in name)
    if r < 0.7:
        return name[:-1]
    if r < 0.8:
        return name + rng.choice([b"X", b" ", b"S"])
    if r < 0.85:
        return b""
    return bytes(rng.choice(b"ACEFGINORTUW[]") for _ in range(rng.randint(1, 6)))


def gen_files(rng):
    """loggers opened by file NAME, two lifetimes on one file; level names both ways"""
    e, tid, ts = env_op(rng)
    ops = [e, "subjects 0 " + " ".join(hx(n) for n in COMMON_SUBJECTS)]
    for _ in range(3):
        ops.append(f"filelog {rng.choice('wn')} {rng.randint(1, 3)} {rng.randint(1, 6)}")
    ops += [f"writerinit {k}" for k in (0, 1, 2, 3)] + [f"initfail {k}" for k in "snw"]
    ops += [f"levelname {l}" for l in range(8)] + ["strlevel " + hx(n) for n in LEVELS] + ["strlevel " + hx(n.lower()) for n in LEVELS]
    ops += ["strlevel " + hx(level_text(rng)) for _ in range(6)]
    return Case(ops, {"stream": "files-and-level-names"})


def gen_subject_boundaries(rng):
    """every boundary id of every registered list (and of the subject space) through the pipeline and the no-alloc logger"""
    e, tid, ts = env_op(rng)
    sops, reg = subjects_ops(rng)
    # one more list that certainly has NULL-named entries (first, middle, last)
    slot = rng.choice([k for k in range(1, PACKAGE_SLOTS) if k not in reg])
    reg[slot] = [None, b"named", None, b"x", None][:rng.choice([1, 3, 5])]
    sops.append(f"subjects {slot} " + " ".join(hx(n) for n in reg[slot]))
    ops = [e] + sops + ["init a 6", "init n 6"]
    for sid in sorted(set(subject_ids(rng, reg))):
        name = spec_subject_name(reg, sid)
        ops.append(f"pipe a {rng.randint(0, 6)} {sid} {hx(name)} {rng.randint(0, 30)} {rng.randint(0, 4)} {rng.choice(['macro', 'cond'])}")
        ops.append(f"noalloc {rng.randint(0, 6)} {sid} {hx(name)} {rng.randint(0, 30)} {rng.randint(0, 4)} {rng.choice(['macro', 'cond'])}")
    return Case(ops, {"stream": "subject-boundaries"})


def noalloc_lens(rng, tier):
    # the line is prefix + msg + "\n" in 8192 bytes: boundary at msg_len = 8190 - |prefix| (prefix 52..200 bytes)
    s = {0, 1, 2, 8999, 9000, 8190, 8191, 8192, 8193}
    s |= set(range(7970, 8150, 1 if tier == "thorough" else 7))
    s |= set(range(8150, 8200, 1 if tier == "thorough" else 5))
    s |= {rng.randint(0, 9000) for _ in range(20 if tier == "quick" else 400)}
    if tier == "thorough":
        s |= set(range(0, 9001, 13))
    return sorted(s)


def gen_cases(rng, tier):
    cases = []
    q = tier == "quick"
    for level in range(7):
        for _ in range(6 if q else 40):
            cases.append(gen_fmt_exhaustive(rng, level, tier))
    cases += [gen_fmt_boundary(rng) for _ in range(400 if q else 6000)]
    cases += [gen_fmt_big(rng, 6) for _ in range(80 if q else 1500)]
    cases += [gen_fmt_malformed(rng) for _ in range(8 if q else 60)]
    for w in "abn":
        cases += [gen_gate_exhaustive(rng, w) for _ in range(3 if q else 20)]
    lens = noalloc_lens(rng, tier)
    for i in range(0, len(lens), 12):
        cases.append(gen_noalloc_sweep(rng, lens[i:i + 12]))
    cases += [gen_subject_boundaries(rng) for _ in range(40 if q else 600)]
    cases += [gen_files(rng) for _ in range(16 if q else 200)]
    cases += [gen_pipe_random(rng, 40) for _ in range(400 if q else 6000)]
    return cases


# ------------------------------------------------------------------------------------------------ direct oracle
def check_line_shape(line, cap, full, where, errs, tid=None):
    """clauses of the property on one produced line: inside a buffer of `cap` bytes (with its terminator), ends in a single
    newline, no NUL, complete when it fits, otherwise a cut of the full line"""
    if tid is not None and tid in full:
        off = full.index(b"] [" + tid + b"] ") + 3
        got = line[off:off + len(tid)]
        if len(line) - 1 >= off + len(tid) and got != tid and line[:off] == full[:off]:
            errs.append(f"{where}: the line's thread-id field is {got!r} but the calling thread's id is {tid!r}")
            return
    if len(line) + 1 > cap:
        errs.append(f"{where}: {len(line)} bytes + terminator do not fit the {cap}-byte buffer")
    if not line.endswith(b"\n"):
        errs.append(f"{where}: line does not end in a newline (last bytes {line[-4:].hex()})")
    if b"\n" in line[:-1]:
        errs.append(f"{where}: newline inside the line")
    if b"\0" in line:
        errs.append(f"{where}: NUL byte inside the line at offset {line.index(0)}")
    if len(full) + 1 <= cap:
        if line != full:
            errs.append(f"{where}: buffer is large enough but the line is not prefix+message+newline ({len(line)} bytes, expected {len(full)})")
    elif not full[:-1].startswith(line[:-1]):
        errs.append(f"{where}: truncated line is not a cut of the full line")


def oracle(case, lines):
    errs = []
    li = 0

    def nxt():
        nonlocal li
        l = lines[li] if li < len(lines) else None
        li += 1
        return l
    tid, ts = None, None
    level_of = {}
    df_of = {}
    registry = {}
    for op in case.ops:
        t = op.split()
        if t[0] == "env":
            l = nxt()
            if l is None or not l.startswith("W env "):
                return errs + [f"{op}: no environment line"]
            kv = dict(x.split("=") for x in l.split()[2:])
            tid, ts = unhx(kv["tid"]), [unhx(kv["ts0"]), unhx(kv["ts1"]), unhx(kv["ts2"])]
            if tid != unhx(t[2]):
                errs.append(f"{op}: the id text of the thread whose pthread_t is 0x{unhx(t[2]).decode()} is {tid!r} "
                            "(aws_thread_id_t_to_string: two hex digits per byte, most significant first)")
            for x in [tid] + ts:
                if b"\0" in x or b"\n" in x:
                    return []   # environment text outside the model's assumptions: nothing to check
            continue
        if tid is None:
            nxt()
            continue
        if t[0] == "fmt":
            total, level, msg_len, df, shape = int(t[1]), int(t[2]), int(t[4]), int(t[5]), int(t[6])
            subject = None if t[3] == "null" else unhx(t[3])
            l = nxt()
            if l is None or not l.startswith("P fmt rc="):
                errs.append(f"{op}: no result line"); break
            ok = l.startswith("P fmt rc=OK")
            valid = level < 7 and df in (0, 1, 2) and total >= 2
            if ok:
                ln = nxt()
                line = unhx(ln.split()[2]) if ln and ln.startswith("P line ") else None
                if line is None:
                    errs.append(f"{op}: success without a line"); break
                kv = dict(x.split("=") for x in l.split()[3:])
                if not valid:
                    errs.append(f"{op}: accepted although the arguments are invalid")
                else:
                    if int(kv["amount"]) != len(line) or int(kv["amount"]) > total - 1:
                        errs.append(f"{op}: amount_written {kv['amount']} outside the buffer of {total}")
                    if kv["nul"] != "1":
                        errs.append(f"{op}: no terminator at amount_written")
                    full = prefix_of(level, ts[df], tid, subject) + msg_of(msg_len, shape) + b"\n"
                    check_line_shape(line, total, full, op, errs, tid)
            elif valid:
                # the one documented rejection: the timestamp does not fit behind the level tag
                if len(LEVELS[level]) + 4 + len(ts[df]) <= total - 2:
                    errs.append(f"{op}: rejected ({l}) although level tag and timestamp fit")
            c = nxt()
            if c != "P canary ok":
                errs.append(f"{op}: {c}")
            continue
        if t[0] == "init":
            level_of[t[1]] = int(t[2])
            df_of[t[1]] = int(t[3]) if len(t) > 3 else 1
            continue
        if t[0] == "initfail":
            l = nxt()
            if l != "P initfail rc=ERR live=0 fds=0":
                errs.append(f"{op}: init on a file name that cannot be opened: `{l}`, expected an error with nothing kept (live=0 fds=0)")
            continue
        if t[0] == "wfail":
            continue
        if t[0] == "unsubjects":
            if nxt() is not None:
                registry.pop(int(t[1]), None)
            continue
        if t[0] == "nologger":
            l = nxt()
            if l != "P nologger lines=0 level=0":
                errs.append(f"{op}: no logger is installed, yet: {l}")
            continue
        if t[0] == "strlevel":
            l = nxt()
            txt = unhx(t[1])
            want = [i for i, n in enumerate(LEVELS) if n.lower() == txt.lower()]
            exp = f"P strlevel rc=OK level={want[0]}" if want else "P strlevel rc=AWS_ERROR_INVALID_ARGUMENT"
            if l != exp:
                errs.append(f"{op}: aws_string_to_log_level({txt!r}) gives `{l}`, expected `{exp}`")
            continue
        if t[0] == "levelname":
            l = nxt()
            k = int(t[1])
            exp = f"P levelname rc=OK {hx(LEVELS[k])}" if k < 7 else "P levelname rc=AWS_ERROR_INVALID_ARGUMENT"
            if l != exp:
                errs.append(f"{op}: aws_log_level_to_string({k}) gives `{l}`, expected `{exp}`")
            continue
        if t[0] == "writerinit":
            l = nxt()
            exp = "P writerinit rc=OK" if t[1] in ("1", "2") else "P writerinit rc=AWS_ERROR_INVALID_ARGUMENT fds=0"
            if l is None or not l.startswith(exp) or not l.endswith("fds=0"):
                errs.append(f"{op}: aws_log_writer_init_file with {['neither name nor FILE', 'a name', 'a FILE', 'both a name and a FILE'][int(t[1])]}: `{l}`, expected `{exp}…fds=0`")
            continue
        if t[0] == "filelog":
            l = nxt()
            if l is None or not l.startswith("P filelog "):
                errs.append(f"{op}: no result"); break
            kv = dict(x.split("=") for x in l.split()[2:])
            kind, k, level = t[1], int(t[2]), int(t[3])
            got = []
            for _ in range(int(kv["lines"])):
                ln = nxt()
                got.append(unhx(ln.split()[2]) if ln and ln.startswith("P line ") else b"")
            while li < len(lines) and lines[li].startswith("P MONITOR"):
                errs.append(f"{op}: {nxt()}")
            # the file writer appends to an existing log; the no-alloc logger starts its file anew
            rounds = [0, 1] if kind == "w" else [1]
            want = [prefix_of(level, ts[1], tid, spec_subject_name(registry, 0)) + pattern(3 + j + 5 * r) + b"\n" for r in rounds for j in range(k)]
            if len(got) != len(want):
                errs.append(f"{op}: the file holds {len(got)} line(s), expected {len(want)}"
                            + (" (lines of the first logger lifetime lost?)" if kind == "w" and len(got) < len(want) else ""))
            elif got != want:
                j = next(i for i in range(len(got)) if got[i] != want[i])
                errs.append(f"{op}: line {j} of the file is {got[j][:70]!r}…, expected {want[j][:70]!r}…")
            if kv["fds"] != "0":
                errs.append(f"{op}: {kv['fds']} file descriptor(s) left open after both loggers were cleaned up")
            continue
        if t[0] == "subjects":
            l = nxt()
            if l is not None and l.startswith("W subjects"):
                registry[int(t[1])] = [None if x == "NULL" else unhx(x) for x in t[2:]]
            continue
        if t[0] == "setlevel":
            l = nxt()
            if t[1] in level_of:
                level_of[t[1]] = int(t[2])
                if l != "P setlevel OK":
                    errs.append(f"{op}: {l}")
            continue
        if t[0] in ("pipe", "noalloc"):
            which = t[1] if t[0] == "pipe" else "n"
            b = 2 if t[0] == "pipe" else 1
            level, sid, msg_len, shape = int(t[b]), int(t[b + 1]), int(t[b + 3]), int(t[b + 4])
            subject = spec_subject_name(registry, sid)     # the op's hex is the generator's note of the same
            l = nxt()
            if which not in level_of:
                continue
            if l is None or not l.startswith("P log lines="):
                errs.append(f"{op}: no result line"); break
            kv = dict(x.split("=") for x in l.split()[2:])
            k = int(kv["lines"])
            got = []
            for _ in range(k):
                ln = nxt()
                got.append(unhx(ln.split()[2]) if ln and ln.startswith("P line ") else b"")
            while li < len(lines) and lines[li].startswith("P MONITOR"):
                errs.append(f"{op}: {nxt()}")
            accepted = level_of[which] >= level and level < 7
            want = 1 if accepted and which not in ("b", "c") else 0
            if k != want:
                errs.append(f"{op}: {k} line(s) reached the writer, expected {want} (logger level {level_of[which]}, call level {level})")
            if kv["live"] != "0":
                errs.append(f"{op}: {kv['live']} allocation(s) outstanding after the call (line not destroyed exactly once"
                            + (", writer reported a failure" if kv.get("werr", "0") != "0" else "") + ")")
            for line in got[:1]:
                if want:
                    full = prefix_of(level, ts[df_of.get(which, 1)], tid, subject) + msg_of(msg_len, shape) + b"\n"
                    cap = noalloc_cap() if which == "n" else len(full) + 1
                    check_line_shape(line, cap, full, op, errs, tid)
            continue
        nxt()
    return errs[:8]


def classify(case, detail):
    return None


def nontrivial(case):
    return any(o.startswith(("fmt", "pipe", "noalloc")) for o in case.ops)


def distribution(cases, c_out):
    d = {"fmt": 0, "pipe": 0, "noalloc": 0, "setlevel": 0, "fmt_ok": 0, "fmt_rejected": 0, "fmt_truncated": 0, "lines_from_loggers": 0,
         "calls_filtered": 0, "max_total": 0, "max_msg": 0, "streams": {}}
    for i, c in enumerate(cases):
        s = c.tags.get("stream", "corpus")
        d["streams"][s] = d["streams"].get(s, 0) + 1
        for o in c.ops:
            t = o.split()
            if t[0] in d:
                d[t[0]] += 1
            if t[0] == "fmt":
                d["max_total"] = max(d["max_total"], int(t[1])); d["max_msg"] = max(d["max_msg"], int(t[4]))
            if t[0] == "noalloc":
                d["max_msg"] = max(d["max_msg"], int(t[4]))
        totals = [int(o.split()[1]) for o in c.ops if o.startswith("fmt ")]
        k = 0
        for l in c_out.get(i, []):
            if l.startswith("P fmt rc="):
                tot = totals[k] if k < len(totals) else 0
                k += 1
                if l.startswith("P fmt rc=OK") and int(l.split("amount=")[1].split()[0]) == tot - 1:
                    d["fmt_truncated"] += 1     # the line filled the buffer: cut (or exact fit)
            if l.startswith("P fmt rc=OK"):
                d["fmt_ok"] += 1
            elif l.startswith("P fmt rc="):
                d["fmt_rejected"] += 1
            elif l.startswith("P log lines=1"):
                d["lines_from_loggers"] += 1
                d["writer_failures"] = d.get("writer_failures", 0) + (0 if l.endswith("werr=0") else 1)
            elif l.startswith("P log lines=0"):
                d["calls_filtered"] += 1
    return d


# ------------------------------------------------------------------------------------------------ background channel under detsched
BG_HARNESS = dict(name="logbg", flavour="asan", ldflags=detsched.LDFLAGS,
                  # log_channel.c compiled again from /repo with its two queue operations as schedule points
                  extra_srcs=[detsched.SRC,
                              (os.path.join(cbuild.REPO, "source", "log_channel.c"),
                               ["-include", os.path.join(cbuild.VERIF, "harness", "verif_logchan.h"), "-DUSE_SIMD_ENCODING"], "log_channel_sched")])


def bg_run_lines(rng, n):
    out = []
    for i in range(n):
        senders = rng.choice([1, 2, 2, 2, 3, 3, 4])
        lines = rng.choice([0, 1, 2, 3, 3, 4, 6])
        r = rng.random()
        # 1: drain before clean-up, 2: foreground channel, 3: no-alloc logger shared by the threads
        quiesce = 1 if r < 0.15 else (2 if r < 0.3 else (3 if r < 0.45 else (4 if r < 0.55 else 0)))   # 4: aws_logger_init_standard
        wfail = rng.choice([0, 0, 1, 2, 3, 4]) if quiesce != 4 else 0     # every k-th write to the sink fails, the sink then works again
        delay = rng.choice([0, rng.randint(0, 10), rng.randint(0, 60), rng.randint(0, 150)])
        out.append(f"run {i} {senders} {lines} {delay} {quiesce} {wfail} seed {rng.getrandbits(32)} {rng.choice([0, 30, 70, 90])} {rng.choice([0, 0, 50, 200])}")
    return out


def bg_execute(exe, run_lines):
    """-> {run id: [output lines]} ; a run that deadlocks ends its process, the rest is run in a fresh one"""
    res, todo = {}, list(run_lines)
    abnormal = 0
    while todo and abnormal < 8:      # a tree on which every run crashes must not cost a process start per run
        rc, out, _ = core.run_stream([exe], "\n".join(todo) + "\n", 90,
                                     {"ASAN_OPTIONS": "detect_leaks=0:abort_on_error=0"})
        cur = None
        for l in out.splitlines():
            if l.startswith("run "):
                cur = l.split()[1]; res[cur] = []
            elif cur is not None:
                res[cur].append(l)
        done = set(res)
        rest = [r for r in todo if r.split()[1] not in done]
        if rc != 0:
            abnormal += 1
        if rc not in (0, 3) and cur is not None:
            res[cur].append(f"CRASH rc={rc} " + out[-1500:].replace("\n", " | "))
        if len(rest) == len(todo):
            break
        todo = rest
    return res


def na_text(i, k):
    return (f"T{i} N{k} payload " + "".join(chr(97 + (i * 3 + k + j) % 26) for j in range(3 + (i * 11 + k * 5) % 60))).encode()


_na_line = re.compile(rb"^\[(INFO|ERROR)\] \[1970-01-01T00:00:01Z\] \[([0-9a-f]*)\] \[aws-c-common\] - T(\d+) N(\d+) payload [a-z]*$")


def na_oracle(cfg, lines):
    """no-alloc logger shared by several threads: exactly one whole line per accepted call in the file, none for
    filtered calls, nothing lost / duplicated / torn, each thread's lines in its call order and with its own thread id"""
    errs = []
    accepted, filtered, content, tids, failed, sink_failures = {}, [], None, {}, [], None
    for l in lines:
        if l.startswith("CRASH"):
            errs.append("implementation crashed / sanitizer report: " + l[:600])
        elif l.startswith("O MONITOR"):
            errs.append("harness monitor: " + l[2:])
        elif l.startswith("O tid "):
            t = l.split()
            tids[int(t[2][1:])] = t[3].encode()
        elif l.startswith("O logged "):
            t = l.split()
            key = (int(t[2][1:]), int(t[3]))
            if t[5] == "rc=OK":
                accepted[key] = (t[4].encode(), tids.get(key[0], b"?"))
            else:
                failed.append(key)      # the logger reported a write failure for this call: its line must not be in the file
        elif l.startswith("O filtered "):
            t = l.split()
            filtered.append((int(t[2][1:]), int(t[3])))
        elif l.startswith("O sink "):
            sink_failures = int(l.split("failures=")[1].split()[0])
        elif l.startswith("F "):
            content = unhx(l[2:])
        elif l.startswith("R "):
            kv = dict(x.split("=", 1) for x in l.split()[1:] if "=" in x)
            if kv.get("rc") != "0":
                errs.append("deadlock / livelock: " + l)
            elif kv.get("live_blocks") != "0" or kv.get("misuse") != "0":
                errs.append("allocator imbalance or mutex misuse: " + l)
    if content is None:
        return errs + ["run did not finish"]
    if sink_failures is not None and sink_failures != len(failed):
        errs.append(f"{len(failed)} call(s) reported a write failure but the sink refused {sink_failures} write(s)")
    if len(set(tids.values())) != len(tids):
        errs.append(f"harness: thread ids are not distinct: {tids}")
    if b"\0" in content:
        errs.append(f"NUL byte in the log file at offset {content.index(0)}")
    if content and not content.endswith(b"\n"):
        errs.append("log file does not end in a newline (torn last line)")
    seen, last = {}, {}
    for n, ln in enumerate(content.split(b"\n")[:-1] if content else []):
        m = _na_line.match(ln)
        if not m:
            errs.append(f"line {n} of the file is not a whole log line: {ln[:80]!r}")
            continue
        key = (int(m.group(3)), int(m.group(4)))
        if key not in accepted:
            errs.append(f"line {n}: call {key} was {'filtered' if key in filtered else ('reported as failed' if key in failed else 'never made')} but is in the file")
            continue
        lvl, tid = accepted[key]
        if ln.split(b" - ", 1)[1] != na_text(*key) or m.group(1) != lvl:
            errs.append(f"line {n}: message of call {key} is not complete / not its own: {ln[-60:]!r}")
        if m.group(2) != tid:
            errs.append(f"line {n}: call {key} was made by the thread with id {tid.decode()} but its line carries thread id {m.group(2).decode()}")
        seen[key] = seen.get(key, 0) + 1
        if key[0] in last and last[key[0]] > key[1]:
            errs.append(f"thread {key[0]}: line {key[1]} after line {last[key[0]]} (call order not preserved)")
        last[key[0]] = max(last.get(key[0], -1), key[1])
    for key in accepted:
        if seen.get(key, 0) != 1:
            errs.append(f"accepted call {key} has {seen.get(key, 0)} line(s) in the file, expected exactly one")
    return errs


def bg_oracle(cfg, lines):
    """property clauses on the observables of one implementation run (O/R lines only)"""
    crash = [l for l in lines if l.startswith("CRASH")]
    if crash:
        return ["implementation crashed / sanitizer report: " + crash[0][:600]]
    try:
        return _bg_oracle(cfg, lines)
    except Exception as e:      # output mangled by something the run did (closed stream, stray bytes)
        return [f"output of the run cannot be read ({type(e).__name__}: {e}); last lines: " + " | ".join(lines[-3:])[:300]]


def _bg_oracle(cfg, lines):
    if cfg.split()[5] in ("3", "4"):
        return na_oracle(cfg, lines)
    errs = []
    foreground = cfg.split()[5] == "2"
    sent, written, destroyed = [], [], []
    returned = False
    tids = {}
    for l in lines:
        if l.startswith("CRASH"):
            errs.append("implementation crashed / sanitizer report: " + l[:600])
        if l.startswith("O MONITOR"):
            errs.append("harness monitor: " + l[2:])
        elif l.startswith("O tid "):
            tids[l.split()[2]] = l.split()[3]
        elif l.startswith("O sink "):
            if not l.endswith("match=1"):
                errs.append("the sink behind the file writer does not hold exactly the lines whose write succeeded: " + l[2:])
        elif l.startswith("O sent "):
            key = tuple(l.split()[2:4])
            sent.append(key)
            if foreground and (key not in written or key not in destroyed):
                errs.append(f"foreground channel: send of {key} returned before the line was written and destroyed")
        elif l.startswith("O write "):
            t = l.split()
            key = (t[2], t[3])
            if t[4] != "intact=1":
                errs.append(f"line {key} reached the writer torn, not as [INFO] [time] [thread id] [subject] - message, or after its release")
            elif len(t) > 5 and t[5] != "tid=" + tids.get(key[0], "?"):
                errs.append(f"line {key} was logged by the thread with id {tids.get(key[0], '?')} but carries thread id {t[5][4:]}")
            if key in written:
                errs.append(f"line {key} written twice")
            if key in sent and foreground:
                errs.append(f"foreground channel: line {key} written after its send returned")
            prev = [int(k) for (s, k) in written if s == key[0]]
            if prev and int(key[1]) < max(prev):
                errs.append(f"sender {key[0]}: line {key[1]} written after line {max(prev)} (send order not preserved)")
            if returned:
                errs.append(f"line {key} written after clean-up returned")
            written.append(key)
        elif l.startswith("O destroy "):
            key = tuple(l.split()[2:4])
            if key in destroyed:
                errs.append(f"line {key} destroyed twice")
            if key not in written:
                errs.append(f"line {key} destroyed before it was written")
            destroyed.append(key)
        elif l.startswith("O cleanup-returned"):
            returned = True
            missing = [k for k in sent if k not in written]
            if missing:
                errs.append(f"clean-up returned but {len(missing)} accepted line(s) were never written, e.g. {missing[0]}")
            if set(destroyed) != set(written):
                errs.append("clean-up returned with written lines not destroyed")
        elif l.startswith("R "):
            kv = dict(x.split("=", 1) for x in l.split()[1:] if "=" in x)
            if kv.get("rc") == "1":
                errs.append("deadlock: " + l)
            elif kv.get("rc") == "2":
                errs.append("livelock watchdog: " + l)
            else:
                if kv.get("live_lines") != "0":
                    errs.append(f"{kv.get('live_lines')} line(s) never destroyed")
                if kv.get("live_blocks") != "0":
                    errs.append(f"allocator imbalance: {kv.get('live_blocks')} block(s) outstanding after clean-up")
                if kv.get("misuse") != "0":
                    errs.append("mutex/condvar misuse reported by the scheduler")
                if not returned:
                    errs.append("clean-up never returned")
    if not any(l.startswith("R ") for l in lines):
        errs.append("run did not finish")
    for key in written:
        if key not in sent:
            errs.append(f"line {key} reached the writer but no send of it ever returned")
    return errs


def bg_model_ops(lines):
    """scheduler events of the implementation run -> ops for `awsmodel logbg`, and the P/W lines the model must print"""
    ops, exp = [], []
    cleaning = False
    for l in lines:
        if l.startswith("O "):
            t = l.split()
            if t[1] == "sent":
                ops.append(f"ev {t[2]} returned"); exp.append(f"P sent {t[2]} {t[3]}")
            elif t[1] == "destroy":
                exp.append(f"P {t[1]} {t[2]} {t[3]}")
            elif t[1] == "write":
                exp.append(f"P write {t[2]} {t[3]}")
            elif t[1] == "cleanup-returned":
                exp.append("P " + l[2:])
            elif t[1] == "quiescent":
                ops.append("quiescent"); exp.append("W " + l[2:])
            continue
        if not l.startswith("E "):
            continue
        _, _, th, kind, obj, aux = l.split()
        th = int(th[1:])
        if th == 1:
            if kind in ("lock", "unlock", "wait", "wake", "exit", "spurious"):
                ops.append(f"ev c {kind}")
            elif kind == "yield" and aux == "3":
                ops.append("ev c write")
            elif kind == "yield" and aux == "4":
                ops.append("ev c destroy")
            elif (kind == "yield" and aux == "8") or kind == "atomic":
                pass        # schedule point inside the sink / at a queue operation (harness): no step of the channel protocol
            elif kind != "start":
                ops.append(f"ev c unexpected-{kind}")
        elif th >= 2:
            if kind == "yield" and aux == "2":
                ops.append(f"ev s{th - 2} send")
            elif kind in ("lock", "signal", "unlock"):
                ops.append(f"ev s{th - 2} {kind}")
            elif not (kind in ("start", "exit", "atomic") or (kind == "yield" and aux in ("1", "8"))):
                ops.append(f"ev s{th - 2} unexpected-{kind}")
        else:
            if kind == "yield" and aux == "5":
                cleaning = True; ops.append("ev k clean")
            elif cleaning and kind in ("lock", "signal", "unlock"):
                ops.append(f"ev k {kind}")
            elif cleaning and kind == "join" and obj == "t1":
                cleaning = False; ops.append("ev k join")
            elif cleaning and kind != "atomic":
                ops.append(f"ev k unexpected-{kind}")
    return ops, exp


def bg_stage(ctx, run_lines=None, label="seeded"):
    exe = cbuild.build_harness(**BG_HARNESS)
    if run_lines is None:
        run_lines = bg_run_lines(ctx.rng, 12000 if ctx.tier == "quick" else 300000)
    jobs = 8
    chunks = [run_lines[k::jobs] for k in range(jobs) if run_lines[k::jobs]]
    res = {}
    with ThreadPoolExecutor(jobs) as ex:
        for r in ex.map(lambda c: bg_execute(exe, c), chunks):
            res.update(r)
    by_id = {r.split()[1]: r for r in run_lines}
    # model replay: one case per run
    model = os.path.join(LEAN, ".lake", "build", "bin", "awslog")
    ids = sorted(res, key=int)
    mres = {}
    have_model = ctx.lean_ok is not False and os.path.exists(model)
    expected = {}
    if have_model:
        def mrun(idc):
            txt = []
            for i in idc:
                if by_id[i].split()[5] in ("2", "3", "4"):
                    continue      # foreground-channel and no-alloc-logger runs: oracle only
                try:
                    ops, exp = bg_model_ops(res[i])
                except Exception:
                    ops, exp = ["unreadable-run"], ["(unreadable)"]
                expected[i] = exp
                txt.append(f"case {i}")
                txt += ops
            rc, out, _ = core.run_stream([model, "logbg"], "\n".join(txt) + "\n", 600)
            return core._split_cases(out)
        mchunks = [ids[k::jobs] for k in range(jobs) if ids[k::jobs]]
        with ThreadPoolExecutor(jobs) as ex:
            for r in ex.map(mrun, mchunks):
                mres.update(r)
    stats = {"runs": len(res), "events": 0, "writes": 0, "spurious": 0, "validated_on_model": 0, "quiesce_runs": 0,
             "max_threads": 0, "cleanup_with_lines_in_flight": 0}
    reported = 0
    drift = None
    for i in ids:
        lines = res[i]
        stats["events"] += sum(1 for l in lines if l.startswith("E "))
        stats["writes"] += sum(1 for l in lines if l.startswith("O write"))
        stats["spurious"] += sum(1 for l in lines if " spurious " in l)
        stats["quiesce_runs"] += any(l.startswith("O quiescent") for l in lines)
        stats["max_threads"] = max(stats["max_threads"], int(by_id[i].split()[2]) + 2)
        lines = [l for l in lines if l.strip()]
        # clean-up called while lines were still pending or being written
        seen_clean = False
        for l in lines:
            f = l.split()
            if l.startswith("E ") and len(f) == 6 and f[2] == "t0" and f[3] == "yield" and f[5] == "5":
                seen_clean = True
            elif seen_clean and l.startswith("O write"):
                stats["cleanup_with_lines_in_flight"] += 1
                break
        errs = bg_oracle(by_id[i], lines)
        sched = next((l[2:] for l in lines if l.startswith("S")), "")
        t = by_id[i].split()
        picks = sched.split()
        replay_line = f"run 0 {t[2]} {t[3]} {t[4]} {t[5]} {t[6]} list {len(picks)} " + " ".join(picks)
        if errs and reported < 3:
            ctx.violation(f"bg-{ctx.seed}-{i}", {"bg_run": by_id[i], "bg_replay": replay_line.strip(), "clause": errs[:5],
                                                "observables": [l for l in lines if l.startswith(("O ", "R "))][-60:]},
                          {"2": "foreground channel", "3": "no-alloc logger shared by threads", "4": "standard logger (aws_logger_init_standard) shared by threads"}.get(by_id[i].split()[5], "background channel")
                          + " (implementation run under the deterministic scheduler): " + errs[0])
            reported += 1
            continue
        if by_id[i].split()[5] == "2":
            stats["foreground_runs"] = stats.get("foreground_runs", 0) + 1
        elif by_id[i].split()[5] == "3":
            stats["noalloc_logger_runs"] = stats.get("noalloc_logger_runs", 0) + 1
        elif by_id[i].split()[5] == "4":
            stats["standard_logger_runs"] = stats.get("standard_logger_runs", 0) + 1
        elif have_model and not errs:
            got = [l for l in mres.get(i, []) if l.startswith(("P ", "W ")) or l == "bad-op"]
            exp = expected.get(i, [])
            if got == exp:
                stats["validated_on_model"] += 1
            elif drift is None:
                d = core.first_diff(exp, got)
                drift = (i, d, replay_line.strip())
    if drift and not ctx.violations:
        i, d, rl = drift
        ctx.violation(f"bg-drift-{ctx.seed}-{i}", {"bg_run": by_id[i], "bg_replay": rl, "stream": "scheduler events replayed on Log.Bg",
                                                    "first_difference": {"line": d[0], "implementation": d[1], "model": d[2]}},
                      f"background channel no longer follows the modelled protocol (implementation `{d[1]}` vs model `{d[2]}`); "
                      "no property-level failing schedule found in this run", no_input=True)
    ctx.cov["evaluations"] += len(res)
    ctx.cov["traces_validated_against_impl"] = ctx.cov.get("traces_validated_against_impl", 0) + stats["validated_on_model"]
    ctx.cov.setdefault("distribution", {})["background_channel_" + label] = stats
    ctx.cov["samples"].append(run_lines[0] if run_lines else "")
    if len(res) < len(run_lines) and not ctx.violations:
        ctx.machinery_broken(f"background-channel stage: {len(run_lines) - len(res)} run(s) produced no output")
    return stats


def extra_stages(ctx):
    ok, out = detsched.selftest("asan") if ctx.tier == "thorough" else (True, "")
    if not ok:
        ctx.machinery_broken("detsched self-test failed: " + out[-800:])
        return
    bg_stage(ctx)


def replay(ctx, obj):
    if "bg_replay" in obj:
        exe = cbuild.build_harness(**BG_HARNESS)
        for key in ("bg_replay", "bg_run"):
            res = bg_execute(exe, [obj[key]])
            for i, lines in res.items():
                print(f"--- {key}: {obj[key][:120]}")
                for l in lines:
                    if l.startswith(("O ", "R ")):
                        print("   ", l)
                errs = bg_oracle(obj[key], lines)
                print("    oracle:", errs or "clean")
                if errs:
                    ctx.violation(f"bg-replay-{ctx.seed}", {"bg_run": obj["bg_run"], "bg_replay": obj["bg_replay"], "clause": errs[:5]},
                                  "background channel: " + errs[0])
                    return
        bg_stage(ctx, [obj["bg_replay"], obj["bg_run"].replace("run " + obj["bg_run"].split()[1], "run 1", 1)], label="replay")
    else:
        print("replay file carries neither an op list nor a schedule:")
        print(str(obj)[:2000])


MANIFEST = dict(
    category="proof",
    design_ref="5.14",
    text=("Lean 4 theorems over a byte-level model of aws_format_standard_log_line (snprintf/strftime length semantics stated once; "
          "s_advance_and_clamp_index, the size constants, level names and format literals re-translated from /repo on every run): "
          "exact line shape when the buffer suffices, and for every total_length >= 2 either the documented rejection (timestamp does "
          "not fit) or a newline-terminated, NUL-free cut of the full line inside the buffer; the default formatter's allocation always "
          "suffices; level gate and level stores; and, over every interleaving of the background channel's transition system (senders, "
          "consumer thread, clean-up, spurious wake-ups): FIFO partition of sent lines into written/batch/pending, per-sender order, single "
          "destruction, nothing written after clean-up returns, flush of everything accepted before clean-up, absence of deadlock and of "
          "lost wake-ups; a failing writer does not change ownership (line destroyed exactly once, call succeeds); the no-alloc logger used by "
          "any number of threads writes exactly the lines the calls formatted (per-call buffer), once each, in call order per thread, a failed "
          "fwrite never leaving its mutex locked; the subject lookup (integer skeleton regenerated from logging.c) never reads behind a "
          "registered list and answers Unknown exactly outside first..first+count-1. Tied to /repo by differential runs of the compiled model against the formatter, the no-alloc logger and a "
          "pipeline logger (frozen clock, all levels x filters, total_length 2..300 exhaustively, messages 0..9000 bytes) with a direct "
          "oracle, and by running the real background channel with 1-4 sender threads under a deterministic scheduler (link-time "
          "interposition of pthread calls), every run's synchronisation events being replayed step by step on the Lean transition system."),
    note=("Trusted: Lean kernel; hand-written model Model/Log.lean (tied by correspondence only); translator for the generated pieces; "
          "harnesses and detsched. Timestamp and thread-id text are parameters (libc/pthreads); sequentially consistent interleavings "
          "switching at synchronisation operations only; sends overlapping clean-up are covered by the theorems but not run "
          "(they would be a use-after-free by the caller)."),
    technique="Lean 4 proofs (byte-level invariant; inductive invariants over all interleavings) + regenerated definitions + model/implementation differential runs + deterministic-scheduler trace validation",
)
