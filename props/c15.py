"""C15 — ring buffer never hands out overlapping memory, in every interleaving."""
import os
from lib import core
from lib.core import Case, GenError, write_if_changed
from lib import cbuild
from gen import ring_gen, cfun

ID = "C15"
LEAN_MODULES = ["AwsVerif.Props.C15"]
COMPONENT = "ring"
P_DIFF_CONCRETE = False   # success-vs-OOM where the property does not force success is conformance, the oracle decides violations
HARNESS = dict(
    name="ring", flavour="asan",
    # ring_buffer.c compiled from /repo with every atomic access a schedule point
    extra_srcs=[(os.path.join(cbuild.REPO, "source", "ring_buffer.c"),
                 ["-include", os.path.join(cbuild.VERIF, "harness", "ring_atomics.h"), "-DUSE_SIMD_ENCODING"], "ring_buffer_sched")],
)
TRUSTED = ["hand model lean/AwsVerif/Model/Ring.lean (tied by this correspondence run only)",
           "translator gen/ring_gen.py for aws_ring_buffer_is_valid / aws_ring_buffer_check_atomic_ptr / aws_ring_buffer_is_empty (ring_buffer.inl) and for s_buf_belongs_to_pool and the single tail store of aws_ring_buffer_release (source/ring_buffer.c), regenerated every run",
           "harness/ring_atomics.h: force-included macros turning __atomic_load_n / __atomic_store_n into schedule points that also report the memory order"]
ASSUMPTIONS = ["atomics are sequentially consistent (x86-64); one acquirer thread, one releaser releasing in acquisition order",
               "minimum_size <= requested_size for acquire_up_to (API precondition)"]
RULE = ("op sequences over one ring (sizes 1..64): acq/upto with k releases injected between the acquirer's tail load "
        "and head load, rel; non-trivial = at least one successful acquire while >=1 buffer outstanding and one wrap or injected release")


def regen(ctx):
    """the validity predicate of ring_buffer.inl, s_buf_belongs_to_pool and the release store of ring_buffer.c -> lean/AwsVerif/Gen/RingValid.lean
    (c15_is_valid_holds, c15_is_empty_iff, c15_outstanding_belong, c15_release_is_tail_store are about them)"""
    try:
        text = ring_gen.generate(cbuild.REPO, cbuild.config_include())
    except cfun.GenError as e:
        raise GenError(str(e))
    write_if_changed(os.path.join(core.LEAN, "AwsVerif", "Gen", "RingValid.lean"), text)


HUGE = ["MAX", "MAX-1", "MAX-7", "MAX-31", "MAX-63", "HALF", "HALF+1", "4294967296", "4294967295"]
SIZE_MAX = 2 ** 64 - 1


def psize(tok):
    """sizes as the harness / driver read them: decimal, MAX, MAX-k, HALF, HALF+k"""
    for name, base in (("MAX", SIZE_MAX), ("HALF", SIZE_MAX // 2)):
        if tok.startswith(name):
            rest = tok[len(name):]
            return base + (int(rest) if rest else 0)
    return int(tok)


def _sizes(rng, n):
    r = rng.random()
    if r < 0.06:
        return rng.choice(HUGE)      # address arithmetic on such a request must not wrap: it is simply refused
    if r < 0.15:
        return rng.choice([1, n, n + 1, max(1, n - 1), 0])
    if r < 0.6:
        return rng.randint(1, max(1, n // 3))
    return rng.randint(1, n + 1)


def gen_case(rng, maxops):
    n = rng.choice([1, 2, 3, 4, 5, 7, 8, 13, 16, 31, 64])
    ops = [f"init {n}"]
    outstanding = 0  # upper bound only; harness/model clamp
    for _ in range(rng.randint(1, maxops)):
        r = rng.random()
        k, p = 0, 0
        if rng.random() < 0.45:
            k = rng.randint(1, 3)
            p = rng.choice([0, 1, 1, 2, 2, 3, 4])   # before which atomic access of the call the releaser runs
        # dest = the caller's handle of a live buffer (the library's tests do this for requests expected to fail)
        live = f" live{rng.choice([0, 1, 1, 2])}" if (k == 0 and rng.random() < 0.2) else ""
        if r < 0.4:
            ops.append(f"acq {k} {p} {_sizes(rng, n)}{live}")
        elif r < 0.65:
            q = _sizes(rng, n)
            if isinstance(q, str):
                m = rng.choice([q, q, "1", str(n), str(n + 1), "HALF"])     # huge requested size, minimum huge or small
                if psize(m) > psize(q):
                    m = q
                ops.append(f"upto {k} {p} {m} {q}{live}")
                continue
            m = rng.randint(0 if rng.random() < 0.05 else 1, max(1, q)) if q > 0 else 0
            ops.append(f"upto {k} {p} {min(m, q)} {q}{live}")
        else:
            ops.append("rel")
    return Case(ops, {"n": n})


def alias_case(rng):
    """the aliasing idiom: wrap the ring, ask for more than the gap before the tail with the handle of a live, not-oldest
    buffer as dest (must be refused and must not touch the handle), acquire into the gap, release in order (through that
    handle), acquire twice more; then drain and ask for the full capacity"""
    n = rng.choice([4, 6, 8, 12, 16, 24, 32])
    a = rng.randint(max(1, n // 3), n - 1)          # first buffer [0,a)
    b = n - a                                        # second [a,n): the ring is full to its very end
    c = rng.randint(1, a - 1) if a > 1 else 1        # after releasing the first: [0,c) wraps, gap = a - c - 1
    gap = max(0, a - c - 1)
    form = rng.choice(["upto", "upto", "acq"])
    want = gap + rng.randint(1, 2)
    ops = [f"init {n}", f"acq 0 0 {a}", f"acq 0 0 {b}", "rel", f"acq 0 0 {c}"]
    if form == "upto":
        ops.append(f"upto 0 0 {want} {want + rng.randint(0, 2)} live1")
    else:
        ops.append(f"acq 0 0 {want} live1")
    ops.append("rel")
    d = rng.randint(1, max(1, b // 2))
    ops += [f"upto 0 0 1 {d}", f"upto 0 0 1 {max(1, b // 2)}", "rel",
            f"acq 0 0 {rng.randint(1, n)}", f"upto 0 0 {rng.randint(1, 3)} {rng.randint(3, n + 1)}"]
    ops += ["rel"] * 6 + [f"acq 0 0 {n}"]
    return Case(ops, {"n": n, "alias_idiom": True})


def huge_case(rng):
    """a request within a few bytes of SIZE_MAX (or 2^63, 2^32) in every ring state - empty, unwrapped with the oldest buffer
    released (tail < head), wrapped - for both acquire forms; it must be refused and leave everything as it was"""
    n = rng.choice([4, 8, 16, 33, 64])
    a = rng.randint(1, n // 2)
    b = rng.randint(1, n // 2 - 1) if n // 2 > 1 else 1
    big = rng.choice(["MAX", f"MAX-{rng.randint(1, 63)}", f"MAX-{rng.randint(1, 63)}", "HALF", "HALF+1", "4294967296"])

    def ask():
        f = rng.random()
        if f < 0.5:
            return f"acq 0 0 {big}"
        if f < 0.75:
            return f"upto 0 0 {big} {big}"
        return f"upto 0 0 {rng.randint(1, n + 1)} {big}"
    ops = [f"init {n}", ask(), f"acq 0 0 {a}", f"acq 0 0 {b}", ask(), "rel", ask(), f"acq 0 0 1", f"upto 0 0 1 {n}", "rel", ask(),
           f"acq 0 0 {max(1, n - a - b)}", "rel", ask(), f"acq 0 0 {a}", ask(), "rel", "rel", "rel", "rel", ask(), f"acq 0 0 {n}"]
    return Case(ops, {"n": n, "huge": True})


def exhaustive_cases(n, depth):
    """all op sequences of the given length over a ring of n bytes (sizes 1..n+1, k in 0..2)"""
    alphabet = ["rel", "acq 0 0 MAX", "acq 0 0 MAX-15", "upto 0 0 MAX MAX", "upto 0 0 1 MAX", f"upto 0 0 {n} HALF+1"]
    for q in range(1, n + 2):
        for (k, p) in ((0, 0), (1, 1), (1, 2), (2, 1), (2, 3)):
            alphabet.append(f"acq {k} {p} {q}")
    for q in range(1, n + 2):
        for m in range(1, min(q, n) + 1):
            for (k, p) in ((0, 0), (1, 1), (1, 2)):
                alphabet.append(f"upto {k} {p} {m} {q}")
    out = []
    def rec(prefix, d):
        if d == 0:
            out.append(Case([f"init {n}"] + prefix, {"n": n, "exhaustive": True}))
            return
        for a in alphabet:
            rec(prefix + [a], d - 1)
    rec([], depth)
    return out


def gen_cases(rng, tier):
    cases = [gen_case(rng, 40) for _ in range(3000 if tier == "quick" else 60000)]
    cases += [alias_case(rng) for _ in range(400 if tier == "quick" else 5000)]
    cases += [huge_case(rng) for _ in range(400 if tier == "quick" else 5000)]
    cases += exhaustive_cases(2, 3) + exhaustive_cases(3, 2)
    if tier == "thorough":
        cases += exhaustive_cases(3, 3) + exhaustive_cases(4, 3)
    return cases


def oracle(case, lines):
    """direct oracle on the implementation's output only: replays offsets/lengths and checks the
    property clauses (inside ring, pairwise disjoint from outstanding, size rule, empty => success)"""
    errs = ["harness monitor: " + l for l in lines if l.startswith("P MONITOR clean_up")]
    lines = [l for l in lines if not l.startswith("P MONITOR clean_up")]
    n = None
    out = []  # FIFO of (off,len)
    li = 0
    def nxt():
        nonlocal li
        l = lines[li] if li < len(lines) else None
        li += 1
        return l
    for op in case.ops:
        t = op.split()
        def valid_line():
            l = nxt()
            if l != "P valid=1":
                errs.append(f"{op}: aws_ring_buffer_is_valid() does not hold in this reachable state: `{l}`")
            l = nxt()
            if l != f"P empty={0 if out else 1}":
                errs.append(f"{op}: aws_ring_buffer_is_empty() reports `{l}` with {len(out)} buffer(s) outstanding")
        if t[0] in ("init", "initbig"):
            n = psize(t[1]); out = []
            valid_line()
            continue
        if t[0] == "rel":
            if out:
                out.pop(0)
            l = nxt()
            if l is not None and l.startswith("W relorder="):
                l = nxt()
            if l != f"P outstanding={len(out)}":
                errs.append(f"outstanding count after rel: {l}")
            valid_line()
            continue
        if n is None:
            return []
        k, p = int(t[1]), int(t[2])
        if t[0] == "acq":
            lo = hi = psize(t[3])
        else:
            lo, hi = psize(t[3]), psize(t[4])
        valid_args = lo > 0 and hi > 0
        def do_rels():
            for _ in range(k):
                if out:
                    out.pop(0)
        if valid_args and p == 0:
            do_rels()                     # the releaser ran before the acquirer's first load
        seen = list(out)                  # what was outstanding when the acquirer sampled the tail
        if valid_args and p > 0:
            do_rels()
        l = nxt()
        if l is None or not l.startswith("W ev="):
            errs.append(f"missing event line: {l}"); break
        l = nxt()
        if l is None:
            errs.append("missing output"); break
        if l.startswith("P acq OK"):
            ln = int(l.split("len=")[1])
            w = nxt()
            off = int(w.split("off=")[1])
            if li < len(lines) and lines[li].startswith("P MONITOR"):
                errs.append("harness monitor: " + nxt())
            bl = nxt()
            if bl != "P belongs=100":
                errs.append(f"{op}: aws_ring_buffer_buf_belongs_to_pool(granted, foreign, straddling the end) = `{bl}`, expected 1,0,0")
            if not (lo <= ln <= hi) or ln == 0:
                errs.append(f"{op}: returned length {ln} not in [{lo},{hi}]")
            if off + ln > n:
                errs.append(f"{op}: buffer [{off},{off+ln}) outside ring of {n}")
            for (o2, l2) in out:
                if off < o2 + l2 and o2 < off + ln:
                    errs.append(f"{op}: buffer [{off},{off+ln}) overlaps outstanding [{o2},{o2+l2})")
            out.append((off, ln))
        else:
            # failure: when nothing was outstanding at the tail load any request <= ring must succeed
            if not seen and valid_args and lo <= n and hi >= lo:
                errs.append(f"{op}: refused although nothing outstanding and minimum {lo} <= ring {n}")
            l2 = nxt()
            if l2 != "P dest_untouched=1":
                errs.append(f"{op}: the refused request wrote to *dest (`{l2}`): a caller's live handle passed as dest is clobbered")
            if not valid_args:
                do_rels()
        l = nxt()
        if l != f"P outstanding={len(out)}":
            errs.append(f"outstanding count: {l} expected {len(out)}")
        valid_line()
    return errs


def _debug_cases(rng):
    """slice for the DEBUG_BUILD flavour (the library's own pre/post-conditions active): no injected releases, because
    the assertions add atomic loads that shift the injection points; boundary-heavy sizes (full-capacity grants)"""
    cases = []
    for c in exhaustive_cases(2, 2) + exhaustive_cases(3, 2) + [gen_case(rng, 30) for _ in range(600)] + \
            [alias_case(rng) for _ in range(100)] + [huge_case(rng) for _ in range(100)]:
        ops = []
        for o in c.ops:
            t = o.split()
            if t[0] in ("acq", "upto"):
                t[1], t[2] = "0", "0"
            ops.append(" ".join(t))
        cases.append(Case(ops, dict(c.tags, debug_build=True)))
    for n in (1, 2, 5, 8, 64):
        cases.append(Case([f"init {n}", f"acq 0 0 {n}", "rel", f"acq 0 0 {n}", "rel", f"upto 0 0 1 {n + 1}", "rel", "acq 0 0 1"],
                          {"n": n, "debug_build": True}))
    return cases


def big_cases():
    """rings of 4 GiB and more (storage reserved, never touched): full-capacity grants, a request of capacity mod 2^32 + 1,
    up-to requests asking for everything, release and repeat; plus partial fills around the 2^32 boundary"""
    cases = []
    G = 2 ** 32
    for cap in (G, G + 1, G + 4096, 3 * 2 ** 31, 2 * G, 2 * G + 7):
        low = cap % G
        ops = [f"initbig {cap}", f"acq 0 0 {cap}", "rel", f"acq 0 0 {low + 1}", "rel", f"upto 0 0 1 {cap}", "rel",
               f"upto 0 0 {cap} {cap}", "rel", f"acq 0 0 {cap + 1}", f"upto 0 0 {G} MAX", "rel",
               f"acq 0 0 {G - 1}", f"acq 0 0 {cap - (G - 1)}", "rel", f"upto 0 0 1 {G}", "rel", "rel", f"acq 0 0 {cap}"]
        cases.append(Case(ops, {"n": cap, "big": True}))
    return cases


def big_stage(ctx):
    """correspondence at sizes beyond 2^32 (the model is unbounded; this ties the implementation's size arithmetic)"""
    try:
        exe = cbuild.build_harness(**HARNESS)
    except cbuild.BuildError as e:
        ctx.machinery_broken("build: " + str(e)[:2000])
        return
    probe = Case([f"initbig {2 ** 33 + 7}"], {"big": True})
    c_out, _, crashes = core.run_both(ctx, [probe], exe, None, jobs=1, timeout=60)
    if 0 in crashes or "P big-unavailable" in c_out.get(0, []) or not c_out.get(0):
        ctx.notes.append("big-ring stage skipped: the harness could not reserve 8 GiB of address space (mmap refused)")
        ctx.cov["big_ring_cases"] = 0
        return
    cases = big_cases()
    ctx.cov["big_ring_cases"] = len(cases)
    core.correspondence_stage(ctx, cases, exe)


def extra_stages(ctx):
    """second flavour: ring_buffer.c (and the library) compiled with -DDEBUG_BUILD, so AWS_PRECONDITION / AWS_POSTCONDITION
    (aws_ring_buffer_is_valid before and after every call) abort on a state the library itself calls invalid"""
    if ctx.replay:
        return
    big_stage(ctx)
    try:
        exe = cbuild.build_harness(**dict(HARNESS, flavour="debug"))
    except cbuild.BuildError as e:
        ctx.machinery_broken("debug-flavour build: " + str(e)[:2000])
        return
    cases = _debug_cases(ctx.rng)
    c_out, _, crashes = core.run_both(ctx, cases, exe, None, timeout=300)
    ctx.cov["debug_build_cases"] = len(cases)
    ctx.cov["evaluations"] += len(cases)
    reported = 0
    for i, case in enumerate(cases):
        if reported >= 3:
            break
        if i in crashes:
            def sf(cand):
                _, _, cr = core.run_both(ctx, [cand], exe, None, jobs=1, timeout=60)
                return 0 in cr
            small = core.minimise(ctx, case, exe, None, sf, 10)
            _, _, cr = core.run_both(ctx, [small], exe, None, jobs=1, timeout=60)
            ctx.violation(f"debugbuild-crash-{ctx.seed}-{i}",
                          {"ops": small.ops, "tags": small.tags, "flavour": "debug (-DDEBUG_BUILD)",
                           "observed": (cr.get(0) or crashes[i])[-2500:]},
                          "DEBUG_BUILD library aborted (its own pre/post-condition failed) on a legal call sequence")
            reported += 1
            continue
        errs = oracle(case, c_out.get(i, []))
        if errs:
            ctx.violation(f"debugbuild-oracle-{ctx.seed}-{i}", {"ops": case.ops, "tags": case.tags, "clause": errs[:5],
                                                              "flavour": "debug (-DDEBUG_BUILD)"},
                          "direct oracle (DEBUG_BUILD flavour): " + errs[0])
            reported += 1


def nontrivial(case):
    acq = sum(1 for o in case.ops if o.startswith(("acq", "upto")))
    inj = sum(1 for o in case.ops if o.startswith(("acq", "upto")) and o.split()[1] != "0")
    return acq >= 2 and ("rel" in case.ops or inj > 0)


def distribution(cases, c_out):
    d = {"acq": 0, "upto": 0, "rel": 0, "injected_release": 0, "ok": 0, "oom": 0, "invalid": 0, "dest_is_live_handle": 0,
         "alias_idiom_cases": 0, "refused_with_live_dest": 0}
    for i, c in enumerate(cases):
        for o in c.ops:
            t = o.split()
            if t[0] in d:
                d[t[0]] += 1
            if t[0] in ("acq", "upto") and t[1] != "0":
                d["injected_release"] += 1
            if t[0] in ("acq", "upto") and t[-1].startswith("live"):
                d["dest_is_live_handle"] += 1
        d["alias_idiom_cases"] += bool(c.tags.get("alias_idiom"))
        acq_ops = [o for o in c.ops if o.startswith(("acq", "upto"))]
        acq_lines = [l for l in c_out.get(i, []) if l.startswith("P acq ")]
        for o, l in zip(acq_ops, acq_lines):
            if o.split()[-1].startswith("live") and not l.startswith("P acq OK"):
                d["refused_with_live_dest"] += 1
        for l in c_out.get(i, []):
            if l.startswith("P acq OK"):
                d["ok"] += 1
            elif "OOM" in l:
                d["oom"] += 1
            elif "INVALID" in l:
                d["invalid"] += 1
    return d

MANIFEST = dict(
    category="proof",
    design_ref="5.15",
    text=("Lean 4 theorems over the two-thread transition system of ring_buffer.c (every interleaving of the acquirer's "
          "tail load / head load+decision and the releaser's tail store): outstanding buffers pairwise disjoint and inside "
          "the ring, exact / bounded sizes, empty ring serves any request <= capacity; the validity predicate, the release precondition "
          "(s_buf_belongs_to_pool) and the releaser's tail store are translated from the source on every run and proved to hold / to be the "
          "model's release step in every reachable state. Tied to /repo by a correspondence run "
          "of the compiled model against ring_buffer.c rebuilt from the working tree with releases injected between the "
          "acquirer's two loads, plus a direct overlap oracle on real addresses."),
    note=("Trusted: Lean kernel; hand-written model Model/Ring.lean (tied by correspondence only); harness; sequentially "
          "consistent atomics (weak-memory reorderings not modelled)."),
    technique="Lean 4 inductive invariant over all interleavings + model/implementation differential run",
)
