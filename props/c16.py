"""C16 — overflow-checked arithmetic and time-unit conversion are exact or flagged."""
import os, hashlib
from lib.core import Case, GenError, write_if_changed, LEAN
from lib import cbuild
from gen import math_gen, cfun

ID = "C16"
LEAN_MODULES = ["AwsVerif.Props.C16"]
COMPONENT = "math"
DRIVER_EXE = "awsmath"
HARNESS = None   # built in regen (needs the generated header)
TRUSTED = ["translator gen/cfun.py + gen/math_gen.py + gen/math_varargs.py (clang-14 JSON AST -> Lean; self-checked against the compiled C on every run)",
           "variadic arguments modelled as the list of arguments passed (va_arg = head of the list)",
           "meaning given to __builtin_{add,mul}_overflow, __builtin_c[lt]z* and the IEEE-754 ordered comparisons on float/double bit patterns (CSem.fcmp) in Model/CSem.lean",
           "hand model Model/MathAsm.lean of the x86-64 inline assembly (tied by the correspondence run in four calling contexts at -O2 and by the literal shape table: template, operand constraints, clobbers, surrounding C of every asm statement re-extracted each run, theorem asm_shapes_as_modelled; written registers pinned, theorem asm_registers_pinned)",
           "signed shift/overflow UB given two's-complement meaning",
           "an out-parameter never stored through / a local read before assignment is modelled by the non-zero sentinels CSem.unwritten / CSem.indeterminate (the C harness initialises out-parameters with the same sentinel)"]
ASSUMPTIONS = ["only the SIZE_BITS == 64 branches are compiled, translated and proved; every SIZE_BITS == 32 branch is tied textually to its proved 64-bit sibling (must be its u64 -> u32 image, gen/math_gen.py check_size_bits_branches)",
               "x86-64 SysV: size_t = uint64_t; default build configuration resolves un-prefixed calls to the gcc_overflow/gcc_builtin variants"]
RULE = ("every (variant, function) of math*.inl/clock.inl on the boundary operand product {0,1,2^k-1,2^k,2^k+1,MAX-1,MAX,MAX/b,MAX/b+1} "
        "plus PRNG operands; float/double min/max on the special-value product (zeros, subnormals, 1 ulp neighbours, infinities, NaNs, both signs) plus structured PRNG bit patterns; "
        "timestamp conversion with and without the optional remainder pointer; source/math.c aws_add_size_checked_varargs with num in {0,1,2,3,5,8}, 0-2 surplus arguments, exact fit and "
        "first overflow at every prefix position; non-trivial = every case (each is a distinct operand tuple); distinct by op text")

_state = {}


def regen(ctx):
    """Translate; whatever cannot be translated is reported (GenError -> Lean-stage violation), but the C harness is
    built in every case where the C still compiles — the dispatch needs only the signatures — and then all cases run
    against the oracle alone (no model of the current source exists, and a stale one must not be compared)."""
    repo, cfg = cbuild.REPO, cbuild.config_include()
    errs = []
    try:
        lean_math, lean_disp, meta = math_gen.generate(repo, cfg, errors=errs)
        c_text, entries = math_gen.c_dispatch(repo, meta)
    except cfun.GenError as e:
        raise GenError("; ".join(errs + [str(e)]))
    try:
        asm_text = math_gen.asm_shapes(repo)
        write_if_changed(os.path.join(LEAN, "AwsVerif", "Gen", "MathAsmShapes.lean"), asm_text)
    except cfun.GenError as e:
        errs.append(str(e))
    if not errs:
        write_if_changed(os.path.join(LEAN, "AwsVerif", "Gen", "Math.lean"), lean_math)
        write_if_changed(os.path.join(LEAN, "AwsVerif", "Gen", "MathDispatch.lean"), lean_disp)
    h = hashlib.sha256(c_text.encode()).hexdigest()[:16]
    d = os.path.join(cbuild.CACHE, "gen", "mathv-" + h)
    os.makedirs(d, exist_ok=True)
    write_if_changed(os.path.join(d, "mathv_gen.h"), c_text)
    _state["entries"] = entries
    global HARNESS, COMPONENT
    HARNESS = dict(name="mathv", flavour="plain", extra_cflags=["-I" + d, "-DGEN_HASH_" + h])
    COMPONENT = "math"
    if errs:
        COMPONENT = None
        raise GenError("; ".join(errs))


def _entries():
    if "entries" not in _state:
        try:
            lean_math, lean_disp, meta = math_gen.generate(cbuild.REPO, cbuild.config_include(), varargs=False, errors=[])
            _, entries = math_gen.c_dispatch(cbuild.REPO, meta)
        except cfun.GenError:
            entries = []     # not even the signatures could be read (reported by the Lean stage); only `addv` cases remain
        _state["entries"] = entries
    return _state["entries"]


def boundary(w, rich=True):
    M = (1 << w) - 1
    s = {0, 1, 2, 3, M, M - 1, M // 2, M // 2 + 1}
    ks = range(1, w) if rich else (1, 2, 7, 8, 15, 16, 31, 32, 33, w - 1)
    for k in ks:
        if k < w:
            s |= {(1 << k) - 1, 1 << k, (1 << k) + 1}
    for b in (2, 3, 5, 7, 10, 1000, 65535, 65536, 65537, 1000000007, (1 << 32) - 1, 1 << 32, (1 << 32) + 1):
        if b <= M:
            s |= {M // b, M // b + 1, b}
    return sorted(x for x in s if 0 <= x <= M)


def reference(name, args, info):
    """mathematical meaning, independent of model and implementation; returns expected output text"""
    ps = [p for p in info["params"] if p[1][0] != "ptr"]
    w = ps[0][1][0] if ps else 64
    M = (1 << w) - 1

    def sgn(x, ww):
        return x - (1 << ww) if x >= (1 << (ww - 1)) else x
    a = args[0]
    b = args[1] if len(args) > 1 else None
    if "_checked" in name and name.startswith(("aws_add", "aws_mul", "aws_sub")):
        ow = [p for p in info["params"] if p[1][0] == "ptr"][0][1][1][0]
        OM = (1 << ow) - 1
        r = a + b if "add" in name else a * b if "mul" in name else a - b
        return f"ok {r}" if 0 <= r <= OM else "err 5"
    if "_saturating" in name:
        rw = info["ret"][0]
        RM = (1 << rw) - 1
        r = a + b if "add" in name else a * b if "mul" in name else a - b
        return f"val {0 if r < 0 else min(r, RM)}"
    if name.startswith("aws_clz"):
        return f"val {w - a.bit_length()}"
    if name.startswith("aws_ctz"):
        return f"val {w if a == 0 else (a & -a).bit_length() - 1}"
    if name == "aws_is_power_of_two":
        return f"val {1 if a != 0 and a & (a - 1) == 0 else 0}"
    if name == "aws_round_up_to_power_of_two":
        if a == 0:
            return "ok 1"
        r = 1 << (a - 1).bit_length()
        return f"ok {r}" if r <= M else "err 5"
    if info.get("float"):
        # IEEE-754: result is one of the operands; for two non-NaN operands it is numerically the smaller / larger one
        # (either zero may stand for the other); with a NaN operand the C expression `a < b ? a : b` yields b
        import struct
        fmt = ("<f", "<I") if info["float"] == "float" else ("<d", "<Q")
        x = struct.unpack(fmt[0], struct.pack(fmt[1], a))[0]
        y = struct.unpack(fmt[0], struct.pack(fmt[1], b))[0]
        if x != x or y != y:
            return ("oneof", [b])
        want = min(x, y) if "min" in name else max(x, y)
        return ("oneof", sorted({v for v, fv in ((a, x), (b, y)) if fv == want}))
    if name.startswith(("aws_min_", "aws_max_")):
        signed = ps[0][1][1]
        x, y = (sgn(a, w), sgn(b, w)) if signed else (a, b)
        r = min(x, y) if "min" in name else max(x, y)
        return f"val {r % (1 << w)}"
    if name in ("aws_timestamp_convert_u64", "aws_timestamp_convert"):
        t, of, nf = args
        r = min(t * nf // of, (1 << 64) - 1)
        rem = t % (of // nf) if nf < of and of % nf == 0 else 0
        return ("val", r, rem)
    return None


def gen_cases(rng, tier):
    entries = _entries()
    cases = []
    rich = tier == "thorough"
    per = 24 if tier == "quick" else 400
    for m in entries:
        info = m["info"]
        ps = [p for p in info["params"] if p[1][0] != "ptr"]
        name, v = m["name"], m["variant"]
        ops = []
        if name in ("aws_timestamp_convert_u64", "aws_timestamp_convert"):
            units = [1, 1000, 1000000, 1000000000]
            tick_b = boundary(64, rich)
            for of in units:
                for nf in units:
                    for t in rng.sample(tick_b, min(len(tick_b), 12 if tier == "quick" else 80)) + [rng.getrandbits(64) for _ in range(6)]:
                        ops.append(f"m {v} {name} {t} {of} {nf}")
            for _ in range(200 if tier == "quick" else 20000):
                of = rng.choice([rng.randint(1, 10 ** 9), rng.choice([1, 2, 3, 7, 1000, 999999937, 10 ** 9])])
                nf = rng.choice([rng.randint(1, 10 ** 9), rng.choice([1, 2, 3, 7, 1000, 999999937, 10 ** 9]), of, max(1, of // rng.randint(1, 9)) ])
                t = rng.choice([rng.getrandbits(64), rng.getrandbits(rng.randint(1, 64)), rng.choice(tick_b)])
                ops.append(f"m {v} {name} {t} {of} {nf}")
            # arbitrary frequencies in [10^8, 10^9] (not powers of ten) with the exact quotient t*nf/of at, just below
            # and just above an integer (where anything but exact integer arithmetic rounds the wrong way), and
            # identical frequencies with ticks around 10^9 and around multiples of the frequency
            def freq():
                while True:
                    f = rng.choice([rng.randint(10 ** 8, 10 ** 9), 10 ** 9 - rng.randint(1, 100), 10 ** 8 + rng.randint(1, 100),
                                    999999937, 999999999, 536870912, 536870913])
                    if f not in (10 ** 8, 10 ** 9):
                        return f
            for _ in range(60 if tier == "quick" else 6000):
                of, nf = freq(), freq()
                r = rng.choice([rng.randint(1, 1 << 20), rng.randint(1, 1 << 40), rng.randint(1, 1 << 62), rng.getrandbits(rng.randint(1, 63)) + 1])
                t0 = (r * of + nf - 1) // nf            # the least t with floor(t*nf/of) >= r
                for t in (t0 - 1, t0, t0 + 1, (r * of) // nf):
                    if 0 <= t < (1 << 64):
                        ops.append(f"m {v} {name} {t} {of} {nf}")
                f = freq()
                for t in (f - 1, f, f + 1, 10 ** 9 - rng.randint(0, 64), 10 ** 9 + rng.randint(0, 64), f - rng.randint(2, 100),
                          rng.randint(1, 1 << 30) * f - 1, rng.randint(1, 1 << 30) * f + rng.randint(0, f - 1)):
                    ops.append(f"m {v} {name} {t} {f} {f}")
            # the optional remainder pointer may be NULL: every operand triple again without it
            ops += [o.replace(f" {name} ", f" {name}:null ") for o in ops]
        elif info.get("float"):
            ops = [f"m {v} {name} {a} {b}" for a, b in float_pairs(rng, tier, info["float"])]
        elif len(ps) == 1:
            bs = boundary(ps[0][1][0], True)
            ops = [f"m {v} {name} {a}" for a in bs] + [f"m {v} {name} {rng.getrandbits(ps[0][1][0])}" for _ in range(64)]
        else:
            w = ps[0][1][0]
            bs = boundary(w, rich)
            if tier == "quick":
                pairs = [(a, b) for a in rng.sample(bs, min(len(bs), per)) for b in rng.sample(bs, min(len(bs), per))]
            else:
                pairs = [(a, b) for a in bs for b in bs]
            # equal and adjacent operands around every boundary value (guards that are off by one, comparisons that
            # drop the low bit or look at only part of the word)
            M = (1 << w) - 1
            for x in boundary(w, False):
                pairs += [(x, x), (x, (x + 1) & M), ((x + 1) & M, x), (x, (x - 1) & M), ((x - 1) & M, x), (x, M - x), (x, (M - x + 1) & M)]
            pairs += [(rng.getrandbits(w), rng.getrandbits(w)) for _ in range(200)]
            pairs += [(rng.getrandbits(rng.randint(1, w)), rng.getrandbits(rng.randint(1, w))) for _ in range(200)]
            ops = [f"m {v} {name} {a} {b}" for a, b in pairs]
            if v == "ax":
                # the inline assembly again in three other calling contexts (see gen/math_gen.py c_dispatch)
                for cx in ("store", "sum", "acc"):
                    ops += [f"m {v} {name}@{cx} {a} {b}" for a, b in pairs]
        # one case per (variant, function) chunk of <= 400 ops
        for i in range(0, len(ops), 400):
            cases.append(Case(ops[i:i + 400], {"variant": v, "fn": name}))
    ops = addv_ops(rng, tier)
    for i in range(0, len(ops), 400):
        cases.append(Case(ops[i:i + 400], {"variant": "mc", "fn": "aws_add_size_checked_varargs"}))
    return cases


def float_pairs(rng, tier, ty):
    """bit-pattern operand pairs for the floating-point min/max: the special values of the format crossed with each
    other, neighbours (1 ulp apart, across the sign, across the binade, beyond single precision for double,
    fractions that truncate to the same integer), and PRNG patterns"""
    e, m = (8, 23) if ty == "float" else (11, 52)
    w = 1 + e + m
    S = 1 << (w - 1)
    bias = (1 << (e - 1)) - 1
    inf = ((1 << e) - 1) << m
    one = bias << m
    spec = [0, 1, (1 << m) - 1, 1 << m, one - 1, one, one + 1, (bias - 1) << m, ((bias - 2) << m) | (1 << (m - 1)),
            (bias + 1) << m, ((bias + 1) << m) | (1 << (m - 1)), (bias + 31) << m, (bias + 32) << m, (bias + 63) << m,
            inf - 1, inf, inf + 1, inf | (1 << (m - 1)), inf | ((1 << m) - 1)]
    spec = spec + [x | S for x in spec]
    pairs = [(a, b) for a in spec for b in spec]
    n = 300 if tier == "quick" else 6000
    for _ in range(n):
        a = rng.getrandbits(w)
        k = rng.choice([0, 1, 2, 3])
        if k == 0:
            b = rng.getrandbits(w)
        elif k == 1:
            b = (a + rng.choice([1, -1, 2, 1 << rng.randrange(m)])) % (1 << w)      # neighbours, small relative difference
        elif k == 2:
            b = a ^ S if rng.random() < 0.5 else (a ^ (1 << rng.randrange(w)))     # sign flip / single bit flip
        else:
            # same integer part, different fraction (0 <= exponent < 20)
            ex = rng.randrange(0, 20)
            hi = ((bias + ex) << m) | (rng.getrandbits(ex) << (m - ex) if ex else 0) | (S if rng.random() < 0.5 else 0)
            a = hi | rng.getrandbits(m - ex)
            b = hi | rng.getrandbits(m - ex)
        pairs.append((a, b))
        pairs.append((b, a))
    return pairs


def addv_ops(rng, tier):
    """source/math.c: `addv <num> <a1> ...` = aws_add_size_checked_varargs(num, &r, a1, ...); every listed argument is
    passed, only the first num count (surplus arguments are distinctive so that consuming one too many, or one too few,
    changes the answer); exact fit / first overflow placed at every prefix position"""
    M = (1 << 64) - 1
    surplus_pool = [12345, 1, M, 16, 1 << 63, M - 1]
    small = [0, 1, 2, 3, 16, 255, 12345, 1 << 32, (1 << 32) + 1]
    reps = 4 if tier == "quick" else 60
    ops = []

    def emit(num, a, ns):
        sur = [rng.choice(surplus_pool) for _ in range(ns)]
        ops.append("addv " + " ".join(str(x) for x in [num] + list(a) + sur))

    def term():
        return rng.choice(small) if rng.random() < 0.3 else rng.getrandbits(rng.randint(1, 60))
    for num in (0, 1, 2, 3, 5, 8):
        for ns in (0, 1, 2):
            for _ in range(reps):
                emit(num, [term() for _ in range(num)], ns)
            if num == 0:
                continue
            emit(num, [rng.getrandbits(64)] + [0] * (num - 1), ns)
            for k in range(num):
                base = [rng.getrandbits(rng.randint(1, 62)) for _ in range(num)]
                pre = sum(base[:k])            # < 8 * 2^62 <= MAX
                # the running sum reaches exactly MAX at position k and stays there: fits
                emit(num, base[:k] + [M - pre] + [0] * (num - k - 1), ns)
                # ... and the next operand (if any) tips it over: first overflow at position k + 1
                if k + 1 < num:
                    emit(num, base[:k] + [M - pre, rng.choice([1, 2, M])] + base[k + 2:], ns)
                # first overflow exactly at position k (k >= 1), by one
                if k >= 1 and pre > 0:
                    emit(num, base[:k] + [M - pre + 1] + base[k + 1:], ns)
                    # the overflow would be cancelled by wrap-around of later operands: still an error
                    emit(num, base[:k] + [M - pre + 1] + [M] * (num - k - 1), ns)
    return ops


def oracle(case, lines):
    entries = {(m["variant"], m["name"]): m for m in _entries()}
    errs = []
    for op, line in zip(case.ops, lines):
        t = op.split()
        if t[0] == "addv":
            num, a = int(t[1]), [int(x) for x in t[2:]]
            tot = sum(a[:num])
            exp = f"ok {tot}" if tot < (1 << 64) else "err 5"
            if line != "P " + exp:
                errs.append(f"{op}: implementation says `{line}`, mathematics (sum of the first {num} operands) says `P {exp}`")
                if len(errs) > 3:
                    break
            continue
        if "@" in t[2]:
            fn, cx = t[2].split("@")
            m = entries.get((t[1], fn))
            if m is None:
                continue
            x, y = [int(v, 0) for v in t[3:]]
            r1, r2 = reference(fn, [x, y], m["info"]), reference(fn, [y, x], m["info"])
            if r1.startswith("err") or r2.startswith("err"):
                exp = r1 if cx == "store" else "err 5"
            else:
                kind, v1, v2 = r1.split()[0], int(r1.split()[1]), int(r2.split()[1])
                exp = f"{kind} {v1 if cx == 'store' else (v1 + v2 + (v1 if cx == 'acc' else 0)) % (1 << 64)}"
            if line != "P " + exp:
                errs.append(f"{op}: implementation (assembly inlined in the `{cx}` context) says `{line}`, mathematics says `P {exp}`")
                if len(errs) > 3:
                    break
            continue
        null_out = t[2].endswith(":null")
        if null_out:
            t[2] = t[2][:-5]
        m = entries.get((t[1], t[2]))
        if m is None:
            continue
        args = [int(x, 0) for x in t[3:]]
        exp = reference(t[2], args, m["info"])
        if null_out and isinstance(exp, tuple) and exp[0] == "val":
            exp = f"val {exp[1]}"
        if exp is None:
            continue
        if isinstance(exp, tuple) and exp[0] == "oneof":
            if line not in ["P val %d" % v for v in exp[1]]:
                errs.append(f"{op}: implementation says `{line}`, IEEE-754 mathematics says one of {['P val %d' % v for v in exp[1]]}")
                if len(errs) > 3:
                    break
            continue
        if isinstance(exp, tuple):
            exp = f"val {exp[1]} {exp[2]}"
        if line != "P " + exp:
            errs.append(f"{op}: implementation says `{line}`, mathematics says `P {exp}`")
            if len(errs) > 3:
                break
    if len(lines) != len(case.ops):
        errs.append(f"{len(case.ops)} ops but {len(lines)} output lines")
    return errs


def distribution(cases, c_out):
    d = {}
    for c in cases:
        k = c.tags.get("variant", "?")
        d[k] = d.get(k, 0) + len(c.ops)
    d["functions"] = len({(c.tags.get("variant"), c.tags.get("fn")) for c in cases})
    return d


MANIFEST = dict(
    category="proof",
    design_ref="5.16",
    text=("Every function of math.inl, math.fallback.inl, math.gcc_overflow.inl, math.gcc_builtin.inl, clock.inl and source/math.c "
          "(the variadic checked sum: exact sum of the first num operands or overflow, 0 for num = 0) is "
          "re-translated from /repo's headers into Lean on every run (clang AST -> shallow embedding over Nat with explicit "
          "wrap-around) and the theorems of Props/C16.lean are re-proved about what the code says now: checked add/mul/sub exact "
          "or overflow error, saturating forms, power-of-two test/rounding, clz/ctz, min/max (integer and float/double, the latter on IEEE-754 bit patterns), variant agreement, time-unit conversion "
          "= min(floor(t*nf/of), 2^64-1) with the documented remainder. The x86-64 assembly variant is hand-modelled and proved equal; the model is tied to the text of every asm statement (shape table re-extracted each run and proved literally equal to the one modelled; every register a template writes must be pinned by an output constraint or clobbered). "
          "The translation is validated each run by executing the generated Lean and all compiled C variants (incl. the assembly) on the "
          "boundary operand product, with a big-integer oracle."),
    note=("Trusted: Lean kernel; the translator (self-checked each run); meaning of compiler builtins (CSem.lean); asm hand model; "
          "gcc/clang. Floating-point min/max: translated with the IEEE-754 ordered comparison on bit patterns as a trusted primitive (CSem.fcmp)."),
    technique="translator-regenerated Lean model + kernel-checked theorems; differential self-check of the translation",
)
