"""C18 — linked hash table keeps insertion order; caches evict by their stated policy."""
import itertools
from lib.core import Case

ID = "C18"
LEAN_MODULES = ["AwsVerif.Props.C18"]
COMPONENT = "lht"
HARNESS = dict(name="lht", flavour="asan")
P_DIFF_CONCRETE = True   # every P line (results, counts, iteration order, destructor multiset) is constrained by the property
TRUSTED = ["hand models lean/AwsVerif/Model/Lht.lean (ordered association list) and Model/LhtImpl.lean (linked_hash_table.c as written "
           "over the C02 hash-table model and the C09 linked-list model), tied by this correspondence run (P lines; W impl = real "
           "hash-table slots and both list walks)",
           "the abstraction hash table + intrusive list -> ordered association list is no longer trusted: c18_impl_refines_lht / "
           "c18_impl_run prove it from the C02 invariant and C09 well-linkedness; what remains trusted there is that the allocator "
           "returns unused node memory"]
ASSUMPTIONS = ["max_items >= 1 (AWS_ASSERT(max_items) in aws_cache_new_*)",
               "hash_fn / equals_fn are consistent and depend on the key's identity only",
               "aws_lru_cache_use_lru_element / get_mru_element are called on LRU caches only"]
RULE = ("op histories over one table/cache: kind lht|fifo|lifo|lru, capacity 1..5, 2..8 key identities x 2 pointers; 15% of the "
        "cases with C-string / byte-cursor / aws_string keys (lengths 11-13, 23-25, 35-37, all four alignments) through "
        "aws_hash_c_string / aws_hash_byte_cursor_ptr / aws_hash_string and their equality callbacks "
        "(+ the NULL key in a quarter of the cases, NULL values in a quarter), "
        "with/without key and value destructors, 4 hash modes (spread, constant, two buckets, zero); non-trivial = at least "
        "3 puts and (an overwrite, a removal or an eviction); plus all histories of a fixed length over 3 identities")
NOT_PROVED = []

KINDS = ("lht", "fifo", "lifo", "lru")
NULL_KEY = 1000     # identity standing for the NULL key pointer (its pointer number is always 0); value 0 = NULL value


# ---------------------------------------------------------------- reference (independent of the Lean model)
class Ref:
    """Reference ordered map + eviction policy by time stamps.  An entry is
    ident -> [ptr, val, put_time, use_time]; `use` = insert, successful moving lookup, explicit move."""

    def __init__(self, kind, cap, kd, vd):
        self.kind, self.cap, self.kd, self.vd = kind, cap, kd, vd
        self.m = {}
        self.clock = 0

    def tick(self):
        self.clock += 1
        return self.clock

    def order(self):
        # fifo/lifo: insertion order (re-insertion moves to the back); lru / bare table with moves: order of last use
        idx = 3 if self.kind in ("lru", "lht") else 2
        return [i for i, _ in sorted(self.m.items(), key=lambda kv: kv[1][idx])]

    def victim(self):
        """policy victim among the entries present *before* the insertion that overflows"""
        if self.kind == "fifo":
            return min(self.m, key=lambda i: self.m[i][2])       # oldest inserted
        if self.kind == "lifo":
            return max(self.m, key=lambda i: self.m[i][2])       # inserted immediately before the new one
        if self.kind == "lru":
            return min(self.m, key=lambda i: self.m[i][3])       # least recently used
        return None

    def dk(self, i, p):
        return [f"k{i}.{p}"] if self.kd else []

    def dv(self, v):
        return [f"v{v}"] if self.vd else []

    def apply(self, t):
        """returns dict(result=..., dtor=[...], victim=ident|None, clause=str)"""
        op = t[0]
        r = {"dtor": [], "victim": None}
        if op == "put":
            i, p, v = int(t[1]), int(t[2]), int(t[3])
            now = self.tick()
            if i in self.m:
                p0, v0 = self.m[i][0], self.m[i][1]
                r["dtor"] += self.dv(v0)
                if p0 != p:
                    r["dtor"] += self.dk(i, p0)
                self.m[i] = [p, v, now, now]
            else:
                if self.kind != "lht" and len(self.m) >= self.cap:
                    vic = self.victim()
                    r["victim"] = vic
                    r["dtor"] += self.dk(vic, self.m[vic][0]) + self.dv(self.m[vic][1])
                    del self.m[vic]
                self.m[i] = [p, v, now, now]
            r["result"] = "put OK"
            r["new"] = (i, p, v)
        elif op in ("find", "findmv"):
            i = int(t[1])
            if i in self.m:
                r["result"] = f"{op} {self.m[i][1] or 'NULL'}"      # a stored NULL value reads back as NULL
                if op == "findmv" or self.kind == "lru":
                    self.m[i][3] = self.tick()
            else:
                r["result"] = f"{op} NULL"
        elif op == "remove":
            i = int(t[1])
            if i in self.m:
                r["dtor"] += self.dk(i, self.m[i][0]) + self.dv(self.m[i][1])
                del self.m[i]
            r["result"] = "remove OK"
        elif op == "clear":
            for i, e in self.m.items():
                r["dtor"] += self.dk(i, e[0]) + self.dv(e[1])
            self.m = {}
            r["result"] = "clear"
        elif op == "mvend":
            i = int(t[1])
            if i in self.m:
                self.m[i][3] = self.tick()
                r["result"] = "mvend OK"
            else:
                r["result"] = "mvend absent"
        elif op == "uselru":
            if self.m:
                i = min(self.m, key=lambda j: self.m[j][3])
                r["result"] = f"uselru {self.m[i][1] or 'NULL'}"
                self.m[i][3] = self.tick()
            else:
                r["result"] = "uselru NULL"
        elif op == "getmru":
            if self.m:
                i = max(self.m, key=lambda j: self.m[j][3])
                r["result"] = f"getmru {self.m[i][1] or 'NULL'}"
            else:
                r["result"] = "getmru NULL"
        else:
            return None
        return r


ARITY = {"put": 4, "find": 2, "findmv": 2, "remove": 2, "clear": 1, "mvend": 2, "uselru": 1, "getmru": 1, "destroy": 1}


def valid_op(kind, t):
    if ARITY.get(t[0]) != len(t) or not all(x.isdigit() for x in t[1:]):
        return False
    if t[0] in ("findmv", "mvend"):
        return kind == "lht"
    if t[0] in ("uselru", "getmru"):
        return kind == "lru"
    return True


def oracle(case, lines):
    """direct oracle on the implementation's output only (reference ordered map + policy victim from the op list)"""
    errs = []
    ls = [l for l in lines if not l.startswith("W ") and not l.startswith("P MONITOR")]
    for l in lines:
        if l.startswith("H "):
            return ["harness assertion: " + l]
        if l.startswith("P MONITOR"):
            errs.append("c18_destructors: harness monitor on real pointers: " + l[10:])
    li = 0

    def nxt():
        nonlocal li
        l = ls[li] if li < len(ls) else None
        li += 1
        return l
    ref = None
    for op in case.ops:
        t = op.split()
        if t[0] == "init":
            if len(t) != 6 or t[1] not in KINDS or int(t[2]) < 1:
                return errs
            ref = Ref(t[1], int(t[2]), t[3] == "1", t[4] == "1")
            continue
        if ref is not None and t == ["destroy"]:
            # clean_up / aws_cache_destroy: every remaining key and value destroyed exactly once, nothing left allocated
            r = ref.apply(["clear"])
            exp = ["P destroy", "P dtor " + (" ".join(sorted(r["dtor"])) or "-"), "P leak=0"]
            got = [nxt(), nxt(), nxt()]
            if got != exp:
                errs.append(f"c18_destructors: destroy (clean_up): got {got} expected {exp}")
            ref = None
            continue
        if ref is None or not valid_op(ref.kind, t):
            if nxt() != "bad-op":
                errs.append(f"{op}: expected bad-op")
            continue
        before = dict((i, list(e)) for i, e in ref.m.items())
        r = ref.apply(t)
        l = nxt()
        if l is None:
            errs.append(f"{op}: missing output")
            break
        if l != "P " + r["result"]:
            clause = "c18_order(find/remove/clear agree with the reference map)"
            if t[0] in ("uselru", "getmru"):
                clause = "c18_victim(lru order)"
            errs.append(f"{clause}: {op}: got `{l}` expected `P {r['result']}`")
        if t[0] in ("put", "remove", "clear"):
            l = nxt()
            exp = "P dtor " + (" ".join(sorted(r["dtor"])) or "-")
            if l != exp:
                what = "c18_destructors"
                if r["victim"] is not None:
                    what = f"c18_victim/c18_destructors ({ref.kind} victim should be identity {r['victim']})"
                errs.append(f"{what}: {op}: got `{l}` expected `{exp}`")
        l = nxt()
        cnt = None
        if l is None or not l.startswith("P count="):
            errs.append(f"{op}: missing count line: {l}")
        else:
            cnt = int(l.split("=")[1])
            if ref.kind != "lht" and t[0] == "put" and cnt > ref.cap:
                errs.append(f"c18_bound: {op}: count {cnt} > max {ref.cap}")
            if cnt != len(ref.m):
                errs.append(f"c18_order: {op}: count {cnt} expected {len(ref.m)}")
        l = nxt()
        if l is None or not l.startswith("P order"):
            errs.append(f"{op}: missing order line: {l}")
            continue
        got = [] if l == "P order -" else l.split()[2:]
        exp = [f"{i}.{ref.m[i][0]}={ref.m[i][1]}" for i in ref.order()]
        if t[0] == "put":
            i, p, v = r["new"]
            if f"{i}.{p}={v}" not in got:
                errs.append(f"c18_retains_new: {op}: entry just put is not present: `{l}`")
            elif r["victim"] is not None:
                gone = [x for x in before if not any(g.startswith(f"{x}.") for g in got)]
                if gone != [r["victim"]]:
                    errs.append(f"c18_victim: {op}: {ref.kind} cache of {ref.cap} evicted identities {gone}, policy names [{r['victim']}]")
        if got != exp:
            errs.append(f"c18_order: {op}: iteration order `{' '.join(got) or '-'}` expected `{' '.join(exp) or '-'}`")
    return errs


# ---------------------------------------------------------------- generators
def gen_case(rng, maxops):
    kind = rng.choice(KINDS)
    nid = rng.randint(2, 8)
    cap = rng.randint(1, 5)
    kd = 0 if rng.random() < 0.12 else 1
    vd = 0 if rng.random() < 0.12 else 1
    hm = rng.choice([0, 0, 1, 2, 3])
    if rng.random() < 0.15:
        # keys are C strings / byte cursors / aws_strings hashed and compared by the library's own callbacks; identity i is a
        # text of length 11,12,13,23,24,25,35,36,37 (i mod 9), pointer number = a separate copy at another byte alignment
        hm = rng.choice([4, 4, 5, 5, 6])
        nid = rng.randint(3, 17)
    ops = [f"init {kind} {cap} {kd} {vd} {hm}"]
    ref = Ref(kind, cap, bool(kd), bool(vd))
    val = [10]
    tags = {"kind": kind, "cap": cap, "overwrite_victim": 0, "remove_refill": 0, "evictions": 0, "overwrites": 0, "same_ptr": 0,
            "null_key_puts": 0, "null_val_puts": 0}
    idents = list(range(nid)) + ([NULL_KEY] if rng.random() < 0.25 else [])
    null_vals = rng.random() < 0.25

    def pick(extra=0):
        """an identity of the universe (or, for lookups, sometimes one that is never stored)"""
        if extra and rng.random() < 0.1:
            return nid
        return rng.choice(idents)

    def put(i, p=None):
        if p is None:
            p = rng.randint(0, 1)
            if i in ref.m and rng.random() < 0.35:
                p = ref.m[i][0]          # the very pointer already stored
        if i == NULL_KEY:
            p = 0
            tags["null_key_puts"] += 1
        if i in ref.m:
            tags["overwrites"] += 1
            if ref.m[i][0] == p:
                tags["same_ptr"] += 1
        val[0] += 1
        v = val[0]
        if null_vals and rng.random() < 0.3:
            v = 0
            tags["null_val_puts"] += 1
        elif i in ref.m and ref.m[i][1] != 0 and rng.random() < 0.3:
            v = ref.m[i][1]          # refresh: the very value object already stored under this key
            tags["same_value_reputs"] = tags.get("same_value_reputs", 0) + 1
        line = f"put {i} {p} {v}"
        r = ref.apply(line.split())
        if r["victim"] is not None:
            tags["evictions"] += 1
        ops.append(line)

    def other(line):
        ref.apply(line.split())
        ops.append(line)

    n = rng.randint(3, maxops)
    while len(ops) <= n:
        x = rng.random()
        full = kind != "lht" and len(ref.m) >= cap
        if full and x < 0.18:
            # overwrite the would-be victim, then insert a fresh identity
            vic = ref.victim()
            put(vic)
            tags["overwrite_victim"] += 1
            fresh = [i for i in idents if i not in ref.m]
            if fresh:
                put(rng.choice(fresh))
        elif ref.m and x < 0.28:
            # remove-then-refill
            i = rng.choice(list(ref.m))
            other(f"remove {i}")
            tags["remove_refill"] += 1
            for _ in range(rng.randint(1, 2)):
                put(pick())
        elif x < 0.62:
            put(pick())
        elif x < 0.78:
            other(f"find {pick(1)}")
        elif x < 0.86:
            other(f"remove {pick(1)}")
        elif x < 0.89:
            other("clear")
        elif kind == "lru":
            other(rng.choice(["uselru", "uselru", "getmru"]))
        elif kind == "lht":
            other(rng.choice([f"findmv {pick(1)}", f"mvend {pick(1)}"]))
        else:
            put(pick())
    if rng.random() < 0.4:
        ops.append("destroy")      # tear the table down with whatever it still holds
    return Case(ops, tags)


def refresh_case(rng):
    """re-put of an existing key with the SAME value object: it counts as an insertion / use like any other put (moves to
    the back, becomes MRU, is not the next victim); then MRU query and overflow"""
    kind = rng.choice(KINDS)
    cap = rng.randint(2, 4)
    kd, vd = rng.choice([0, 1, 1]), rng.choice([0, 1, 1])
    ops = [f"init {kind} {cap} {kd} {vd} {rng.choice([0, 0, 1])}"]
    ids = list(range(cap))
    for n_, i in enumerate(ids):
        ops.append(f"put {i} 0 {20 + i}")
    if kind == "lru" and rng.random() < 0.5:
        ops.append(f"find {rng.choice(ids[1:])}")
    k = rng.choice(ids[:-1])                      # not the one at the back
    ops.append(f"put {k} {rng.choice([0, 0, 1])} {20 + k}")     # same value object (same or another key pointer)
    if kind == "lru":
        ops += ["getmru", "uselru"]
    if kind == "lht":
        ops.append(f"findmv {rng.choice(ids)}")
    ops.append(f"put {cap} 0 {20 + cap}")          # overflow (caches): the refreshed key must not be the victim unless the policy says so
    ops += [f"find {k}", f"put {cap + 1} 0 {21 + cap}", f"find {k}"]
    if kind == "lru":
        ops.append("getmru")
    ops.append(rng.choice(["destroy", "clear", f"remove {k}"]))
    return Case(ops, {"kind": kind, "cap": cap, "refresh": True})


def malformed_cases():
    """ops that are not applicable / malformed must be rejected identically by both sides"""
    return [Case(["put 1 0 10"], {"malformed": True}),
            Case(["init fifo 0 1 1 0", "put 1 0 10"], {"malformed": True}),
            Case(["init fifo 2 1 1 0", "uselru", "findmv 1", "mvend 1", "put 1 0", "frob"], {"malformed": True}),
            Case(["init lht 2 1 1 0", "uselru", "getmru", "find", "put 1 0 11"], {"malformed": True})]


def exhaustive_cases(kind, cap, depth, kd=1, vd=1, hm=0, nulls=False, samevals=False):
    """every history of `depth` calls over 3 identities, up to renaming of identities (an identity may be mentioned only
    if all smaller ones have been mentioned: first-occurrence order 0,1,2): put (the pointer alternates with the position
    so same-pointer and different-pointer overwrites both occur), find, remove, clear (+ uselru, getmru for lru;
    + findmv, mvend for the bare table).  With `nulls` the first identity mentioned is the NULL key and every third call
    position stores the NULL value."""
    nid = 3
    out = []
    init = f"init {kind} {cap} {kd} {vd} {hm}"
    unary = ["put", "find", "remove"] + (["findmv", "mvend"] if kind == "lht" else [])
    nullary = ["clear"] + (["uselru", "getmru"] if kind == "lru" else [])

    def rec(ops, used, d):
        if d == 0:
            out.append(Case([init] + ops + ["destroy"], {"kind": kind, "cap": cap, "exhaustive": depth, "nulls": nulls}))
            return
        pos = len(ops)
        for name in unary:
            for i in range(min(used + 1, nid)):
                ident = NULL_KEY if (nulls and i == 0) else i
                if name == "put":
                    ptr = 0 if ident == NULL_KEY else (pos // 2) % 2
                    value = 0 if (nulls and pos % 3 == 1) else 10 + pos
                    if samevals:
                        value = 50 + i            # one value object per identity: every re-put is a refresh with the same object
                    line = f"put {ident} {ptr} {value}"
                else:
                    line = f"{name} {ident}"
                rec(ops + [line], max(used, i + 1), d - 1)
        for name in nullary:
            rec(ops + [name], used, d - 1)
    rec([], 0, depth)
    return out


def gen_cases(rng, tier):
    cases = malformed_cases()
    cases += [gen_case(rng, 40) for _ in range(4000 if tier == "quick" else 40000)]
    cases += [refresh_case(rng) for _ in range(600 if tier == "quick" else 6000)]
    if tier == "quick":
        for kind in ("fifo", "lifo", "lru"):
            cases += exhaustive_cases(kind, 2, 4 if kind == "lru" else 5, hm=rng.choice([0, 1]))
            cases += exhaustive_cases(kind, 1, 4)
            cases += exhaustive_cases(kind, 2, 4, nulls=True)
            cases += exhaustive_cases(kind, 1, 3, nulls=True, kd=rng.choice([0, 1]))
        cases += exhaustive_cases("lht", 2, 4)
        cases += exhaustive_cases("lht", 2, 3, nulls=True)
        for kind in KINDS:
            cases += exhaustive_cases(kind, 2, 4, samevals=True)
        for kind in KINDS:          # library string hashes: identities 0,1,2 = texts of 11,12,13 bytes, all alignments
            cases += exhaustive_cases(kind, 2, 3, hm=4)
            cases += exhaustive_cases(kind, 3, 3, hm=5)
    else:
        for kind in ("fifo", "lifo", "lru"):
            cases += exhaustive_cases(kind, 2, 6, hm=rng.choice([0, 1]))
            cases += exhaustive_cases(kind, 1, 5)
            cases += exhaustive_cases(kind, 3, 5, kd=rng.choice([0, 1]))
            cases += exhaustive_cases(kind, 2, 5, nulls=True)
            cases += exhaustive_cases(kind, 1, 4, nulls=True)
            cases += exhaustive_cases(kind, 3, 4, nulls=True, vd=rng.choice([0, 1]))
        cases += exhaustive_cases("lht", 2, 5)
        cases += exhaustive_cases("lht", 2, 4, nulls=True)
        for kind in KINDS:
            cases += exhaustive_cases(kind, 2, 5, samevals=True)
            cases += exhaustive_cases(kind, 3, 4, samevals=True, vd=0)
        for kind in KINDS:
            cases += exhaustive_cases(kind, 2, 4, hm=4)
            cases += exhaustive_cases(kind, 3, 4, hm=5)
            cases += exhaustive_cases(kind, 2, 3, hm=6)
    return cases


def nontrivial(case):
    t = case.tags
    if t.get("malformed"):
        return False
    if t.get("exhaustive"):
        return sum(1 for o in case.ops if o.startswith("put")) >= 2
    return sum(1 for o in case.ops if o.startswith("put")) >= 3 and \
        (t.get("overwrites", 0) + t.get("evictions", 0) + t.get("remove_refill", 0) > 0 or "corpus" in t)


def distribution(cases, c_out):
    d = {"kinds": {}, "caps": {}, "ops": {}, "evictions": 0, "overwrites": 0, "overwrite_same_pointer": 0,
         "overwrite_victim_then_insert": 0, "remove_then_refill": 0, "exhaustive_cases": 0, "dtor_events_seen": 0,
         "null_key_puts": 0, "null_value_puts": 0}
    for i, c in enumerate(cases):
        t = c.tags
        if "kind" in t:
            d["kinds"][t["kind"]] = d["kinds"].get(t["kind"], 0) + 1
            d["caps"][str(t["cap"])] = d["caps"].get(str(t["cap"]), 0) + 1
        if c.ops and c.ops[0].startswith("init ") and len(c.ops[0].split()) == 6:
            hm = c.ops[0].split()[5]
            d.setdefault("hashmodes", {})[hm] = d.setdefault("hashmodes", {}).get(hm, 0) + 1
        if t.get("exhaustive"):
            d["exhaustive_cases"] += 1
        d["evictions"] += t.get("evictions", 0)
        d["overwrites"] += t.get("overwrites", 0)
        d["overwrite_same_pointer"] += t.get("same_ptr", 0)
        d["overwrite_victim_then_insert"] += t.get("overwrite_victim", 0)
        d["remove_then_refill"] += t.get("remove_refill", 0)
        for o in c.ops:
            tk = o.split()
            k = tk[0]
            d["ops"][k] = d["ops"].get(k, 0) + 1
            if k == "put" and len(tk) == 4:
                d["null_key_puts"] += tk[1] == str(NULL_KEY)
                d["null_value_puts"] += tk[3] == "0"
        for l in c_out.get(i, []):
            if l.startswith("P dtor ") and l != "P dtor -":
                d["dtor_events_seen"] += len(l.split()) - 2
    return d


MANIFEST = dict(
    category="proof",
    design_ref="5.18",
    text=("Lean 4 theorems over a model of linked_hash_table.c and the FIFO/LIFO/LRU caches (ordered association list with "
          "unique key identities, keys = (identity, pointer)): for every capacity >= 1 and every history of put / find / "
          "remove / clear / use-lru / get-mru the iteration order is insertion order with re-insertion moving to the back, "
          "lookups agree with the reference ordered map, every displaced value (and key pointer, unless it is the pointer "
          "re-inserted) is destroyed exactly once, count <= max, the entry just put is retained, and the evicted entry is the "
          "one the policy names (stated with ghost time stamps: oldest inserted / inserted last before the new one / least "
          "recently used). Tied to /repo by a correspondence run of the compiled model against the real tables and caches "
          "(ASan, freeing destructors), a Python reference-map oracle and small-scope exhaustive histories."),
    note=("Trusted: Lean kernel; hand-written models Model/Lht.lean and Model/LhtImpl.lean (tied by correspondence only). The "
          "abstraction of the hash table + intrusive list is proved (c18_impl_refines_lht, c18_impl_run, c18_impl_order) on top of "
          "the C02 / C09 developments; destructor order inside clear is canonicalised (hash-slot order); caches' eviction is "
          "proved on the abstract level only (the implementation-level cache put is driven in the W stream)."),
    technique="Lean 4 invariants over all histories + model/implementation differential run + reference-map oracle",
)
