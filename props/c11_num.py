"""C11 helpers: doubles as bit patterns, the property's number clause in exact arithmetic, and the
number hints the Lean driver needs (libc formatting is an uninterpreted parameter of the model;
the hints instantiate it with CPython's own correctly-rounded dtoa/strtod, which is independent of
glibc's printf/strtod).  Nothing here is used by the C side."""
import math, re, struct
from decimal import Decimal, Context, ROUND_HALF_EVEN
from fractions import Fraction

INT_MIN, INT_MAX = -2**31, 2**31 - 1
DBL_EPS = 2.0 ** -52


def bits_of(d):
    return struct.unpack("<Q", struct.pack("<d", d))[0]


def dbl_of(bits):
    return struct.unpack("<d", struct.pack("<Q", bits))[0]


def hex16(bits):
    return "%016x" % bits


def is_int_class(bits):
    """double is an integer in [INT_MIN, INT_MAX] and not -0.0 (model: JNum.int)"""
    d = dbl_of(bits)
    if math.isnan(d) or math.isinf(d) or bits == 0x8000000000000000:
        return False
    return d == math.floor(d) and INT_MIN <= d <= INT_MAX


def compare_double(a, b):
    m = max(abs(a), abs(b))
    return abs(a - b) <= m * DBL_EPS


def predicted_token(bits):
    """what cJSON's print_number is expected to emit (prediction used only as the model's hint)"""
    d = dbl_of(bits)
    if math.isnan(d) or math.isinf(d):
        return b"null"
    if d == math.floor(d) and INT_MIN <= d <= INT_MAX:
        return b"%d" % int(d)
    s = "%1.15g" % d
    if not compare_double(float(s), d):
        s = "%1.17g" % d
    return s.encode()


_ctx15 = Context(prec=15, rounding=ROUND_HALF_EVEN)


def has15(d):
    """the double is the nearest double of its own value rounded to 15 significant decimal digits,
    i.e. it 'has at most 15 significant decimal digits' in the sense of the property"""
    if d == 0:
        return True
    r = _ctx15.create_decimal(Decimal(d))     # exact expansion of d, rounded once to 15 digits
    return float(r) == d                       # CPython: correctly rounded decimal -> double


def number_clause(orig_bits, new):
    """the property clause for one finite number: `new` is the value read back (a float).
    Returns None if satisfied, else a description."""
    d = dbl_of(orig_bits)
    if math.isnan(d) or math.isinf(d):
        return None
    if math.isnan(new) or math.isinf(new):
        return f"finite {d!r} came back as {new!r}"
    if has15(d):
        if Fraction(new) != Fraction(d):
            return f"number with <=15 significant digits changed: {d!r} ({hex16(orig_bits)}) -> {new!r} ({hex16(bits_of(new))})"
        return None
    if abs(Fraction(new) - Fraction(d)) > abs(Fraction(d)) * Fraction(1, 2**52):
        return f"number off by more than one part in 2^52: {d!r} ({hex16(orig_bits)}) -> {new!r} ({hex16(bits_of(new))})"
    return None


# ---------------------------------------------------------------- strtod prefix (for hint_val lines)
_NUMRUN = re.compile(rb"[0-9+\-eE.]+")
_STRTOD = re.compile(rb"[+-]?(?:[0-9]+(?:\.[0-9]*)?|\.[0-9]+)(?:[eE][+-]?[0-9]+)?")


def strtod_prefix(tok):
    m = _STRTOD.match(tok)
    return m.group(0) if m else b""


def hints_for_text(text):
    """hint_val lines for every place cJSON's parse_number could be entered in `text`"""
    out = {}
    t = text.split(b"\0")[0]
    for m in _NUMRUN.finditer(t):
        tok = m.group(0)[:63]
        p = strtod_prefix(tok)
        if p:
            try:
                v = float(p.decode())
            except ValueError:
                continue
            out[p] = bits_of(v)
    return out


def hint_lines(tok_hints, val_hints):
    ls = []
    for b, tk in tok_hints.items():
        ls.append(f"hint_tok {hex16(b)} {tk.hex() or '-'}")
    for tk, b in val_hints.items():
        ls.append(f"hint_val {tk.hex() or '-'} {hex16(b)}")
    return ls
