"""C06 — priority queue pops in comparator order; handles always track their element."""
import itertools
from collections import Counter
import os
from lib.core import Case, GenError, write_if_changed, LEAN
from lib import cbuild, core
import json
from gen import heap_gen, cfun

def regen(ctx):
    """Gen/HeapIdx.lean: PARENT_OF / LEFT_OF / RIGHT_OF, the guards of aws_priority_queue_remove and the scheduler's
    s_compare_timestamps, re-translated from /repo's current source (gen/heap_gen.py); the bridge theorems of
    Props/C06.lean and Props/C07.lean are re-proved against it"""
    try:
        text, _ = heap_gen.generate(cbuild.REPO, cbuild.config_include())
    except cfun.GenError as e:
        raise GenError(str(e))
    write_if_changed(os.path.join(LEAN, "AwsVerif", "Gen", "HeapIdx.lean"), text)


ID = "C06"
LEAN_MODULES = ["AwsVerif.Props.C06"]
COMPONENT = "heap"
HARNESS = dict(name="heap", flavour="asan")
# which of several equal keys is popped is the algorithm's choice, not the property's: the oracle below is
# complete for the property clauses, so a model difference alone is conformance drift
P_DIFF_CONCRETE = False
TIMEOUT = 120
NOT_PROVED = []
TRUSTED = ["hand model lean/AwsVerif/Model/Heap.lean (tied by this correspondence run; its index macros and stale-handle guard "
           "additionally by bridge theorems to Gen/HeapIdx.lean, regenerated from priority_queue.c on every run)",
           "translator gen/cfun.py + gen/heap_gen.py (clang-14 JSON AST -> Lean; state reads of the remove guards lifted to parameters)",
           "harness/heap.c incl. its in-harness monitor of heap order / handle<->slot bijection on the public struct fields"]
ASSUMPTIONS = ["comparator looks at the key only and `not (pred(a,b) > 0)` is a total preorder on keys (hypothesis CmpOK of every "
               "theorem; instances proved: Nat with <= (harness comparator), generated s_compare_timestamps (C07))",
               "a handle passed to push_ref is not currently in the queue (API contract; checked with node_is_in_queue)",
               "fewer than 2^63 operations (LEFT_OF/RIGHT_OF are modelled with their 64-bit wrap-around)",
               "allocation does not fail (aws_mem_acquire aborts on NULL)"]
RULE = ("comparator style per case (three-way, boolean `a > b`, large-magnitude difference, zero-or-negative when not greater); "
        "op sequences over one queue: push / push_ref / pop / top / remove / clear, keys 0..255 with many duplicates, "
        "element sizes {1,3,8,127,128,129,300}, dynamic and static storage, handles on arbitrary subsets with the first "
        "handle arriving late; non-trivial = >=6 pushes, >=1 handle push and >=1 pop/remove; distinct by op-file hash")

CMP_STYLES = ["three", "bool", "bool", "diff", "lazy"]
ISZ = [1, 8, 127, 128, 129, 300, 3]


def _key(rng, mode):
    if mode == 0:
        return rng.randint(0, 2)
    if mode == 1:
        return rng.randint(0, 7)
    if mode == 2:
        return rng.choice([0, 1, 254, 255, 127, 128])
    return rng.randint(0, 255)


def gen_case(rng, maxops):
    static = rng.random() < 0.2
    isz = rng.choice(ISZ)
    nh = rng.choice([0, 1, 2, 4, 8, 16, 32]) if not static else rng.choice([0, 0, 2])
    style = rng.choice(CMP_STYLES)
    if static:
        cap = rng.choice([1, 2, 3, 5, 8, 13, 31])
        ops = [f"cmp {style}", f"init static {cap} {isz} {nh}"]
    else:
        cap = None
        ops = [f"cmp {style}", f"init dyn {rng.choice([0, 0, 1, 2, 7, 16, 40])} {isz} {nh}"]
    mode = rng.choice([0, 0, 1, 1, 2, 3])
    shape = rng.choice(["rand", "rand", "asc", "desc"])
    late = rng.randint(0, 12) if rng.random() < 0.7 else 0   # pushes before the first handle may appear
    busy = set()          # handles the generator believes may be in the queue (conservative)
    used = set()
    pushes = 0
    size_ub = 0
    nops = rng.randint(3, maxops)
    grow = rng.uniform(0.45, 0.8)
    seqk = rng.randint(0, 40)
    for _ in range(nops):
        r = rng.random()
        if r < grow or size_ub == 0 and r < 0.9:
            if shape == "asc":
                seqk += rng.randint(0, 2); k = min(255, seqk)
            elif shape == "desc":
                seqk -= rng.randint(0, 2); k = max(0, seqk + 60)
            else:
                k = _key(rng, mode)
            free = [h for h in range(nh) if h not in busy]
            if free and pushes >= late and rng.random() < 0.55:
                h = rng.choice(free)
                ops.append(f"pushref {k} h{h}")
                if not static:
                    busy.add(h); used.add(h)
            elif nh and pushes >= late and rng.random() < 0.02:
                ops.append(f"pushref {k} h{rng.randrange(nh)}")     # possibly a handle still in the queue: both sides refuse
            else:
                ops.append(f"push {k}")
            pushes += 1
            size_ub += 1
        else:
            r2 = rng.random()
            if r2 < 0.42:
                ops.append("pop"); size_ub = max(0, size_ub - 1)
            elif r2 < 0.5:
                ops.append("top")
            elif r2 < 0.9 and nh:
                if busy and rng.random() < 0.8:
                    h = rng.choice(sorted(busy))        # live, or gone through a pop: then a stale handle
                    busy.discard(h)
                elif used and rng.random() < 0.7:
                    h = rng.choice(sorted(used))        # most likely stale
                    busy.discard(h)
                else:
                    h = rng.randrange(nh)               # possibly never used
                    busy.discard(h)
                ops.append(f"remove h{h}"); size_ub = max(0, size_ub - 1)
            elif r2 < 0.93:
                ops.append("clear"); busy.clear(); size_ub = 0
            else:
                ops.append("pop"); size_ub = max(0, size_ub - 1)
    if rng.random() < 0.5:
        # drain: every remaining element comes out in order
        ops += ["pop"] * (min(size_ub, 70) + 1)
    return Case(ops, {"isz": isz, "static": static, "nh": nh, "cmp": style})


def exhaustive_cases(prefix, depth, isz=8, storage="dyn 0", style="three"):
    """all op sequences of the given length over {push 0/1, pushref 0/1 h0/h1, pop, top, remove h0/h1, clear}"""
    alphabet = ["push 0", "push 1", "pushref 0 h0", "pushref 1 h0", "pushref 0 h1", "pushref 1 h1",
                "pop", "remove h0", "remove h1", "clear"]
    out = []
    for seq in itertools.product(alphabet, repeat=depth):
        out.append(Case([f"cmp {style}", f"init {storage} {isz} 2"] + prefix + list(seq), {"isz": isz, "exhaustive": True, "nh": 2, "static": storage.startswith("static")}))
    return out


PREFILL = ["push 1", "push 0", "push 1", "pushref 1 h0", "push 0", "pushref 0 h1", "push 1"]


def gen_cases(rng, tier):
    n = 3000 if tier == "quick" else 40000
    cases = [gen_case(rng, rng.choice([12, 40, 90, 160])) for _ in range(n)]
    cases += exhaustive_cases([], 3) + exhaustive_cases(PREFILL, 3, isz=129, style="bool") + \
        exhaustive_cases([], 3, isz=1, storage="static 2", style="lazy") + exhaustive_cases(PREFILL, 2, isz=8, style="diff")
    if tier == "thorough":
        cases += exhaustive_cases([], 5) + exhaustive_cases(PREFILL, 4, isz=129) + exhaustive_cases([], 4, isz=300, storage="static 3")
    return cases


def debug_cases(rng, tier):
    """slice for the -DDEBUG_BUILD flavour: dynamic queues that own a handle array; pops and removes from every position"""
    out = []
    n = 500 if tier == "quick" else 6000
    while len(out) < n:
        c = gen_case(rng, rng.choice([20, 40, 90]))
        if c.tags.get("nh") and not c.tags.get("static"):
            c.tags["debug"] = True
            out.append(c)
    out += exhaustive_cases(PREFILL, 2, isz=129, style="bool")
    return out


def _debug_exe(ctx):
    try:
        return cbuild.build_harness(**dict(HARNESS, flavour="debug"))
    except cbuild.BuildError as e:
        ctx.machinery_broken("debug-flavour build: " + str(e)[:2000])
        return None


def extra_stages(ctx):
    """second configuration: the whole library with -DDEBUG_BUILD (cbuild flavour `debug`, ASan/UBSan): every
    AWS_PRECONDITION / AWS_POSTCONDITION(aws_priority_queue_is_valid(queue)) of priority_queue.c is live and aborts, so an
    intermediate state that breaks the queue's own validity predicate (container and back-pointer list of different
    length while a sift runs, ...) is a crash of the case.  Same op language, same model, same oracle."""
    exe = _debug_exe(ctx)
    if exe is None:
        return
    cases = debug_cases(ctx.rng, ctx.tier)
    keep = ctx.cov.get("distribution")
    first = len(ctx.violations)
    core.correspondence_stage(ctx, cases, exe)
    if keep is not None:
        ctx.cov["distribution"] = keep
    ctx.cov["debug_build_cases"] = len(cases)
    for name, text, path, no_input in ctx.violations[first:]:
        try:
            r = json.load(open(path))
        except Exception:
            continue
        if "ops" in r:
            r["debug_ops"] = r.pop("ops")
        r["flavour"] = "debug (-DDEBUG_BUILD library, ASan/UBSan)"
        with open(path, "w") as f:
            json.dump(r, f, indent=1)


def replay(ctx, r):
    if "debug_ops" not in r:
        print(json.dumps(r, indent=1)[:3000])
        return
    exe = _debug_exe(ctx)
    if exe is not None:
        core.correspondence_stage(ctx, [Case(r["debug_ops"], r.get("tags"))], exe)


# ---------------------------------------------------------------------------------------------
def _parse_result(l):
    """'P pop OK key=1 uid=3 size=4' -> (name, status, {key, uid, size})"""
    t = l.split()
    d = {}
    for x in t[3:]:
        if "=" in x:
            a, b = x.split("=", 1)
            d[a] = b
    return t[1], t[2], d


def oracle(case, lines):
    try:
        return _oracle(case, lines)
    except (ValueError, IndexError, KeyError) as e:
        return [f"malformed implementation output: {e!r}"]


def _oracle(case, lines):
    """Direct property oracle on the implementation's output only: reference multiset of (key, uid), handle -> uid
    map, expected results of every op, expected set of in-queue handles with the uid under each, static capacity."""
    errs = []
    P = [l for l in lines if not l.startswith("W ")]
    li = 0

    def nxt():
        nonlocal li
        l = P[li] if li < len(P) else None
        li += 1
        return l

    ref = {}            # uid -> key                       (isz >= 3)
    keys = Counter()    # multiset of keys                 (always)
    owner = {}          # handle -> uid of its element while that element is in the queue
    next_uid = 0
    cap = None
    isz = None
    nh = 0
    for op in case.ops:
        t = op.split()
        if t[0] == "cmp":
            if len(t) != 2 or t[1] not in ("three", "bool", "diff", "lazy"):
                nxt()
            continue
        if t[0] == "init":
            if len(t) != 5 or t[1] not in ("dyn", "static"):
                nxt(); continue
            if isz is not None:
                # harness resets on a second init
                ref, keys, owner, next_uid = {}, Counter(), {}, 0
            isz, nh = int(t[3]), int(t[4])
            cap = int(t[2]) if t[1] == "static" else None
            continue
        if isz is None:
            nxt(); continue
        precise = isz >= 3
        n_before = sum(keys.values())
        l = nxt()
        if l is None:
            errs.append(f"{op}: missing output"); break
        if l.startswith("P MONITOR"):
            errs.append("harness monitor: " + l); break
        if t[0] in ("push", "pushref"):
            k = int(t[1])
            h = int(t[2][1:]) if t[0] == "pushref" else None
            if l == "bad-op":
                # only legitimate for a handle that is still in the queue (or malformed operands)
                if precise and not (h is not None and (h in owner or h >= nh)) and k <= 255:
                    errs.append(f"{op}: refused by the harness although handle h{h} is not in the queue")
                continue
            name, status, d = _parse_result(l)
            uid = next_uid
            next_uid += 1
            if cap is not None and n_before >= cap:
                if status != "AWS_ERROR_LIST_EXCEEDS_MAX_SIZE":
                    errs.append(f"{op}: static queue of capacity {cap} holding {n_before} did not refuse the push: {l}")
            elif status == "OK":
                keys[k] += 1
                ref[uid] = k
                if h is not None:
                    if precise and h in owner:
                        errs.append(f"{op}: handle h{h} was still in the queue")
                    owner[h] = uid
            elif not (cap is not None and h is not None and status == "AWS_ERROR_UNSUPPORTED_OPERATION"):
                errs.append(f"{op}: push failed without reason: {l}")
            if int(d.get("size", -1)) != sum(keys.values()):
                errs.append(f"{op}: size {d.get('size')} but reference multiset holds {sum(keys.values())}")
        elif t[0] in ("pop", "top"):
            name, status, d = _parse_result(l)
            if n_before == 0:
                if status != "AWS_ERROR_PRIORITY_QUEUE_EMPTY":
                    errs.append(f"{op}: empty queue returned {l}")
            elif status != "OK":
                errs.append(f"{op}: failed on a queue of {n_before} elements: {l}")
            else:
                k = int(d["key"])
                if k != min(keys):
                    errs.append(f"{op}: returned key {k} but the minimum stored key is {min(keys)}")
                if keys[k] <= 0:
                    errs.append(f"{op}: returned key {k} which is not stored")
                if precise:
                    u = int(d["uid"])
                    if ref.get(u) != k:
                        errs.append(f"{op}: returned element (key {k}, uid {u}) is not in the reference multiset")
                if t[0] == "pop" and keys[k] > 0:
                    keys[k] -= 1
                    if keys[k] == 0:
                        del keys[k]
                    if precise:
                        u = int(d["uid"])
                        ref.pop(u, None)
                        for hh in [hh for hh, uu in owner.items() if uu == u]:
                            del owner[hh]
            if "size" in d and int(d["size"]) != sum(keys.values()):
                errs.append(f"{op}: size {d['size']} but reference multiset holds {sum(keys.values())}")
        elif t[0] == "remove":
            if l == "bad-op":
                continue
            h = int(t[1][1:])
            name, status, d = _parse_result(l)
            if precise:
                if h in owner:
                    u = owner[h]
                    if status != "OK":
                        errs.append(f"{op}: handle of stored element uid {u} was refused: {l}")
                    else:
                        if int(d["uid"]) != u or int(d["key"]) != ref[u]:
                            errs.append(f"{op}: removed (key {d['key']}, uid {d['uid']}) but the handle belongs to (key {ref[u]}, uid {u})")
                        ru = int(d["uid"])
                        if ru in ref:
                            kk = ref.pop(ru)
                            keys[kk] -= 1
                            if keys[kk] == 0:
                                del keys[kk]
                            for hh in [hh for hh, uu in owner.items() if uu == ru]:
                                del owner[hh]
                else:
                    if status != "AWS_ERROR_PRIORITY_QUEUE_BAD_NODE":
                        errs.append(f"{op}: stale / unused handle was not refused with BAD_NODE: {l}")
            else:
                if status == "OK":
                    kk = int(d["key"])
                    if keys[kk] <= 0:
                        errs.append(f"{op}: removed key {kk} which is not stored")
                    else:
                        keys[kk] -= 1
                        if keys[kk] == 0:
                            del keys[kk]
                elif status != "AWS_ERROR_PRIORITY_QUEUE_BAD_NODE":
                    errs.append(f"{op}: unexpected error {l}")
            if int(d.get("size", -1)) != sum(keys.values()):
                errs.append(f"{op}: size {d.get('size')} but reference multiset holds {sum(keys.values())}")
        elif t[0] == "clear":
            if l != "P clear OK size=0":
                errs.append(f"{op}: {l}")
            ref, keys, owner = {}, Counter(), {}
        else:
            continue
        # the state line: exactly the handles whose element is stored are in the queue, each over its own element
        l = nxt()
        if l is None or not l.startswith("P live"):
            errs.append(f"{op}: missing handle-state line ({l})"); break
        if precise:
            want = "P live" + "".join(f" h{h}={owner[h]}" for h in sorted(owner))
            if l != want:
                errs.append(f"{op}: handle states `{l}` but the reference says `{want}`")
        if li < len(P) and P[li].startswith("P MONITOR"):
            errs.append(f"{op}: harness monitor: " + nxt())
        if errs:
            break
    return errs


def nontrivial(case):
    pushes = sum(1 for o in case.ops if o.startswith("push"))
    href = sum(1 for o in case.ops if o.startswith("pushref"))
    out = sum(1 for o in case.ops if o.startswith(("pop", "remove")))
    return pushes >= 6 and href >= 1 and out >= 1


def distribution(cases, c_out):
    d = Counter()
    isz = Counter()
    maxsize = 0
    for i, c in enumerate(cases):
        for o in c.ops:
            d[o.split()[0]] += 1
        isz[str(c.tags.get("isz"))] += 1
        d["static_cases" if c.tags.get("static") else "dynamic_cases"] += 1
        for l in c_out.get(i, []):
            if l.startswith("P ") and "AWS_ERROR" in l and len(l.split()) > 2:
                d[l.split()[2]] += 1
            elif l.startswith("W heap"):
                maxsize = max(maxsize, len(l.split()) - 2)
    out = dict(d)
    out["isz_cases"] = dict(isz)
    out["cmp_style_cases"] = dict(Counter(str(c.tags.get("cmp", "three")) for c in cases))
    out["max_heap_size"] = maxsize
    return out


MANIFEST = dict(
    category="proof",
    design_ref="5.6",
    text=("Lean 4 theorems over the model of priority_queue.c (s_swap / s_sift_up / s_sift_down / s_sift_either / "
          "s_remove_node / push_ref with lazy back-pointer array / remove / pop / top / clear, index macros with their 64-bit "
          "wrap-around), for every legal operation sequence: heap order and the handle<->slot bijection are invariant, contents "
          "are a permutation of the reference multiset, pop/top return a minimum, every in-queue handle sits on the element it "
          "was pushed with, handles of departed elements are not-in-queue and are refused with BAD_NODE without any change, a "
          "static queue refuses pushes beyond its capacity and otherwise steps exactly like a dynamic one. Tied to /repo by a "
          "correspondence run of the compiled model against the real aws_priority_queue (ASan/UBSan, element sizes across the "
          "128-byte swap slice) plus a direct multiset/handle oracle and an in-harness monitor on the public struct fields."),
    note=("Trusted: Lean kernel; hand-written model Model/Heap.lean (tied by correspondence only); harness. Nat with <= "
          "is one instance; theorems hold for every comparator that is a total preorder on keys (CmpOK). Allocation failure not modelled."),
    technique="Lean 4 inductive invariants over all op sequences + model/implementation differential run + direct oracle",
)
