"""C02 generated layer: s_tolower_table (byte_buf.c) and the load-factor literal (hash_table.c) -> Lean."""
import os, re, subprocess
from lib import core, cbuild


def _c_int(tok):
    tok = tok.strip()
    m = re.fullmatch(r"'(\\?.)'", tok)
    if m:
        ch = m.group(1)
        esc = {"\\n": 10, "\\t": 9, "\\0": 0, "\\\\": 92, "\\'": 39, "\\r": 13}
        if ch in esc:
            return esc[ch]
        if len(ch) == 1:
            return ord(ch)
        raise core.GenError(f"s_tolower_table: unsupported character literal {tok}")
    m = re.fullmatch(r"(0[xX][0-9a-fA-F]+|\d+)[uUlL]*", tok)
    if m:
        return int(m.group(1), 0)
    raise core.GenError(f"s_tolower_table: unsupported initialiser element {tok!r}")


def strip_c_comments(src):
    src = re.sub(r"/\*.*?\*/", " ", src, flags=re.S)
    return re.sub(r"//[^\n]*", " ", src)


def tolower_table(repo):
    src = strip_c_comments(open(os.path.join(repo, "source", "byte_buf.c")).read())
    m = re.search(r"static\s+const\s+uint8_t\s+s_tolower_table\s*\[\s*\]\s*=\s*\{(.*?)\}\s*;", src, re.S)
    if not m:
        raise core.GenError("s_tolower_table initialiser not found in source/byte_buf.c")
    vals = [_c_int(t) for t in m.group(1).split(",") if t.strip()]
    if len(vals) != 256 or any(not (0 <= v < 256) for v in vals):
        raise core.GenError(f"s_tolower_table: expected 256 byte entries, found {len(vals)}")
    # the hash and the comparison must read the table the model reads: s_tolower_table[...]
    for fn in ("aws_hash_array_ignore_case", "aws_array_eq_ignore_case"):
        mm = re.search(re.escape(fn) + r"\s*\([^)]*\)\s*\{(.*?)\n\}", src, re.S)
        if not mm or "s_tolower_table[" not in mm.group(1):
            raise core.GenError(f"{fn} no longer reads s_tolower_table")
    return vals


def fnv_constants(repo):
    src = strip_c_comments(open(os.path.join(repo, "source", "byte_buf.c")).read())
    a = re.search(r"fnv_offset_basis\s*=\s*(0x[0-9a-fA-F]+)ULL", src)
    b = re.search(r"fnv_prime\s*=\s*(0x[0-9a-fA-F]+)ULL", src)
    if not a or not b:
        raise core.GenError("FNV constants not found in aws_hash_array_ignore_case")
    return int(a.group(1), 16), int(b.group(1), 16)


def load_factor(repo):
    src = strip_c_comments(open(os.path.join(repo, "source", "hash_table.c")).read())
    ms = re.findall(r"max_load_factor\s*=\s*([0-9.eE+-]+)\s*;", src)
    if len(ms) != 1:
        raise core.GenError(f"expected exactly one assignment to max_load_factor, found {len(ms)}")
    num, den = float(ms[0]).as_integer_ratio()
    if num <= 0 or den & (den - 1):
        raise core.GenError("max_load_factor literal is not a positive finite double")
    return ms[0], num, den


_MIX_SHAPE = ("a-=c;a^=rot(c,{});c+=b;b-=a;b^=rot(a,{});a+=c;c-=b;c^=rot(b,{});b+=a;"
              "a-=c;a^=rot(c,{});c+=b;b-=a;b^=rot(a,{});a+=c;c-=b;c^=rot(b,{});b+=a;")
_FINAL_SHAPE = ("c^=b;c-=rot(b,{});a^=c;a-=rot(c,{});b^=a;b-=rot(a,{});c^=b;c-=rot(b,{});"
                "a^=c;a-=rot(c,{});b^=a;b-=rot(a,{});c^=b;c-=rot(b,{});")


def _macro_body(src, name):
    m = re.search(r"#define\s+" + name + r"\(a,b,c\)\s*\\\n\{(.*?)\n\}", src, re.S)
    if not m:
        raise core.GenError(f"lookup3: macro {name}(a,b,c) not found")
    return re.sub(r"[\s\\]+", "", m.group(1))


def _match_shape(body, shape, name):
    rx = re.escape(shape).replace(re.escape("{}"), r"(\d+)")
    m = re.fullmatch(rx, body)
    if not m:
        raise core.GenError(f"lookup3: body of {name}() is not the modelled statement sequence: {body[:120]}")
    rots = [int(x) for x in m.groups()]
    if any(not (0 < r < 32) for r in rots):
        raise core.GenError(f"lookup3: rotation amount out of range in {name}()")
    return rots


def lookup3_constants(repo):
    src = strip_c_comments(open(os.path.join(repo, "include", "aws", "common", "private", "lookup3.inl")).read())
    if not re.search(r"#define\s+rot\(x,k\)\s+\(\(\(x\)<<\(k\)\)\s*\|\s*\(\(x\)>>\(32-\(k\)\)\)\)", src):
        raise core.GenError("lookup3: rot(x,k) is not a 32-bit left rotation as modelled")
    mix = _match_shape(_macro_body(src, "mix"), _MIX_SHAPE, "mix")
    fin = _match_shape(_macro_body(src, "final"), _FINAL_SHAPE, "final")
    m = re.search(r"static\s+void\s+hashlittle2\s*\(.*?\)\s*\{(.*?)\n\}", src, re.S)
    if not m:
        raise core.GenError("lookup3: hashlittle2 not found")
    body = m.group(1)
    mi = re.search(r"a\s*=\s*b\s*=\s*c\s*=\s*(0x[0-9a-fA-F]+)\s*\+\s*\(\(uint32_t\)length\)\s*\+\s*\*pc\s*;\s*c\s*\+=\s*\*pb\s*;", body)
    if not mi:
        raise core.GenError("lookup3: hashlittle2 initialisation is not `a=b=c=K+(uint32_t)length+*pc; c+=*pb;`")
    if body.count("while (length > 12)") != 3 or "final(a,b,c);" not in body:
        raise core.GenError("lookup3: hashlittle2 block structure (three `while (length > 12)` paths, then final) changed")
    basis = int(mi.group(1), 16)
    # callers in hash_table.c
    hsrc = strip_c_comments(open(os.path.join(repo, "source", "hash_table.c")).read())
    inits = {}
    for fn, call in (("aws_hash_c_string", r"hashlittle2\(str,\s*strlen\(str\),\s*&c,\s*&b\)"),
                     ("aws_hash_string", r"hashlittle2\(aws_string_bytes\(str\),\s*str->len,\s*&c,\s*&b\)"),
                     ("aws_hash_byte_cursor_ptr", r"hashlittle2\(cur->ptr,\s*cur->len,\s*&c,\s*&b\)"),
                     ("aws_hash_ptr", r"hashlittle2\(&item,\s*sizeof\(item\),\s*&c,\s*&b\)")):
        mm = re.search(r"uint64_t\s+" + fn + r"\s*\([^)]*\)\s*\{(.*?)\n\}", hsrc, re.S)
        if not mm:
            raise core.GenError(f"{fn} not found in hash_table.c")
        fb = mm.group(1)
        mv = re.search(r"uint32_t\s+b\s*=\s*(0x[0-9a-fA-F]+)\s*,\s*c\s*=\s*(0x[0-9a-fA-F]+)\s*;", fb)
        if not mv or not re.search(call, fb) or not re.search(r"\(\(uint64_t\)b\s*<<\s*32\)\s*\|\s*c", fb):
            raise core.GenError(f"{fn}: not `b=K1,c=K2; hashlittle2(bytes,len,&c,&b); return (b<<32)|c` as modelled")
        inits[fn] = (int(mv.group(1), 16), int(mv.group(2), 16))
    if not (inits["aws_hash_c_string"] == inits["aws_hash_string"] == inits["aws_hash_byte_cursor_ptr"]):
        raise core.GenError("the three content hashes no longer share their initial values")
    return mix, fin, basis, inits["aws_hash_string"], inits["aws_hash_ptr"]


def regen(ctx=None):
    repo = cbuild.REPO
    mix, fin, basis, sinit, pinit = lookup3_constants(repo)
    core.write_if_changed(os.path.join(core.LEAN, "AwsVerif", "Gen", "Lookup3.lean"),
        "/- GENERATED from /repo/include/aws/common/private/lookup3.inl and source/hash_table.c by props/c02_gen.py; do not edit -/\n"
        "namespace AwsVerif.Gen\n"
        f"def l3MixRots : List Nat := {mix}\n"
        f"def l3FinalRots : List Nat := {fin}\n"
        f"def l3Basis : Nat := {basis}\n"
        f"def l3StrInitB : Nat := {sinit[0]}\n"
        f"def l3StrInitC : Nat := {sinit[1]}\n"
        f"def l3PtrInitB : Nat := {pinit[0]}\n"
        f"def l3PtrInitC : Nat := {pinit[1]}\n"
        "end AwsVerif.Gen\n")
    vals = tolower_table(repo)
    off, prime = fnv_constants(repo)
    lit, num, den = load_factor(repo)
    gen = os.path.join(core.LEAN, "AwsVerif", "Gen")
    rows = [", ".join(str(v) for v in vals[i:i + 16]) for i in range(0, 256, 16)]
    core.write_if_changed(os.path.join(gen, "Tolower.lean"),
        "/- GENERATED from /repo/source/byte_buf.c (s_tolower_table, FNV constants) by props/c02_gen.py; do not edit -/\n"
        "namespace AwsVerif.Gen\n"
        "def tolowerTable : Array UInt8 := #[\n  " + ",\n  ".join(rows) + "]\n"
        f"def fnvOffsetBasis : Nat := {off}\n"
        f"def fnvPrime : Nat := {prime}\n"
        "end AwsVerif.Gen\n")
    core.write_if_changed(os.path.join(gen, "HashConst.lean"),
        "/- GENERATED from /repo/source/hash_table.c (max_load_factor literal) by props/c02_gen.py; do not edit -/\n"
        "namespace AwsVerif.Gen\n"
        f"/-- the double nearest to the literal `{lit}` is exactly loadFactorNum / loadFactorDen -/\n"
        f"def loadFactorNum : Nat := {num}\n"
        f"def loadFactorDen : Nat := {den}\n"
        "end AwsVerif.Gen\n")


if __name__ == "__main__":
    regen()
