"""C02 generated layer: s_tolower_table (byte_buf.c) and the load-factor literal (hash_table.c) -> Lean."""
import os, re, subprocess
from lib import core, cbuild


def _c_int(tok):
    tok = tok.strip()
    m = re.fullmatch(r"'(\\?.)'", tok)
    if m:
        ch = m.group(1)
        esc = {"\\n": 10, "\\t": 9, "\\0": 0, "\\\\": 92, "\\'": 39, "\\r": 13}
        if ch in esc:
            return esc[ch]
        if len(ch) == 1:
            return ord(ch)
        raise core.GenError(f"s_tolower_table: unsupported character literal {tok}")
    m = re.fullmatch(r"(0[xX][0-9a-fA-F]+|\d+)[uUlL]*", tok)
    if m:
        return int(m.group(1), 0)
    raise core.GenError(f"s_tolower_table: unsupported initialiser element {tok!r}")


def strip_c_comments(src):
    src = re.sub(r"/\*.*?\*/", " ", src, flags=re.S)
    return re.sub(r"//[^\n]*", " ", src)


def tolower_table(repo):
    src = strip_c_comments(open(os.path.join(repo, "source", "byte_buf.c")).read())
    m = re.search(r"static\s+const\s+uint8_t\s+s_tolower_table\s*\[\s*\]\s*=\s*\{(.*?)\}\s*;", src, re.S)
    if not m:
        raise core.GenError("s_tolower_table initialiser not found in source/byte_buf.c")
    vals = [_c_int(t) for t in m.group(1).split(",") if t.strip()]
    if len(vals) != 256 or any(not (0 <= v < 256) for v in vals):
        raise core.GenError(f"s_tolower_table: expected 256 byte entries, found {len(vals)}")
    # the hash and the comparison must read the table the model reads: s_tolower_table[...]
    for fn in ("aws_hash_array_ignore_case", "aws_array_eq_ignore_case"):
        mm = re.search(re.escape(fn) + r"\s*\([^)]*\)\s*\{(.*?)\n\}", src, re.S)
        if not mm or "s_tolower_table[" not in mm.group(1):
            raise core.GenError(f"{fn} no longer reads s_tolower_table")
    return vals


def fnv_constants(repo):
    src = strip_c_comments(open(os.path.join(repo, "source", "byte_buf.c")).read())
    a = re.search(r"fnv_offset_basis\s*=\s*(0x[0-9a-fA-F]+)ULL", src)
    b = re.search(r"fnv_prime\s*=\s*(0x[0-9a-fA-F]+)ULL", src)
    if not a or not b:
        raise core.GenError("FNV constants not found in aws_hash_array_ignore_case")
    return int(a.group(1), 16), int(b.group(1), 16)


def load_factor(repo):
    src = strip_c_comments(open(os.path.join(repo, "source", "hash_table.c")).read())
    ms = re.findall(r"max_load_factor\s*=\s*([0-9.eE+-]+)\s*;", src)
    if len(ms) != 1:
        raise core.GenError(f"expected exactly one assignment to max_load_factor, found {len(ms)}")
    num, den = float(ms[0]).as_integer_ratio()
    if num <= 0 or den & (den - 1):
        raise core.GenError("max_load_factor literal is not a positive finite double")
    return ms[0], num, den


_MIX_SHAPE = ("a-=c;a^=rot(c,{});c+=b;b-=a;b^=rot(a,{});a+=c;c-=b;c^=rot(b,{});b+=a;"
              "a-=c;a^=rot(c,{});c+=b;b-=a;b^=rot(a,{});a+=c;c-=b;c^=rot(b,{});b+=a;")
_FINAL_SHAPE = ("c^=b;c-=rot(b,{});a^=c;a-=rot(c,{});b^=a;b-=rot(a,{});c^=b;c-=rot(b,{});"
                "a^=c;a-=rot(c,{});b^=a;b-=rot(a,{});c^=b;c-=rot(b,{});")


def _macro_body(src, name):
    m = re.search(r"#define\s+" + name + r"\(a,b,c\)\s*\\\n\{(.*?)\n\}", src, re.S)
    if not m:
        raise core.GenError(f"lookup3: macro {name}(a,b,c) not found")
    return re.sub(r"[\s\\]+", "", m.group(1))


def _match_shape(body, shape, name):
    rx = re.escape(shape).replace(re.escape("{}"), r"(\d+)")
    m = re.fullmatch(rx, body)
    if not m:
        raise core.GenError(f"lookup3: body of {name}() is not the modelled statement sequence: {body[:120]}")
    rots = [int(x) for x in m.groups()]
    if any(not (0 < r < 32) for r in rots):
        raise core.GenError(f"lookup3: rotation amount out of range in {name}()")
    return rots


def lookup3_constants(repo):
    src = strip_c_comments(open(os.path.join(repo, "include", "aws", "common", "private", "lookup3.inl")).read())
    if not re.search(r"#define\s+rot\(x,k\)\s+\(\(\(x\)<<\(k\)\)\s*\|\s*\(\(x\)>>\(32-\(k\)\)\)\)", src):
        raise core.GenError("lookup3: rot(x,k) is not a 32-bit left rotation as modelled")
    mix = _match_shape(_macro_body(src, "mix"), _MIX_SHAPE, "mix")
    fin = _match_shape(_macro_body(src, "final"), _FINAL_SHAPE, "final")
    m = re.search(r"static\s+void\s+hashlittle2\s*\(.*?\)\s*\{(.*?)\n\}", src, re.S)
    if not m:
        raise core.GenError("lookup3: hashlittle2 not found")
    body = m.group(1)
    mi = re.search(r"a\s*=\s*b\s*=\s*c\s*=\s*(0x[0-9a-fA-F]+)\s*\+\s*\(\(uint32_t\)length\)\s*\+\s*\*pc\s*;\s*c\s*\+=\s*\*pb\s*;", body)
    if not mi:
        raise core.GenError("lookup3: hashlittle2 initialisation is not `a=b=c=K+(uint32_t)length+*pc; c+=*pb;`")
    if body.count("while (length > 12)") != 3 or "final(a,b,c);" not in body:
        raise core.GenError("lookup3: hashlittle2 block structure (three `while (length > 12)` paths, then final) changed")
    basis = int(mi.group(1), 16)
    # callers in hash_table.c
    hsrc = strip_c_comments(open(os.path.join(repo, "source", "hash_table.c")).read())
    inits = {}
    for fn, call in (("aws_hash_c_string", r"hashlittle2\(str,\s*strlen\(str\),\s*&c,\s*&b\)"),
                     ("aws_hash_string", r"hashlittle2\(aws_string_bytes\(str\),\s*str->len,\s*&c,\s*&b\)"),
                     ("aws_hash_byte_cursor_ptr", r"hashlittle2\(cur->ptr,\s*cur->len,\s*&c,\s*&b\)"),
                     ("aws_hash_ptr", r"hashlittle2\(&item,\s*sizeof\(item\),\s*&c,\s*&b\)")):
        mm = re.search(r"uint64_t\s+" + fn + r"\s*\([^)]*\)\s*\{(.*?)\n\}", hsrc, re.S)
        if not mm:
            raise core.GenError(f"{fn} not found in hash_table.c")
        fb = mm.group(1)
        mv = re.search(r"uint32_t\s+b\s*=\s*(0x[0-9a-fA-F]+)\s*,\s*c\s*=\s*(0x[0-9a-fA-F]+)\s*;", fb)
        if not mv or not re.search(call, fb) or not re.search(r"\(\(uint64_t\)b\s*<<\s*32\)\s*\|\s*c", fb):
            raise core.GenError(f"{fn}: not `b=K1,c=K2; hashlittle2(bytes,len,&c,&b); return (b<<32)|c` as modelled")
        inits[fn] = (int(mv.group(1), 16), int(mv.group(2), 16))
    if not (inits["aws_hash_c_string"] == inits["aws_hash_string"] == inits["aws_hash_byte_cursor_ptr"]):
        raise core.GenError("the three content hashes no longer share their initial values")
    return mix, fin, basis, inits["aws_hash_string"], inits["aws_hash_ptr"]


# ---- the three alignment paths of hashlittle2: block-loop adds and tail switch, as term tables
def _split_top(expr, sep):
    out, depth, cur, i = [], 0, "", 0
    while i < len(expr):
        ch = expr[i]
        if ch == "(":
            depth += 1
        elif ch == ")":
            depth -= 1
        if depth == 0 and expr.startswith(sep, i):
            out.append(cur); cur = ""; i += len(sep); continue
        cur += ch; i += 1
    out.append(cur)
    return out


def _strip_parens(e):
    while e.startswith("(") and e.endswith(")"):
        depth = 0
        for i, ch in enumerate(e):
            depth += ch == "("
            depth -= ch == ")"
            if depth == 0 and i < len(e) - 1:
                return e
        e = e[1:-1]
    return e


def _parse_summand(e, kwidth, what):
    """ATOM | ATOM&MASK | (ATOM)<<N with ATOM = k[i] | k8[i] (casts to uint32_t removed) -> (width, byte offset, mask, shift)"""
    e = _strip_parens(e.replace("(uint32_t)", ""))
    shift, mask = 0, 0xFFFFFFFF
    parts = _split_top(e, "<<")
    if len(parts) == 2:
        e, shift = _strip_parens(parts[0]), int(parts[1])
    elif len(parts) != 1:
        raise core.GenError(f"lookup3 {what}: unsupported expression {e}")
    parts = _split_top(e, "&")
    if len(parts) == 2:
        e, mask = _strip_parens(parts[0]), int(parts[1], 16)
    elif len(parts) != 1:
        raise core.GenError(f"lookup3 {what}: unsupported expression {e}")
    m = re.fullmatch(r"(k8?)\[(\d+)\]", _strip_parens(e))
    if not m or not (0 <= shift < 32) or not (0 <= mask <= 0xFFFFFFFF):
        raise core.GenError(f"lookup3 {what}: unsupported operand {e}")
    width = 1 if m.group(1) == "k8" else kwidth
    return (width, int(m.group(2)) * width, mask, shift)


def _parse_adds(stmts, kwidth, what):
    terms = []
    for st in stmts:
        m = re.fullmatch(r"([abc])\+=(.+)", st)
        if not m:
            raise core.GenError(f"lookup3 {what}: statement `{st}` is not `a|b|c += ...`")
        for sm in _split_top(m.group(2), "+"):
            terms.append(("abc".index(m.group(1)),) + _parse_summand(sm, kwidth, what))
    return terms


def lookup3_paths(repo, valgrind=False):
    """the three paths of hashlittle2 as compiled WITHOUT (default) or WITH -DVALGRIND (byte-exact tail of the 32-bit path)"""
    raw = open(os.path.join(repo, "include", "aws", "common", "private", "lookup3.inl")).read()
    src = strip_c_comments(raw)
    m = re.search(r"static\s+void\s+hashlittle2\s*\(.*?\)\s*\{(.*?)\n\}", src, re.S)
    if not m:
        raise core.GenError("lookup3: hashlittle2 not found")
    body = m.group(1)
    # CBMC-only blocks carry pragmas only; the `#ifndef VALGRIND ... #else ... #endif` is resolved per configuration
    for blk in re.findall(r"#ifdef CBMC(.*?)#endif", body, re.S):
        if any(l.strip() and not l.strip().startswith("#") for l in blk.splitlines()):
            raise core.GenError("lookup3: an `#ifdef CBMC` block inside hashlittle2 carries code")
    body = re.sub(r"#ifdef CBMC.*?#endif", "", body, flags=re.S)
    if len(re.findall(r"#ifndef VALGRIND", body)) != 1:
        raise core.GenError("lookup3: expected one `#ifndef VALGRIND` in hashlittle2")
    if len(re.findall(r"#ifndef VALGRIND.*?#else.*?#endif", body, re.S)) != 1:
        raise core.GenError("lookup3: `#ifndef VALGRIND ... #else ... #endif` not found in hashlittle2")
    body = re.sub(r"#ifndef VALGRIND(.*?)#else(.*?)#endif", lambda mm: mm.group(2 if valgrind else 1), body, flags=re.S)
    if "#" in body:
        raise core.GenError("lookup3: unexpected preprocessor directive left in hashlittle2")
    flat = re.sub(r"\s+", "", body)
    mm = re.fullmatch(r"uint32_ta,b,c;union\{constvoid\*ptr;size_ti;\}u;a=b=c=0x[0-9a-fA-F]+\+\(\(uint32_t\)length\)\+\*pc;c\+=\*pb;u\.ptr=key;"
                      r"if\(HASH_LITTLE_ENDIAN&&\(\(u\.i&0x3\)==0\)\)\{(.*)\}elseif\(HASH_LITTLE_ENDIAN&&\(\(u\.i&0x1\)==0\)\)\{(.*)\}"
                      r"else\{(.*)\}final\(a,b,c\);\*pc=c;\*pb=b;", flat)
    if not mm:
        raise core.GenError("lookup3: hashlittle2 is not `init; if (aligned 4) {..} else if (aligned 2) {..} else {..} final; store` as modelled")
    out = []
    for idx, (txt, bits) in enumerate(zip(mm.groups(), (32, 16, 8))):
        what = f"hashlittle2 {bits}-bit path" + (" (-DVALGRIND)" if valgrind else "")
        width = bits // 8
        pm = re.fullmatch(r"constuint%d_t\*k=\(constuint%d_t\*\)key;while\(length>12\)\{(.*?)mix\(a,b,c\);length-=12;k\+=(\d+);\}"
                          r"(constuint8_t\*k8=\(constuint8_t\*\)k;)?switch\(length\)\{(.*)\}" % (bits, bits), txt)
        if not pm or int(pm.group(2)) * width != 12:
            raise core.GenError(f"lookup3 {what}: not `k = key; while (length > 12) {{adds; mix; length -= 12; k += 12 bytes}} switch(length) {{..}}`")
        if "k8[" in pm.group(4) and not pm.group(3) and bits != 8:
            raise core.GenError(f"lookup3 {what}: k8 used without `k8 = (const uint8_t *)k`")
        block = _parse_adds([x for x in pm.group(1).split(";") if x], width, what)
        pieces = re.split(r"case(\d+):", pm.group(4))
        if pieces[0] != "":
            raise core.GenError(f"lookup3 {what}: code before the first case label")
        labels = [int(x) for x in pieces[1::2]]
        if labels != list(range(12, -1, -1)):
            raise core.GenError(f"lookup3 {what}: case labels are not 12..0 in descending order")
        cases = {}
        for lab, code in zip(labels, pieces[2::2]):
            stmts = [x for x in code.split(";") if x]
            cases[lab] = stmts
        if cases[0] != ["*pc=c", "*pb=b", "return"]:
            raise core.GenError(f"lookup3 {what}: case 0 is not `*pc=c; *pb=b; return;`")
        tail = [[]]
        for L in range(1, 13):
            stmts, lab = [], L
            while True:
                cs = cases[lab]
                if cs and cs[-1] == "break":
                    stmts += cs[:-1]; break
                if "break" in cs or "return" in cs or lab == 1:
                    raise core.GenError(f"lookup3 {what}: unsupported control flow in case {lab}")
                stmts += cs
                lab -= 1
            tail.append(_parse_adds(stmts, width, what + f" case {L}"))
        out.append((block, tail))
    return out


# ---- quick evaluation of the extracted tables against the byte-wise definition (fails fast, with a witness, before
# the Lean build is attempted; the Lean side repeats this as Proofs/C02/Lookup3Guard.lean and then proves it in general)
_M32 = 0xFFFFFFFF


def _rot(x, k):
    return ((x << k) | (x >> (32 - k))) & _M32


def _mix(a, b, c, r):
    a = (a - c) & _M32; a ^= _rot(c, r[0]); c = (c + b) & _M32
    b = (b - a) & _M32; b ^= _rot(a, r[1]); a = (a + c) & _M32
    c = (c - b) & _M32; c ^= _rot(b, r[2]); b = (b + a) & _M32
    a = (a - c) & _M32; a ^= _rot(c, r[3]); c = (c + b) & _M32
    b = (b - a) & _M32; b ^= _rot(a, r[4]); a = (a + c) & _M32
    c = (c - b) & _M32; c ^= _rot(b, r[5]); b = (b + a) & _M32
    return a, b, c


def _final(a, b, c, r):
    c ^= b; c = (c - _rot(b, r[0])) & _M32
    a ^= c; a = (a - _rot(c, r[1])) & _M32
    b ^= a; b = (b - _rot(a, r[2])) & _M32
    c ^= b; c = (c - _rot(b, r[3])) & _M32
    a ^= c; a = (a - _rot(c, r[4])) & _M32
    b ^= a; b = (b - _rot(a, r[5])) & _M32
    c ^= b; c = (c - _rot(b, r[6])) & _M32
    return a, b, c


def _run_path(mem, n, blk, tail, consts, pc=5, pb=9):
    mixr, finr, basis = consts
    def add(regs, terms, base):
        for tgt, width, off, mask, shift in terms:
            v = sum((mem[base + off + i] if base + off + i < len(mem) else 0) << (8 * i) for i in range(width))
            regs[tgt] = (regs[tgt] + (((v & mask) << shift) & _M32)) & _M32
    init = (basis + n + pc) & _M32
    regs = [init, init, (init + pb) & _M32]
    base = 0
    while n > 12:
        add(regs, blk, base)
        regs = list(_mix(*regs, mixr))
        n -= 12; base += 12
    if n == 0:
        return regs[2], regs[1]
    add(regs, tail[n], base)
    a, b, c = _final(*regs, finr)
    return c, b


_BYTE_TAIL = [[(r, 1, p, _M32, 8 * (p % 4)) for r in range(3) for p in range(4 * r, min(4 * r + 4, L))] for L in range(13)]
_BYTE_BLOCK = _BYTE_TAIL[12]


def check_paths(paths, consts, label=""):
    import random
    rng = random.Random(20240607)
    for bits, (blk, tail) in zip((32, 16, 8), paths):
        for n in list(range(0, 41)) * 3:
            key = bytes(rng.randrange(256) for _ in range(n))
            after = bytes(rng.choice([0xFF, 0x0F, 0xF0, 0x01, 0x80, rng.randrange(256)]) for _ in range(4))
            want = _run_path(key, n, _BYTE_BLOCK, _BYTE_TAIL, consts)
            got = _run_path(key + after, n, blk, tail, consts)
            if got != want:
                raise core.GenError(f"lookup3: the {bits}-bit-load path of hashlittle2{label} as written no longer computes the byte-wise "
                                    f"function: key={key.hex() or '-'} (length {n}) followed in memory by {after.hex()}: "
                                    f"(pc,pb)=({got[0]:08x},{got[1]:08x}) but byte-wise ({want[0]:08x},{want[1]:08x})")


def _lean_terms(ts):
    return "[" + ", ".join("(%d, %d, %d, %d, %d)" % t for t in ts) + "]"


# ---- hash_table_state_is_valid: the integer conjuncts, re-translated through gen/cfun.py
_VALID_INT_FIELDS = ["size", "entry_count", "max_load", "mask"]


def state_valid(repo):
    """`hash_table_state_is_valid` must be: `if (!map) { return false; }`, a list of `bool NAME = EXPR;`, and
    `return NAME && NAME && ...;` over exactly those names.  The conjuncts that only read the integer fields
    size / entry_count / max_load / mask (and call aws_is_power_of_two) are put into a stub function and translated by
    gen/cfun.py; the others (pointer non-NULL tests, the load-factor double, the slots allocation) are listed by name."""
    from gen import cfun, bytebuf_fns
    path = os.path.join(repo, "source", "hash_table.c")
    src = strip_c_comments(open(path).read())
    try:
        body = bytebuf_fns.function_body(src, "hash_table_state_is_valid")
    except cfun.GenError:
        raise core.GenError("hash_table_state_is_valid not found in hash_table.c")
    body = " ".join(body.strip()[1:-1].split())
    m = re.match(r"if \( ?!map ?\) \{ return false; \} ", body)
    if not m:
        raise core.GenError("hash_table_state_is_valid no longer starts with `if (!map) { return false; }`")
    stmts = [x.strip() for x in body[m.end():].split(";") if x.strip()]
    decls, ret = [], None
    for st in stmts:
        md = re.fullmatch(r"bool (\w+) = (.*)", st)
        if md and ret is None:
            decls.append((md.group(1), md.group(2)))
            continue
        mr = re.fullmatch(r"return (.*)", st)
        if mr and ret is None:
            ret = [x.strip() for x in mr.group(1).split("&&")]
            continue
        raise core.GenError(f"hash_table_state_is_valid: unexpected statement `{st}`")
    names = [d[0] for d in decls]
    if ret is None or sorted(ret) != sorted(names) or len(set(ret)) != len(ret):
        raise core.GenError(f"hash_table_state_is_valid: the returned conjunction {ret} is not exactly the declared conditions {names}")
    params = ["map_" + f for f in _VALID_INT_FIELDS]
    ints, others = [], []
    for name, expr in decls:
        e = re.sub(r"\bmap\s*->\s*(\w+)", r"map_\1", expr)
        ids = set(re.findall(r"\b[A-Za-z_]\w*\b", e))
        if ids <= set(params) | {"aws_is_power_of_two"} and ids & set(params):
            ints.append((name, expr, e))
        else:
            others.append((name, expr))
    for need in ("size", "entry_count", "max_load", "mask"):
        if not any(("map_" + need) in e for _, _, e in ints):
            raise core.GenError(f"hash_table_state_is_valid no longer constrains map->{need}")
    stub = ("static bool verif_ht_state_valid_int(" + ", ".join("size_t " + q for q in params) + ") { " +
            " ".join(f"bool {n} = {e};" for n, _, e in ints) + " return " + " && ".join(n for n, _, _ in ints) + "; }\n")
    inc = ["-I" + os.path.join(repo, "include"), "-I" + cbuild.config_include(), "-I" + os.path.join(repo, "source")]
    nodes = cfun.dump_functions(f'#include "{path}"\n' + stub, "verif_ht_state_valid_int", inc)
    if "verif_ht_state_valid_int" not in nodes:
        raise core.GenError("stub for hash_table_state_is_valid was not parsed")

    def resolve(cname):
        if cname == "aws_is_power_of_two":
            return ("Math.MathInl.aws_is_power_of_two", {"kind": "value", "params": [("x", (64, False))], "ret": (1, False)})
        return None
    try:
        tr = cfun.FnTranslator(bytebuf_fns.prepare(nodes["verif_ht_state_valid_int"]), "stateValidInt", resolve, {}, fuel=8)
        text, info = tr.translate()
    except cfun.GenError as e:
        raise core.GenError("hash_table_state_is_valid: " + str(e))
    doc = "; ".join(f"{n} = {x}" for n, x, _ in ints)
    core.write_if_changed(os.path.join(core.LEAN, "AwsVerif", "Gen", "HashValid.lean"),
        "import AwsVerif.Gen.Math\n"
        "/-! GENERATED from `hash_table_state_is_valid` in /repo/source/hash_table.c by props/c02_gen.py (through gen/cfun.py); do not edit. -/\n"
        "set_option linter.unusedVariables false\n"
        "namespace AwsVerif.Gen.HashValid\nopen AwsVerif.Gen\n\n"
        f"/-- the conjuncts of `hash_table_state_is_valid` that read the integer fields, as written: {doc} -/\n"
        + text + "\n\n"
        "/-- the remaining conjuncts (non-NULL tests, the load-factor double, the slots allocation), by name -/\n"
        "def stateValidOther : List String := [" + ", ".join('"' + n + '"' for n, _ in others) + "]\n\n"
        "/-- `aws_hash_iter_is_valid` after its NULL / table-validity tests, as written: the `limit > size` test and the switch over\n"
        "`iter->status` (DONE = 0, DELETE_CALLED = 1, READY_FOR_USE = 2); `slot_hash` = `slots[iter->slot].hash_code` -/\n"
        + iter_valid(repo) + "\n\n"
        "end AwsVerif.Gen.HashValid\n")

def iter_valid(repo):
    """the tail of `aws_hash_iter_is_valid` (after the NULL / table-validity tests): the `limit > size` test and the switch
    over the status, put into a stub over (limit, size, status, slot, hash code of the slot) and translated by gen/cfun.py"""
    from gen import cfun, bytebuf_fns
    path = os.path.join(repo, "source", "hash_table.c")
    src = strip_c_comments(open(path).read())
    try:
        body = " ".join(bytebuf_fns.function_body(src, "aws_hash_iter_is_valid").split())
    except cfun.GenError:
        raise core.GenError("aws_hash_iter_is_valid not found in hash_table.c")
    head = ("{ if (!iter) { return false; } if (!iter->map) { return false; } if (!aws_hash_table_is_valid(iter->map)) { return false; } ")
    if not body.startswith(head):
        raise core.GenError("aws_hash_iter_is_valid no longer starts with the NULL tests and aws_hash_table_is_valid(iter->map)")
    tail = body[len(head):]
    if not tail.endswith("} return false; }"):
        raise core.GenError("aws_hash_iter_is_valid no longer ends with `switch (...) {...} return false;`")
    tail = tail[:-len("} return false; }")] + "default: return false; } }"      # same meaning: no case matched
    hdr = strip_c_comments(open(os.path.join(repo, "include", "aws", "common", "hash_table.h")).read())
    m = re.search(r"enum\s+aws_hash_iter_status\s*\{\s*AWS_HASH_ITER_STATUS_DONE\s*,\s*AWS_HASH_ITER_STATUS_DELETE_CALLED\s*,\s*AWS_HASH_ITER_STATUS_READY_FOR_USE\s*,?\s*\}", hdr)
    if not m:
        raise core.GenError("enum aws_hash_iter_status is no longer DONE, DELETE_CALLED, READY_FOR_USE (0, 1, 2)")
    for k, v in (("AWS_HASH_ITER_STATUS_DONE", "0"), ("AWS_HASH_ITER_STATUS_DELETE_CALLED", "1"), ("AWS_HASH_ITER_STATUS_READY_FOR_USE", "2")):
        tail = tail.replace(k, v)
    tail = tail.replace("iter->map->p_impl->slots[iter->slot].hash_code", "slot_hash").replace("iter->map->p_impl->size", "map_size")
    tail = re.sub(r"\biter\s*->\s*(limit|slot|status)\b", r"iter_\1", tail)
    ids = set(re.findall(r"\b[A-Za-z_]\w*\b", tail)) - {"if", "return", "false", "true", "switch", "case", "default", "SIZE_MAX"}
    params = ["iter_limit", "map_size", "iter_status", "iter_slot", "slot_hash"]
    if ids - set(params):
        raise core.GenError(f"aws_hash_iter_is_valid reads {sorted(ids - set(params))} besides limit / size / status / slot / the slot's hash code")
    stub = "static bool verif_hash_iter_valid(size_t iter_limit, size_t map_size, int iter_status, size_t iter_slot, uint64_t slot_hash) { " + tail + "\n"
    inc = ["-I" + os.path.join(repo, "include"), "-I" + cbuild.config_include(), "-I" + os.path.join(repo, "source")]
    nodes = cfun.dump_functions(f'#include "{path}"\n' + stub, "verif_hash_iter_valid", inc)
    if "verif_hash_iter_valid" not in nodes:
        raise core.GenError("stub for aws_hash_iter_is_valid was not parsed")
    try:
        tr = cfun.FnTranslator(bytebuf_fns.prepare(nodes["verif_hash_iter_valid"]), "iterValidInt", lambda c: None, {}, fuel=8)
        text, info = tr.translate()
    except cfun.GenError as e:
        raise core.GenError("aws_hash_iter_is_valid: " + str(e))
    return text


def regen(ctx=None):
    repo = cbuild.REPO
    mix, fin, basis, sinit, pinit = lookup3_constants(repo)
    paths = lookup3_paths(repo)
    vpaths = lookup3_paths(repo, valgrind=True)
    if vpaths[1] != paths[1] or vpaths[2] != paths[2] or vpaths[0][0] != paths[0][0]:
        raise core.GenError("lookup3: -DVALGRIND changes more than the tail switch of the 32-bit path")
    _write_paths(paths, vpaths)
    _write_rest(repo, mix, fin, basis, sinit, pinit)
    state_valid(repo)
    # last: every generated file is in place (the model driver can still be built) when this raises
    check_paths(paths, (mix, fin, basis))
    check_paths(vpaths[:1], (mix, fin, basis), " in the -DVALGRIND configuration")


def _write_paths(paths, vpaths):
    core.write_if_changed(os.path.join(core.LEAN, "AwsVerif", "Gen", "Lookup3Paths.lean"),
        "/- GENERATED from hashlittle2 in /repo/include/aws/common/private/lookup3.inl by props/c02_gen.py; do not edit.\n"
        "   A term (target, width, offset, mask, shift) stands for `target += ((load of `width` bytes at byte `offset`, little-endian) & mask) << shift`,\n"
        "   target 0/1/2 = a/b/c.  l3BlockN: the adds of one `while (length > 12)` iteration of the N-bit-load path;\n"
        "   l3TailN[len]: the adds executed by `switch(length)` for `length = len` (fall-through flattened). -/\n"
        "namespace AwsVerif.Gen\n" +
        "".join(f"def l3Block{bits} : List (Nat × Nat × Nat × Nat × Nat) := {_lean_terms(blk)}\n"
                f"def l3Tail{bits} : List (List (Nat × Nat × Nat × Nat × Nat)) := [\n  " +
                ",\n  ".join(_lean_terms(t) for t in tail) + "]\n"
                for bits, (blk, tail) in zip((32, 16, 8), paths)) +
        "/-- the tail switch of the 32-bit-load path in a -DVALGRIND build (byte-exact, no over-read) -/\n"
        "def l3Tail32V : List (List (Nat × Nat × Nat × Nat × Nat)) := [\n  " +
        ",\n  ".join(_lean_terms(t) for t in vpaths[0][1]) + "]\n"
        "end AwsVerif.Gen\n")


def _write_rest(repo, mix, fin, basis, sinit, pinit):
    core.write_if_changed(os.path.join(core.LEAN, "AwsVerif", "Gen", "Lookup3.lean"),
        "/- GENERATED from /repo/include/aws/common/private/lookup3.inl and source/hash_table.c by props/c02_gen.py; do not edit -/\n"
        "namespace AwsVerif.Gen\n"
        f"def l3MixRots : List Nat := {mix}\n"
        f"def l3FinalRots : List Nat := {fin}\n"
        f"def l3Basis : Nat := {basis}\n"
        f"def l3StrInitB : Nat := {sinit[0]}\n"
        f"def l3StrInitC : Nat := {sinit[1]}\n"
        f"def l3PtrInitB : Nat := {pinit[0]}\n"
        f"def l3PtrInitC : Nat := {pinit[1]}\n"
        "end AwsVerif.Gen\n")
    vals = tolower_table(repo)
    off, prime = fnv_constants(repo)
    lit, num, den = load_factor(repo)
    gen = os.path.join(core.LEAN, "AwsVerif", "Gen")
    rows = [", ".join(str(v) for v in vals[i:i + 16]) for i in range(0, 256, 16)]
    core.write_if_changed(os.path.join(gen, "Tolower.lean"),
        "/- GENERATED from /repo/source/byte_buf.c (s_tolower_table, FNV constants) by props/c02_gen.py; do not edit -/\n"
        "namespace AwsVerif.Gen\n"
        "def tolowerTable : Array UInt8 := #[\n  " + ",\n  ".join(rows) + "]\n"
        f"def fnvOffsetBasis : Nat := {off}\n"
        f"def fnvPrime : Nat := {prime}\n"
        "end AwsVerif.Gen\n")
    core.write_if_changed(os.path.join(gen, "HashConst.lean"),
        "/- GENERATED from /repo/source/hash_table.c (max_load_factor literal) by props/c02_gen.py; do not edit -/\n"
        "namespace AwsVerif.Gen\n"
        f"/-- the double nearest to the literal `{lit}` is exactly loadFactorNum / loadFactorDen -/\n"
        f"def loadFactorNum : Nat := {num}\n"
        f"def loadFactorDen : Nat := {den}\n"
        "end AwsVerif.Gen\n")


if __name__ == "__main__":
    regen()
