"""C02 generated layer: s_tolower_table (byte_buf.c) and the load-factor literal (hash_table.c) -> Lean."""
import os, re, subprocess
from lib import core, cbuild


def _c_int(tok):
    tok = tok.strip()
    m = re.fullmatch(r"'(\\?.)'", tok)
    if m:
        ch = m.group(1)
        esc = {"\\n": 10, "\\t": 9, "\\0": 0, "\\\\": 92, "\\'": 39, "\\r": 13}
        if ch in esc:
            return esc[ch]
        if len(ch) == 1:
            return ord(ch)
        raise core.GenError(f"s_tolower_table: unsupported character literal {tok}")
    m = re.fullmatch(r"(0[xX][0-9a-fA-F]+|\d+)[uUlL]*", tok)
    if m:
        return int(m.group(1), 0)
    raise core.GenError(f"s_tolower_table: unsupported initialiser element {tok!r}")


def strip_c_comments(src):
    src = re.sub(r"/\*.*?\*/", " ", src, flags=re.S)
    return re.sub(r"//[^\n]*", " ", src)


def tolower_table(repo):
    src = strip_c_comments(open(os.path.join(repo, "source", "byte_buf.c")).read())
    m = re.search(r"static\s+const\s+uint8_t\s+s_tolower_table\s*\[\s*\]\s*=\s*\{(.*?)\}\s*;", src, re.S)
    if not m:
        raise core.GenError("s_tolower_table initialiser not found in source/byte_buf.c")
    vals = [_c_int(t) for t in m.group(1).split(",") if t.strip()]
    if len(vals) != 256 or any(not (0 <= v < 256) for v in vals):
        raise core.GenError(f"s_tolower_table: expected 256 byte entries, found {len(vals)}")
    # the hash and the comparison must read the table the model reads: s_tolower_table[...]
    for fn in ("aws_hash_array_ignore_case", "aws_array_eq_ignore_case"):
        mm = re.search(re.escape(fn) + r"\s*\([^)]*\)\s*\{(.*?)\n\}", src, re.S)
        if not mm or "s_tolower_table[" not in mm.group(1):
            raise core.GenError(f"{fn} no longer reads s_tolower_table")
    return vals


def fnv_constants(repo):
    src = strip_c_comments(open(os.path.join(repo, "source", "byte_buf.c")).read())
    a = re.search(r"fnv_offset_basis\s*=\s*(0x[0-9a-fA-F]+)ULL", src)
    b = re.search(r"fnv_prime\s*=\s*(0x[0-9a-fA-F]+)ULL", src)
    if not a or not b:
        raise core.GenError("FNV constants not found in aws_hash_array_ignore_case")
    return int(a.group(1), 16), int(b.group(1), 16)


def load_factor(repo):
    src = strip_c_comments(open(os.path.join(repo, "source", "hash_table.c")).read())
    ms = re.findall(r"max_load_factor\s*=\s*([0-9.eE+-]+)\s*;", src)
    if len(ms) != 1:
        raise core.GenError(f"expected exactly one assignment to max_load_factor, found {len(ms)}")
    num, den = float(ms[0]).as_integer_ratio()
    if num <= 0 or den & (den - 1):
        raise core.GenError("max_load_factor literal is not a positive finite double")
    return ms[0], num, den


def regen(ctx=None):
    repo = cbuild.REPO
    vals = tolower_table(repo)
    off, prime = fnv_constants(repo)
    lit, num, den = load_factor(repo)
    gen = os.path.join(core.LEAN, "AwsVerif", "Gen")
    rows = [", ".join(str(v) for v in vals[i:i + 16]) for i in range(0, 256, 16)]
    core.write_if_changed(os.path.join(gen, "Tolower.lean"),
        "/- GENERATED from /repo/source/byte_buf.c (s_tolower_table, FNV constants) by props/c02_gen.py; do not edit -/\n"
        "namespace AwsVerif.Gen\n"
        "def tolowerTable : Array UInt8 := #[\n  " + ",\n  ".join(rows) + "]\n"
        f"def fnvOffsetBasis : Nat := {off}\n"
        f"def fnvPrime : Nat := {prime}\n"
        "end AwsVerif.Gen\n")
    core.write_if_changed(os.path.join(gen, "HashConst.lean"),
        "/- GENERATED from /repo/source/hash_table.c (max_load_factor literal) by props/c02_gen.py; do not edit -/\n"
        "namespace AwsVerif.Gen\n"
        f"/-- the double nearest to the literal `{lit}` is exactly loadFactorNum / loadFactorDen -/\n"
        f"def loadFactorNum : Nat := {num}\n"
        f"def loadFactorDen : Nat := {den}\n"
        "end AwsVerif.Gen\n")


if __name__ == "__main__":
    regen()
