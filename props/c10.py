"""C10 — CBOR encoder and decoder round-trip every item sequence."""
import os, struct
from lib.core import Case, GenError, write_if_changed, LEAN
from lib import cbuild
from lib import cbor_ref as ref
from gen import cbor_gen, cfun


def regen(ctx):
    """Gen/CborConsts.lean: width decision, stored bytes and lengths of `_cbor_encode_uint*`, offsets of encoding.c, the
    reservation in front of every libcbor encode call of cbor.c (which reserve function, how many bytes), loaders,
    `claim_bytes`' test and the per-initial-byte table of `cbor_stream_decode`, re-derived from /repo's current source
    (gen/cbor_gen.py); the bridge theorems `c10_gen_*` of Props/C10.lean are re-proved against it"""
    try:
        text, _ = cbor_gen.generate(cbuild.REPO, cbuild.config_include())
    except cfun.GenError as e:
        raise GenError(str(e))
    write_if_changed(os.path.join(LEAN, "AwsVerif", "Gen", "CborConsts.lean"), text)


ID = "C10"
LEAN_MODULES = ["AwsVerif.Props.C10"]
COMPONENT = "cbor"
HARNESS = dict(name="cbor", flavour="asan")
P_DIFF_CONCRETE = True   # P lines carry only decoded (type, value, bytes) of encoder-written data, remaining length, consume results
TIMEOUT = 300
NOT_PROVED = []          # all of c10_roundtrip, c10_shortest_head, c10_float_smallest, c10_float_value, c10_consume_whole, c10_wellformed, c10_growth are proved
TRUSTED = ["hand model lean/AwsVerif/Model/Cbor.lean of source/cbor.c + libcbor encoders/streaming/loaders (tied by this correspondence run; "
           "head encoders, offsets, reservations, loaders, claim_bytes and the decode switch additionally by bridge theorems to "
           "Gen/CborConsts.lean, regenerated from the source on every run)",
           "translator gen/cfun.py + gen/cbor_gen.py (clang-14 JSON AST -> Lean; buffer stores / result->read lifted or removed as documented there)",
           "independent RFC 8949 reader lib/cbor_ref.py (direct oracle)",
           "x86-64/gcc semantics of (float)double, (double)float for NaN (quieting) and of (int64_t)2^63 (INT64_MIN), confirmed by the W stream"]
ASSUMPTIONS = ["string lengths and container counts < 2^64 (size_t); allocation never fails (aws_mem_acquire aborts otherwise)",
               "generated nesting depth <= 5000 in the quick tier and <= 20000 in the thorough tier: "
               "aws_cbor_decoder_consume_next_whole_data_item recurses once per nesting level with no limit (known finding F6: tens of "
               "thousands of nested heads overflow the C stack) - the check stays below that threshold and claims nothing beyond it",
               "half-precision floats are never written by the encoder (decoder side of them is conformance-tested only)"]
RULE = ("item sequences (flattened random data-item trees to depth 64, deterministic chains nested 65..5000 deep (20000 in thorough) "
        "of every container kind, + flat sequences) with boundary-biased operands: every head width "
        "boundary, doubles around 0 / subnormals / binary32 limits / +-2^63 / FLT_MAX / inf / NaN payloads, string lengths across the "
        "encoder's buffer growth points; encoded, decoded (decode_all), skipped (consume) and stepped (peek/pop/skip); plus a malformed "
        "raw-byte stream for the decoder. non-trivial = at least two encoder items or a raw input of >= 2 bytes")

U64 = (1 << 64) - 1
BOUND_INTS = [0, 1, 22, 23, 24, 25, 254, 255, 256, 257, 65534, 65535, 65536, 65537, (1 << 32) - 2, (1 << 32) - 1, 1 << 32,
              (1 << 32) + 1, (1 << 63) - 1, 1 << 63, U64 - 1, U64]


def dbl(x):
    return struct.unpack(">Q", struct.pack(">d", float(x)))[0]


BOUND_DOUBLES = sorted(set([
    0x0000000000000000, 0x8000000000000000,                                  # +-0
    0x0000000000000001, 0x8000000000000001, 0x000FFFFFFFFFFFFF, 0x0008000000000000, 0x0010000000000000,   # double subnormals, min normal
    0x36A0000000000000, 0xB6A0000000000000, 0x36A8000000000000, 0x3690000000000000, 0x36A0000000000001,   # 2^-149 and neighbours
    0x36B0000000000000, 0x36B8000000000000, 0x36B4000000000000,                                         # 2^-148, 1.5*2^-148, 1.25*2^-148
    0x3810000000000000, 0x380FFFFFC0000000, 0x380FFFFFE0000000, 0x380FFFFFC0000001, 0x3800000000000000,   # float min normal / max subnormal
    0x3810000020000000, 0x3810000010000000, 0x37F0000000000000, 0x37FFFFFF80000000, 0x37FFFFFFC0000000,
    0x47EFFFFFE0000000, 0xC7EFFFFFE0000000, 0x47EFFFFFE0000001, 0xC7EFFFFFE0000001, 0x47EFFFFFDFFFFFFF,   # FLT_MAX (1 +- eps)
    0xC7EFFFFFDFFFFFFF, 0x47EFFFFFF0000000, 0x47F0000000000000, 0xC7F0000000000000, 0x47EFFFFFC0000000,
    0x43E0000000000000, 0x43DFFFFFFFFFFFFF, 0x43E0000000000001, 0xC3E0000000000000, 0xC3E0000000000001,   # +-2^63 and neighbours
    0xC3DFFFFFFFFFFFFF, 0x43F0000000000000, 0xC3F0000000000000, 0x43EFFFFFFFFFFFFF, 0x43D0000000000000,
    0x4340000000000000, 0x4340000000000001, 0x433FFFFFFFFFFFFF, 0x4330000000000001, 0x4320000000000001,   # 2^53, 2^52+1, 2^51+0.5
    0x7FF0000000000000, 0xFFF0000000000000,                                  # +-inf
    0x7FF8000000000000, 0xFFF8000000000000, 0x7FF0000000000001, 0xFFF0000000000001, 0x7FFFFFFFFFFFFFFF,   # NaNs
    0x7FF0000020000000, 0x7FF0000010000000, 0x7FF4000000000000, 0xFFF7FFFFE0000000, 0x7FF8000020000000,
    0x3FF0000000000000, 0xBFF0000000000000, 0x3FF8000000000000, 0xBFF8000000000000, 0x3FE0000000000000,   # 1, -1, 1.5, 0.5
    0x3FF0000000000001, 0x3FF0000020000000, 0x3FF0000010000000, 0x3FB999999999999A, 0x400921FB54442D18,
] + [dbl(v) for v in (23, 24, 255, 256, 65535, 65536, 4294967295, 4294967296, 4294967296.5, 65535.5, 23.5, 2 ** 62, 2 ** 53 + 2)]
  + [dbl(-v) for v in (1, 24, 25, 256, 257, 65536, 65537, 4294967296, 4294967297, 24.5, 2 ** 62)]))

STR_LENS = [0, 1, 22, 23, 24, 25, 100, 200, 237, 238, 239, 245, 246, 247, 248, 249, 254, 255, 256, 257, 300, 502, 503, 504, 511, 512, 513, 1015, 1024]


def rand_double(rng):
    r = rng.random()
    if r < 0.35:
        return rng.choice(BOUND_DOUBLES)
    if r < 0.45:
        return rng.getrandbits(64)
    s = rng.getrandbits(1) << 63
    if r < 0.60:   # integers as doubles, any magnitude up to 2^65
        k = rng.choice([1, 5, 8, 9, 16, 17, 32, 33, 52, 53, 54, 62, 63, 64, 65])
        v = rng.getrandbits(k) | (rng.getrandbits(1) << (k - 1))
        return s | (dbl(v) & ~(1 << 63)) if v else s
    # by exponent class
    e = rng.choice([0, 1, 873, 874, 875, 880, 895, 896, 897, 898, 1000, 1022, 1023, 1024, 1050, 1074, 1075, 1076, 1085, 1086, 1087,
                    1149, 1150, 1151, 2046, 2047, rng.randint(0, 2047)])
    mk = rng.random()
    if mk < 0.3:
        m = rng.getrandbits(23) << 29                  # float-exact mantissa
    elif mk < 0.5:
        m = (rng.getrandbits(23) << 29) | (1 << rng.randint(0, 28))   # one bit too many
    elif mk < 0.7:
        m = rng.getrandbits(rng.randint(0, 52)) << rng.randint(0, 30) & ((1 << 52) - 1)
    elif mk < 0.8:
        m = 0
    else:
        m = rng.getrandbits(52)
    return s | (e << 52) | m


def rand_u64(rng):
    r = rng.random()
    if r < 0.5:
        return rng.choice(BOUND_INTS)
    if r < 0.8:
        b = rng.choice([0, 23, 24, 255, 256, 65535, 65536, (1 << 32) - 1, 1 << 32, U64])
        return max(0, min(U64, b + rng.randint(-3, 3)))
    return rng.getrandbits(rng.randint(1, 64))


def rand_str_op(rng, text, big_ok=True):
    kind = "text" if text else "bytes"
    r = rng.random()
    if r < 0.5:
        n = rng.randint(0, 30)
    elif r < 0.97 or not big_ok:
        n = rng.choice(STR_LENS)
    else:
        n = rng.choice([65535, 65536, 65537, 70000])
    if n == 0:
        return empty_str_op(rng, text)
    if n <= 40 and rng.random() < 0.8:
        bs = bytes(rng.getrandbits(8) for _ in range(n))
        return f"{kind} {bs.hex()}"
    return f"{kind}r {rng.getrandbits(8):02x} {n}"


EMPTY_FORMS = ["NULL", "-", "r"]


def empty_str_op(rng, text, form=None):
    """the empty string in each of the argument forms a caller may legitimately use: {NULL, 0} (a zero-initialised
    cursor), {non-NULL, 0} from a literal, {non-NULL, 0} from a buffer"""
    kind = "text" if text else "bytes"
    form = form or rng.choice(EMPTY_FORMS)
    if form == "r":
        return f"{kind}r {rng.getrandbits(8):02x} 0"
    return f"{kind} {form}"


def scalar_op(rng, big_ok=True):
    r = rng.random()
    if r < 0.2:
        return f"u {rand_u64(rng)}"
    if r < 0.35:
        return f"n {rand_u64(rng)}"
    if r < 0.65:
        return f"f {rand_double(rng):016x}"
    if r < 0.75:
        return rand_str_op(rng, True, big_ok)
    if r < 0.85:
        return rand_str_op(rng, False, big_ok)
    if r < 0.9:
        return f"bool {rng.getrandbits(1)}"
    if r < 0.94:
        return "null"
    return "undef"


def tree_ops(rng, depth, width, out):
    """append the ops of one random well-formed data item (nesting <= depth)"""
    if depth <= 0 or rng.random() < 0.35:
        out.append(scalar_op(rng, big_ok=False))
        return
    r = rng.random()
    k = rng.randint(0, width)
    if r < 0.2:
        out.append(f"tag {rand_u64(rng)}")
        tree_ops(rng, depth - 1, width, out)
    elif r < 0.4:
        out.append(f"arr {k}")
        for _ in range(k):
            tree_ops(rng, depth - 1, width, out)
    elif r < 0.6:
        out.append(f"map {k}")
        for _ in range(2 * k):
            tree_ops(rng, depth - 1, width, out)
    elif r < 0.75:
        out.append("indef_arr")
        for _ in range(k):
            tree_ops(rng, depth - 1, width, out)
        out.append("brk")
    elif r < 0.88:
        out.append("indef_map")
        for _ in range(2 * k):
            tree_ops(rng, depth - 1, width, out)
        out.append("brk")
    else:
        t = rng.random() < 0.5
        out.append("indef_text" if t else "indef_bytes")
        for _ in range(k):
            out.append(rand_str_op(rng, t, big_ok=False))
        out.append("brk")


def chain_ops(rng, depth, out):
    """a chain nested exactly `depth` deep (one child per level, sometimes a scalar sibling)"""
    closers = []
    for _ in range(depth):
        r = rng.random()
        if r < 0.25:
            out.append(f"tag {rng.choice([0, 1, 5, 24, 256, 55799, U64])}")
            closers.append([])
        elif r < 0.5:
            sib = rng.random() < 0.3
            out.append(f"arr {2 if sib else 1}")
            closers.append([scalar_op(rng, False)] if sib else [])
        elif r < 0.7:
            out.append("map 1")
            out.append(scalar_op(rng, False))
            closers.append([])
        elif r < 0.85:
            out.append("indef_arr")
            closers.append(["brk"])
        else:
            out.append("indef_map")
            out.append(scalar_op(rng, False))
            closers.append(["brk"])
    out.append(scalar_op(rng, False))
    for c in reversed(closers):
        out.extend(c)


def count_top(ops):
    """number of top-level data items in a well-formed op list (independent of the reference reader: from the ops)"""
    return None


def case_tree(rng, maxdepth):
    ops = []
    ntop = rng.randint(1, 4)
    for _ in range(ntop):
        if rng.random() < 0.25:
            chain_ops(rng, rng.choice([1, 2, 3, 8, 31, 32, 33, 63, 64]) if maxdepth >= 64 else rng.randint(1, maxdepth), ops)
        else:
            tree_ops(rng, rng.randint(0, min(maxdepth, 5)), 3, ops)
    ops.append("enc")
    ops.append("decode_all")
    ops.append("load")
    mode = rng.random()
    if mode < 0.6:
        ops += ["consume"] * ntop + ["rem"]
        if rng.random() < 0.3:
            ops.append("consume")     # nothing left: error, sticky
            ops.append("peek")
    elif mode < 0.8:
        ops += ["peek", "consume"] * ntop + ["rem"]     # consume with the head already cached
    else:
        # step into the first item with skip, then consume what follows
        ops += ["skip"] + ["consume"] * rng.randint(0, 3) + ["all"]
    return Case(ops, {"kind": "tree", "wellformed": True, "ntop": ntop})


def case_flat(rng):
    """flat sequence of arbitrary elements (not necessarily a well-formed item sequence): decode_all + stepping"""
    ops = []
    for _ in range(rng.randint(1, 25)):
        r = rng.random()
        if r < 0.7:
            ops.append(scalar_op(rng))
        elif r < 0.8:
            ops.append(f"{rng.choice(['arr', 'map', 'tag'])} {rand_u64(rng)}")
        else:
            ops.append(rng.choice(["indef_bytes", "indef_text", "indef_arr", "indef_map", "brk"]))
    ops += ["enc", "decode_all"]
    if rng.random() < 0.5:
        ops.append("load")
        for _ in range(rng.randint(1, 12)):
            r = rng.random()
            if r < 0.25:
                ops.append("peek")
            elif r < 0.6:
                ops.append("pop " + rng.choice(["uint", "negint", "float", "bytes", "text", "array", "map", "tag", "bool"]))
            elif r < 0.75:
                ops.append("skip")
            elif r < 0.85:
                ops.append("consume")
            else:
                ops.append("rem")
        ops.append("all")
    if rng.random() < 0.15:
        ops += ["reset", scalar_op(rng), "enc", "decode_all"]
    return Case(ops, {"kind": "flat"})


def case_ints(rng):
    """one major type, every head-width boundary"""
    op = rng.choice(["u", "n", "tag", "arr", "map"])
    vals = list(BOUND_INTS)
    rng.shuffle(vals)
    ops = [f"{op} {v}" for v in vals] + ["enc", "decode_all"]
    return Case(ops, {"kind": "ints"})


def case_floats(rng, chunk):
    ops = [f"f {b:016x}" for b in chunk] + ["enc", "decode_all"]
    return Case(ops, {"kind": "floats"})


def case_strings(rng):
    """strings whose lengths walk the encoder across its buffer growth points (256, 512, 1024, …)"""
    ops = []
    total = 0
    target = rng.choice([256, 512, 1024, 2048, 4096])
    # fill to just below a growth point, then straddle it
    while total < target - 60:
        n = rng.randint(0, 50)
        ops.append(f"{rng.choice(['textr', 'bytesr'])} {rng.getrandbits(8):02x} {n}")
        total += n + (1 if n < 24 else 2)
    for _ in range(rng.randint(1, 6)):
        n = max(0, target - total - rng.choice([0, 1, 2, 3, 8, 9, 10, 11, 12]) + rng.randint(-2, 2)) if rng.random() < 0.6 else rng.choice(STR_LENS)
        ops.append(f"{rng.choice(['textr', 'bytesr'])} {rng.getrandbits(8):02x} {n}")
        total += n + 3
        ops.append(scalar_op(rng, False))
    ops += ["enc", "decode_all"]
    return Case(ops, {"kind": "strings"})


WIDE_ITEMS = [f"u {U64}", f"n {1 << 32}", f"tag {U64 - 1}", f"arr {1 << 63}", f"map {1 << 32}", "f 3ff0000000000001", "f 3ff8000000000000",
              "f 7ff0000000000000", "u 65536", "u 256", "u 24", "text 616263", "bytes -", "bool 1", "null", "indef_map", "brk"]


def case_growth_edge(rng, d=None, item=None, reset=None):
    """bring the encoder to exactly capacity - d bytes (d = 0..10) with 1-byte items, then write an item whose reservation
    (9 / 5 / 1 / 9+len bytes) straddles the capacity: the growth decision and the room for the libcbor call are on the edge"""
    d = rng.randint(0, 10) if d is None else d
    big = rng.random() < 0.3
    if big:
        ops, length, cap = [f"bytesr {rng.getrandbits(8):02x} 300"], 303, 512      # reserve 309 > 256: capacity becomes 512
    else:
        ops, length, cap = [f"bytesr {rng.getrandbits(8):02x} 200"], 202, 256
    ops += [rng.choice(["null", "undef", "bool 0", "indef_arr"]) for _ in range(cap - d - length)]
    ops.append(item or rng.choice(WIDE_ITEMS))
    if rng.random() < 0.5:
        ops.append(rng.choice(WIDE_ITEMS))
    ops += ["enc", "decode_all"]
    if reset or (reset is None and rng.random() < 0.35):
        # the same encoder reused after a reset: nothing of the old content or bookkeeping may survive
        ops += ["reset", "enc", rng.choice(WIDE_ITEMS), scalar_op(rng, False), "enc", "decode_all"]
        if rng.random() < 0.5:
            ops += ["reset", "reset", "null", "enc", "decode_all"]
    return Case(ops, {"kind": "growth"})


TAG_VALUES = [0, 23, 24, 255, 256, 257, 1000, 55799, 65535, 65536, 65537, (1 << 32) - 1, 1 << 32, U64]


def compound_ops(rng, depth=2):
    """ops of one compound data item of a kind that is easy to get wrong when it sits in key position / inside a skipped item"""
    r = rng.randrange(12)
    inner = (lambda: compound_ops(rng, depth - 1)) if depth > 0 and rng.random() < 0.5 else (lambda: [scalar_op(rng, False)])
    if r == 0:
        return ["arr 0"]
    if r == 1:
        return ["map 0"]
    if r == 2:
        return ["indef_arr", "brk"]                    # empty indefinite containers
    if r == 3:
        return ["indef_map", "brk"]
    if r == 4:
        if rng.random() < 0.5:
            return [empty_str_op(rng, rng.random() < 0.5)]      # the empty string, any argument form
        return [rng.choice(["indef_bytes", "indef_text"]), "brk"]
    if r == 5:
        t = rng.random() < 0.5
        return (["indef_text" if t else "indef_bytes"] + [rand_str_op(rng, t, False) for _ in range(rng.randint(1, 3))] + ["brk"])
    if r == 6:
        return [f"tag {rng.choice(TAG_VALUES)}"] + inner()
    if r == 7:
        return [f"tag {rng.choice(TAG_VALUES)}", f"tag {rng.choice(TAG_VALUES)}"] + inner()
    if r == 8:
        k = rng.randint(1, 3)
        return [f"arr {k}"] + [o for _ in range(k) for o in inner()]
    if r == 9:
        k = rng.randint(1, 2)
        return [f"map {k}"] + [o for _ in range(2 * k) for o in inner()]
    if r == 10:
        k = rng.randint(1, 3)
        return ["indef_arr"] + [o for _ in range(k) for o in inner()] + ["brk"]
    k = rng.randint(1, 2)
    return ["indef_map"] + [o for _ in range(2 * k) for o in inner()] + ["brk"]


def case_map_keys(rng):
    """maps (definite and indefinite) whose KEYS are compound items (arrays, tags, indefinite strings, maps, empty
    indefinite containers), tags of every head width, followed by a sentinel: consume must stop exactly in front of it"""
    ops = []
    n = rng.randint(1, 4)
    body = []
    for _ in range(n):
        body += compound_ops(rng)                                                    # key
        body += compound_ops(rng) if rng.random() < 0.5 else [scalar_op(rng, False)]  # value
    if rng.random() < 0.6:
        ops += [f"map {n}"] + body
    else:
        ops += ["indef_map"] + body + ["brk"]
    if rng.random() < 0.5:
        ops = [f"tag {rng.choice(TAG_VALUES)}"] + ops
    if rng.random() < 0.4:
        ops = ["arr 2"] + ops + compound_ops(rng)
    sentinel = rng.choice(["u 7", "null", "text 656e64", "f 3ff8000000000000"])
    ops += [sentinel, "enc", "decode_all", "load"]
    if rng.random() < 0.3:
        ops.append("peek")
    ops += ["consume", "rem", "consume", "rem", "consume"]
    return Case(ops, {"kind": "mapkeys"})


def degenerate_cases():
    """explicitly allowed degenerate arguments at every entry point, enumerated (no randomness): the empty byte / text
    string in each argument form, at top level, as array element, map key, map value, inside indefinite containers,
    as indefinite-string chunk and under a tag - always followed by a sentinel so a vanished item shifts everything;
    empty arrays / maps; nothing written at all; decoder over a {NULL,0} and a {non-NULL,0} source with every call"""
    out = []
    tail = ["u 7", "enc", "decode_all", "load", "consume", "rem", "consume", "rem", "consume"]
    for kind in ("text", "bytes"):
        for form in EMPTY_FORMS:
            e = f"{kind}r 41 0" if form == "r" else f"{kind} {form}"
            ctxs = {
                "top": [e],
                "two": [e, e],
                "arr_elem": ["arr 3", "u 1", e, "u 2"],
                "arr_only": ["arr 1", e],
                "arr_last": ["arr 2", "u 1", e],
                "map_key": ["map 2", e, "u 1", "u 2", "u 3"],
                "map_value": ["map 2", "u 1", e, "u 2", "u 3"],
                "map_both": ["map 1", e, e],
                "indef_arr": ["indef_arr", e, "u 1", "brk"],
                "indef_arr_only": ["indef_arr", e, "brk"],
                "indef_map_key": ["indef_map", e, "u 1", "brk"],
                "indef_map_value": ["indef_map", "u 1", e, "brk"],
                "chunk": ["indef_" + kind, e, f"{kind} 6162", e, "brk"],
                "chunk_only": ["indef_" + kind, e, "brk"],
                "tag": ["tag 2", e],
                "tag_tag": ["tag 65536", "tag 0", e],
                "nested": ["arr 1", "map 1", "tag 1", e, "arr 1", e],
            }
            for name, ops in ctxs.items():
                out.append(Case(ops + tail, {"kind": "degenerate", "ctx": name}))
            # single-element calls on the empty string: nothing of it may stay behind for the next call
            for step in (["skip", "all"], ["skip", "skip", "rem"], ["peek", "skip", "pop uint", "rem"], ["peek", "peek", f"pop {kind}", "peek", "all"],
                         [f"pop {'bytes' if kind == 'text' else 'text'}", f"pop {kind}", "pop uint", "rem"], ["consume", "peek", "skip", "rem"]):
                out.append(Case([e, "u 7", "enc", "load"] + step, {"kind": "degenerate", "ctx": "step"}))
    for ops in (["arr 0"], ["map 0"], ["arr 0", "map 0"], ["tag 0", "arr 0"], ["tag 0", "map 0"], ["arr 2", "arr 0", "map 0"],
                ["map 1", "arr 0", "map 0"], ["indef_arr", "brk"], ["indef_map", "brk"], ["indef_bytes", "brk"], ["indef_text", "brk"],
                ["indef_arr", "arr 0", "indef_map", "brk", "brk"], ["u 0"], ["n 0"], ["tag 0", "u 0"], ["f 0000000000000000"]):
        out.append(Case(ops + tail, {"kind": "degenerate", "ctx": "empty_container"}))
    # nothing written; reset to nothing
    out.append(Case(["enc", "decode_all", "load", "peek", "rem"], {"kind": "degenerate", "ctx": "nothing"}))
    out.append(Case(["enc", "load", "consume", "rem"], {"kind": "degenerate", "ctx": "nothing"}))
    out.append(Case(["u 1", "reset", "enc", "decode_all", "text NULL", "enc", "decode_all"], {"kind": "degenerate", "ctx": "reset"}))
    # decoder over an empty source in both forms, every entry point first
    for src in ("NULL", "-"):
        for first in ("all", "peek", "consume", "skip", "rem", "pop uint", "pop text", "pop bytes", "pop float", "pop array", "pop map",
                      "pop tag", "pop bool", "pop negint"):
            out.append(Case([f"dec {src}", first, "rem", "all"], {"kind": "degenerate", "ctx": "empty_source"}))
    return out


def _head_len(n):
    return 1 if n < 24 else 2 if n < 256 else 3 if n < 65536 else 5 if n < (1 << 32) else 9


class EncSim:
    """bookkeeping of the encoder buffer as documented (initial capacity 256; a write reserving r bytes at length len grows
    the capacity to max(len + r, 2 * capacity) when len + r exceeds it) - used only to AIM cases at an exact free space"""

    def __init__(self):
        self.len, self.cap, self.ops = 0, 256, []

    def _reserve(self, r):
        if self.len + r > self.cap:
            self.cap = max(self.len + r, 2 * self.cap)

    def string(self, n, text=False, byte=0x41):
        self._reserve(9 + n)
        self.len += _head_len(n) + n
        self.ops.append(f"{'textr' if text else 'bytesr'} {byte:02x} {n}")

    def null(self):
        self._reserve(1)
        self.len += 1
        self.ops.append("null")

    def reset(self):
        self.len = 0
        self.ops.append("reset")

    def fill_to(self, f):
        """bring the length to exactly f without growing the buffer"""
        assert self.len <= f <= self.cap
        while f - self.len > 12:
            room = self.cap - self.len - 9              # largest string whose reservation does not grow the buffer
            want = f - self.len
            n = min(room, want - 1)
            while n > 0 and _head_len(n) + n > want:
                n -= 1
            if n <= 0:
                break
            before = self.cap
            self.string(n, byte=0x2e)
            assert self.cap == before and self.len <= f, (self.len, f, self.cap)
        while self.len < f:
            before = self.cap
            self.null()
            assert self.cap == before


def growth_sweep_cases(cap, lengths):
    """double boundary head width x free space: a string of each given length written at EVERY fill level 0..capacity of a
    buffer of exactly `cap` bytes, followed by a sentinel"""
    out = []
    for L in lengths:
        for f in range(0, cap + 1):
            sim = EncSim()
            if cap > 256:
                # one write whose reservation is exactly `cap` (> 256, <= 512 or larger): capacity becomes max(cap, 512)
                sim.string(cap - 9, byte=0x00)
                assert sim.cap == cap, (sim.cap, cap)
                sim.reset()
            sim.fill_to(f)
            assert sim.len == f and sim.cap == cap
            sim.string(L, text=(L + f) % 2 == 0, byte=0x61 + (f % 20))
            out.append(Case(sim.ops + ["u 7", "enc", "decode_all"], {"kind": "sweep", "cap": cap, "fill": f, "L": L}))
    return out


def big_edge_cases(lengths, deltas, cap=200009):
    """strings around the 16-bit head boundary written when the free space is (head + length + delta) bytes"""
    out = []
    for L in lengths:
        for d in deltas:
            sim = EncSim()
            sim.string(cap - 9, byte=0x00)
            assert sim.cap == cap
            sim.reset()
            free = _head_len(L) + L + d
            sim.fill_to(cap - free)
            sim.string(L, text=True, byte=0x7a)
            out.append(Case(sim.ops + ["null", "enc", "decode_all"], {"kind": "sweep", "cap": cap, "L": L, "delta": d}))
    return out


MIB = 1 << 20


def huge_cases(tier):
    """long histories: encoder buffers grown past 1 / 4 / 16 MiB, then strings of 1-8 MiB, some larger than the free room
    plus 1 MiB, some not (`bigmode`: digest instead of bytes)"""
    plans = [[700000, 700000, 1500000], [700000, 700000, 900000, 5], [1100000, 3 * MIB + 17]]
    if tier == "quick":
        plans += [[3 * MIB, 3 * MIB, 8 * MIB]]
    else:
        plans += [[3 * MIB, 3 * MIB, 8 * MIB], [5 * MIB, 2 * MIB, MIB + 1, 4 * MIB], [9 * MIB, 9 * MIB, 8 * MIB, 1 * MIB],
                  [17 * MIB, 2 * MIB + 3, 6 * MIB]]
    out = []
    for pl in plans:
        ops = ["bigmode"]
        for i, n in enumerate(pl):
            ops += [f"{'textr' if i % 2 else 'bytesr'} {0x30 + i:02x} {n}", "u 7", "enc"]
        out.append(Case(ops, {"kind": "huge"}))
    return out


def wide_cases(rng, counts):
    """containers whose element COUNT crosses a head-width boundary and whose elements are all there: consume / decode must
    take exactly n (2n) items - one too few or too many shows at the sentinel"""
    out = []
    for n in counts:
        for kind in ("arr", "map", "indef_arr", "indef_map"):
            k = n * (2 if "map" in kind else 1)
            ops = [f"{kind} {n}" if not kind.startswith("indef") else kind]
            for i in range(k):
                ops.append(rng.choice([f"u {i % 24}", "null", f"text {0x61 + i % 26:02x}", "bool 1", f"n {i}", "bytes NULL", "arr 0"]))
            if kind.startswith("indef"):
                ops.append("brk")
            ops = ([f"tag {rng.choice(TAG_VALUES)}"] if rng.random() < 0.3 else []) + ops
            ops += ["u 7", "enc", "decode_all", "load", "consume", "rem", "consume", "rem", "consume"]
            out.append(Case(ops, {"kind": "wide", "n": n}))
    return out


def tail_cases():
    """an input longer than a few dozen bytes whose LAST element is an empty string / empty container / a one-byte item:
    a decoder that needs 'one more byte' at the very end shows here; with skip / pop / consume taking that last element"""
    out = []
    for pad in (0, 30, 41, 64, 300, 1100):
        for last in ("text NULL", "bytes -", "textr 00 0", "arr 0", "map 0", "null", "u 0", "brk", "indef_text", "text 61", "f 3ff8000000000000"):
            for take in ("decode_all", "consume", "skip", "peek"):
                ops = ([f"bytesr 2a {pad}"] if pad else []) + [last, "enc", "decode_all", "load"]
                if pad:
                    ops.append("consume")
                ops += {"decode_all": ["all"], "consume": ["consume", "rem", "all"], "skip": ["skip", "rem", "all"],
                        "peek": ["peek", "peek", "pop " + ("text" if last.startswith("text") else "bytes" if last.startswith("bytes") else "uint"), "rem", "all"]}[take]
                out.append(Case(ops, {"kind": "tail"}))
    return out


DEEP_SHAPES = ("arr", "map", "tag", "indef_arr", "indef_map", "mixed")


def deep_cases(depths):
    """one data item nested `d` levels deep (definite arrays, maps, tags, indefinite arrays / maps, a rotation of all five),
    followed by a sentinel: decoded element by element, skipped in ONE consume call (which must stop exactly in front of
    the sentinel), and skipped from one level inside.  Depths stay far below the unbounded-recursion finding (F6, tens of
    thousands of levels)."""
    out = []
    for d in depths:
        for shape in DEEP_SHAPES:
            ops, closers = [], []
            for lvl in range(d):
                k = shape if shape != "mixed" else ("arr", "map", "tag", "indef_arr", "indef_map")[lvl % 5]
                if k == "arr":
                    ops.append("arr 1")
                elif k == "map":
                    ops += ["map 1", f"u {lvl % 24}"]
                elif k == "tag":
                    ops.append(f"tag {TAG_VALUES[lvl % len(TAG_VALUES)]}")
                elif k == "indef_arr":
                    ops.append("indef_arr"); closers.append("brk")
                else:
                    ops += ["indef_map", "text 6b"]; closers.append("brk")
            ops.append("f 3ff8000000000000")
            ops += list(reversed(closers))
            ops += ["u 7", "enc", "decode_all",
                    "load", "consume", "rem", "consume", "rem", "consume",      # whole item in one call, then the sentinel, then nothing
                    "load", "peek", "consume", "rem",                           # with the head already cached
                    "load", "skip", "consume", "rem", "all"]                    # from one level inside
            out.append(Case(ops, {"kind": "deep", "depth": d, "shape": shape}))
    return out


def case_bigstr(rng):
    n = rng.choice([65535, 65536, 65537, 131072])
    ops = [f"textr 61 {n}", "u 1", f"bytesr 00 {n - rng.randint(0, 2)}", "enc", "decode_all", "load", "consume", "consume", "consume", "rem"]
    return Case(ops, {"kind": "bigstr", "wellformed": True})


# ---- malformed / arbitrary raw input for the decoder
def enc_head(major, v, width=None):
    """a head of the given (possibly non-shortest) width"""
    if width is None:
        width = 0 if v < 24 else 1 if v < 256 else 2 if v < 65536 else 4 if v < (1 << 32) else 8
    if width == 0:
        return bytes([major << 5 | v])
    ai = {1: 24, 2: 25, 4: 26, 8: 27}[width]
    return bytes([major << 5 | ai]) + v.to_bytes(width, "big")


def rand_valid_bytes(rng, depth=3):
    r = rng.random()
    if depth <= 0 or r < 0.4:
        k = rng.random()
        if k < 0.3:
            v = rand_u64(rng)
            w = rng.choice([None, None, 8, 4, 2, 1])
            if w is not None and v >= 1 << (8 * w):
                w = None
            return enc_head(rng.choice([0, 1]), v, w)
        if k < 0.5:
            n = rng.randint(0, 30)
            return enc_head(rng.choice([2, 3]), n, rng.choice([None, None, 1, 2, 4, 8])) + bytes(rng.getrandbits(8) for _ in range(n))
        if k < 0.6:
            return bytes([0xF9]) + rng.choice([0x0000, 0x8000, 0x0001, 0x03FF, 0x0400, 0x3C00, 0x7BFF, 0x7C00, 0xFC00, 0x7C01, 0x7E00, 0xFE01,
                                               rng.getrandbits(16)]).to_bytes(2, "big")
        if k < 0.7:
            return bytes([0xFA]) + rng.choice([0, 1, 0x007FFFFF, 0x00800000, 0x7F7FFFFF, 0x7F800000, 0x7F800001, 0xFFC00001, 0x7FA00000, 0x80000000, 0x80000001, 0x807FFFFF, 0xFF800000, 0x3F800000, 0xBF800000, 0xFF7FFFFF,
                                               rng.getrandbits(32)]).to_bytes(4, "big")
        if k < 0.8:
            return bytes([0xFB]) + rand_double(rng).to_bytes(8, "big")
        return bytes([rng.choice([0xF4, 0xF5, 0xF6, 0xF7])])
    k = rng.randint(0, 3)
    if r < 0.5:
        return enc_head(6, rand_u64(rng)) + rand_valid_bytes(rng, depth - 1)
    if r < 0.65:
        return enc_head(4, k, rng.choice([None, 1, 2])) + b"".join(rand_valid_bytes(rng, depth - 1) for _ in range(k))
    if r < 0.8:
        return enc_head(5, k) + b"".join(rand_valid_bytes(rng, depth - 1) for _ in range(2 * k))
    if r < 0.9:
        return b"\x9f" + b"".join(rand_valid_bytes(rng, depth - 1) for _ in range(k)) + b"\xff"
    if r < 0.95:
        return b"\xbf" + b"".join(rand_valid_bytes(rng, depth - 1) for _ in range(2 * k)) + b"\xff"
    return b"\x5f" + b"".join(enc_head(2, n) + bytes(n) for n in [rng.randint(0, 5) for _ in range(k)]) + b"\xff"


def case_raw(rng):
    r = rng.random()
    data = b"".join(rand_valid_bytes(rng) for _ in range(rng.randint(1, 3)))
    if r < 0.3:
        data = data[:rng.randint(0, len(data))]                       # truncation
    elif r < 0.45:
        data = bytearray(data)
        data.insert(rng.randint(0, len(data)), rng.choice([0x1C, 0x1D, 0x1E, 0x1F, 0x3C, 0x3F, 0x5C, 0x5E, 0x7D, 0x9C, 0x9E, 0xBD, 0xDC, 0xDF,
                                                           0xFC, 0xFD, 0xFE, 0xF8, 0xE0, 0xF3, 0xFF, 0xFF]))   # reserved ai / stray break
        data = bytes(data)
    elif r < 0.55:
        data = bytes(rng.getrandbits(8) for _ in range(rng.randint(0, 12)))
    elif r < 0.65:
        data = bytearray(data)
        if data:
            data[rng.randrange(len(data))] = rng.getrandbits(8)
        data = bytes(data)
    elif r < 0.72:
        # huge declared length / count with little data behind it
        data = enc_head(rng.choice([2, 3, 4, 5]), rng.choice([U64, U64 - 8, 1 << 63, 1 << 32, 1000]), 8) + data
    ops = [f"dec {data.hex() or rng.choice(['-', 'NULL'])}"]
    m = rng.random()
    if m < 0.45:
        ops.append("all")
    elif m < 0.8:
        ops += ["consume"] * rng.randint(1, 4) + ["rem", "all"]
    else:
        for _ in range(rng.randint(1, 8)):
            ops.append(rng.choice(["peek", "skip", "consume", "rem", "pop uint", "pop text", "pop float", "pop array", "pop map", "pop tag",
                                   "pop bytes", "pop negint", "pop bool"]))
        ops.append("all")
    return Case(ops, {"kind": "raw"})


def case_raw_deep(rng):
    d = rng.choice([8, 32, 63, 64])
    pre = b"".join(rng.choice([b"\x81", b"\xc1", b"\x9f", b"\xa1\x00", b"\xd8\x18"]) for _ in range(d))
    data = pre + b"\x00"   # indefinite ones are left unterminated on purpose half of the time
    if rng.random() < 0.5:
        data += b"\xff" * pre.count(b"\x9f")
    return Case([f"dec {data.hex()}", "consume", "rem", "all"], {"kind": "raw"})


def gen_cases(rng, tier):
    q = tier == "quick"
    cases = []
    for _ in range(5):
        for op in ["u", "n", "tag", "arr", "map"]:
            vals = list(BOUND_INTS)
            rng.shuffle(vals)
            cases.append(Case([f"{op} {v}" for v in vals] + ["enc", "decode_all"], {"kind": "ints"}))
    bd = list(BOUND_DOUBLES)
    for i in range(0, len(bd), 16):
        cases.append(case_floats(rng, bd[i:i + 16]))
    for _ in range(150 if q else 4000):
        cases.append(case_floats(rng, [rand_double(rng) for _ in range(16)]))
    for _ in range(700 if q else 20000):
        cases.append(case_tree(rng, 64))
    for _ in range(500 if q else 15000):
        cases.append(case_flat(rng))
    for _ in range(120 if q else 2000):
        cases.append(case_strings(rng))
    for d in range(0, 11):
        for item in [f"u {U64}", "f 3ff0000000000001", "f 3ff8000000000000", "text 616263"] + \
                (["indef_arr", "brk", "indef_text", "null", "bool 1"] if d < 3 else []):
            cases.append(case_growth_edge(rng, d, item, reset=(d < 3)))
    for _ in range(400 if q else 12000):
        cases.append(case_map_keys(rng))
    cases += degenerate_cases()
    small = [22, 23, 24, 25, 26, 254, 255, 256, 257, 258]
    cases += growth_sweep_cases(256, small)
    cases += growth_sweep_cases(512, small)
    if not q:
        cases += growth_sweep_cases(1000, [24, 256])
    cases += big_edge_cases([65535, 65536] if q else [65534, 65535, 65536, 65537, 65538], [-2, -1, 0, 1, 4, 5] if q else [-4, -3, -2, -1, 0, 1, 2, 3, 4, 5, 6, 8, 9, 10])
    cases += huge_cases(tier)
    cases += wide_cases(rng, [22, 23, 24, 25, 255, 256, 257] if q else [22, 23, 24, 25, 254, 255, 256, 257, 1000, 4000])
    cases += tail_cases()
    cases += deep_cases([65, 100, 127, 128, 129, 200, 1000, 5000] if q else
                        [64, 65, 100, 126, 127, 128, 129, 130, 200, 255, 256, 257, 1000, 2000, 5000, 10000, 20000])
    for _ in range(40 if q else 1500):
        cases.append(case_growth_edge(rng))
    for _ in range(3 if q else 40):
        cases.append(case_bigstr(rng))
    for _ in range(1200 if q else 40000):
        cases.append(case_raw(rng))
    for _ in range(30 if q else 500):
        cases.append(case_raw_deep(rng))
    # small-scope exhaustive slice for the decoder: every initial byte alone, and followed by 1..9 zero / 0xff bytes
    ex = []
    for b in range(256):
        for tail in ([b""] if q else [b"", b"\x00", b"\xff"]) + [b"\x00" * 9, b"\xff" * 9, b"\x01" * 3]:
            ex.append(Case([f"dec {(bytes([b]) + tail).hex()}", "all"], {"kind": "raw", "exhaustive": True}))
    cases += ex
    return cases


# ---------------------------------------------------------------- direct oracle
def _written_item(op):
    """op line -> (kind, value) of what the caller asked to encode, or None"""
    t = op.split()
    k = t[0]
    if k in ("u", "n", "arr", "map", "tag"):
        return ({"u": "uint", "n": "negint", "arr": "array", "map": "map", "tag": "tag"}[k], int(t[1]))
    if k == "f":
        return ("double", int(t[1], 16))
    if k == "f32":
        return ("single", int(t[1], 16))
    if k in ("text", "bytes"):
        return (k, b"" if t[1] in ("-", "NULL") else bytes.fromhex(t[1]))
    if k in ("textr", "bytesr"):
        return (k[:-1], bytes([int(t[1], 16)]) * int(t[2]))
    if k == "bool":
        return ("bool", int(t[1]))
    if k in ("null", "undef", "indef_bytes", "indef_text", "indef_arr", "indef_map"):
        return (k, None)
    if k == "brk":
        return ("break", None)
    return None


def _ops_wellformed(written):
    """the written item list is a sequence of complete well-formed data items (decided on the ops alone)"""
    stack = []
    for kind, val in written:
        top = stack[-1] if stack else None
        if kind == "break":
            if top is None or top[0] == "n" or (top[0] == "im" and top[1] % 2):
                return False
            stack.pop()
            closed = True
        else:
            if top is not None and top[0] in ("bytes", "text") and kind != top[0]:
                return False
            closed = False
            if kind == "tag":
                stack.append(["n", 1])
            elif kind in ("array", "map") and val:
                stack.append(["n", val * (2 if kind == "map" else 1)])
            elif kind == "indef_arr":
                stack.append(["i", 0])
            elif kind == "indef_map":
                stack.append(["im", 0])
            elif kind in ("indef_bytes", "indef_text"):
                stack.append([kind[6:], 0])
            else:
                closed = True
        while closed and stack:
            top = stack[-1]
            if top[0] == "n":
                top[1] -= 1
                if top[1] == 0:
                    stack.pop()
                    continue
            else:
                top[1] += 1
            closed = False
    return not stack


def _fnv(bs):
    h = 0xcbf29ce484222325
    for b in bs:
        h = ((h ^ b) * 0x100000001b3) & U64
    return h


def _fmt_elem(e):
    """the harness's item text for a reference element (floats excluded: compared numerically)"""
    if e.kind in ("uint", "negint", "array", "map", "tag", "bool"):
        return f"{e.kind} {e.value}"
    if e.kind in ("bytes", "text"):
        v = e.value
        return f"{e.kind} {len(v)} " + ((v.hex() or "-") if len(v) <= 64 else f"fnv={_fnv(v):016x}")
    return e.kind


def _item_matches(line_body, e):
    """line_body: text after 'item ' and before ' rem='"""
    if e.kind == "float":
        t = line_body.split()
        if len(t) != 2 or t[0] != "float":
            return False
        x = ref.double_from_bits(int(t[1], 16))
        return (x != x and e.value != e.value) or x == e.value
    return line_body == _fmt_elem(e)


def _match_written(w, e):
    """written item w=(kind,value) vs reference element e parsed from the encoder's output -> error text or None"""
    kind, val = w
    if kind == "double":
        x = ref.double_from_bits(val)
        if not ref.same_number(x, e.kind, e.value):
            return f"double {val:016x} ({x!r}) was encoded as {e.kind} {e.value!r}: numeric value not preserved"
        form = ref.expected_float_form(x)
        got = "int" if e.kind in ("uint", "negint") else ("f32" if e.ai == 26 else "f64" if e.ai == 27 else "f16")
        if form != got:
            return f"double {val:016x} ({x!r}) stored as {got}, smallest lossless form is {form}"
        if got == "int" and not ref.is_shortest(e):
            return f"double {val:016x} written as integer with a non-shortest head"
        return None
    if kind == "single":
        x = struct.unpack(">f", struct.pack(">I", val))[0]
        if e.kind != "float" or e.ai != 26 or not ((x != x and e.value != e.value) or x == e.value):
            return f"single {val:08x} was encoded as {e.kind} {e.value!r} (ai={e.ai})"
        return None
    if kind != e.kind:
        return f"written {kind} was encoded as {e.kind}"
    if val != e.value:
        return f"written {kind} {val!r:.80} was encoded with value {e.value!r:.80}"
    if e.kind in ("uint", "negint", "array", "map", "tag", "bytes", "text") and not ref.is_shortest(e):
        return f"{kind} {val!r:.40} uses a non-shortest head (additional info {e.ai})"
    return None


def _match_decoded(w, body):
    """written item vs the decoder's item line body -> error or None"""
    kind, val = w
    t = body.split()
    if kind in ("double", "single"):
        x = ref.double_from_bits(val) if kind == "double" else struct.unpack(">f", struct.pack(">I", val))[0]
        if t[0] == "float":
            y = ref.double_from_bits(int(t[1], 16))
            ok = (x != x and y != y) or x == y
        elif t[0] in ("uint", "negint"):
            ok = ref.same_number(x, t[0], int(t[1]))
        else:
            ok = False
        return None if ok else f"written float {val:x} ({x!r}) decoded as `{body}`"
    if kind in ("bytes", "text"):
        want = f"{kind} {len(val)} " + ((val.hex() or "-") if len(val) <= 64 else f"fnv={_fnv(val):016x}")
    elif val is None:
        want = kind
    else:
        want = f"{kind} {val}"
    return None if body == want else f"written `{want:.100}` decoded as `{body:.100}`"


def _split_item(line):
    """'P item <body> rem=<n>' -> (cls, body, rem) or None"""
    t = line.split(" ")
    if len(t) < 4 or t[1] != "item" or not t[-1].startswith("rem="):
        return None
    return t[0], " ".join(t[2:-1]), int(t[-1][4:])


def oracle(case, lines):
    errs = []
    if case.ops and case.ops[0] != "bigmode" and any(o.startswith(("textr ", "bytesr ")) and int(o.split()[2]) >= 500000 for o in case.ops):
        return []     # multi-MiB strings are only driven in digest mode (keeps the minimiser from dropping `bigmode`)
    li = 0

    def nxt():
        nonlocal li
        l = lines[li] if li < len(lines) else None
        li += 1
        return l

    big = False
    written = []       # items asked of the encoder since the last reset
    enc = None         # bytes the implementation reported (W enc)
    elems = None       # reference parse of enc (flat)
    data = None        # bytes the current decoder reads
    delems = None      # reference elements of data by start offset
    raw = False
    pos = 0            # offset of the next element not yet handed out
    tracking = False   # False once the decoder is in a state the oracle makes no claim about

    def elem_at(p):
        try:
            return ref.element(data, p)
        except ref.Malformed:
            return None

    def do_all():
        nonlocal pos, tracking
        cls = "W" if raw else "P"
        while True:
            l = nxt()
            if l is None:
                errs.append("all: output ends early"); return
            if l.startswith("W err"):
                if not raw and tracking:
                    errs.append(f"decoder failed on encoder output at offset {pos}: {l}")
                elif tracking and pos < len(data):
                    e = elem_at(pos)
                    if e is not None and e.kind != "simple":
                        errs.append(f"decoder rejected a well-formed element at offset {pos} ({e.kind}): {l}")
                tracking = False
                return
            if l == f"{cls} end rem=0":
                if tracking and pos != len(data):
                    errs.append(f"decoder reported end of data at offset {pos} of {len(data)}")
                return
            it = _split_item(l)
            if it is None or it[0] != cls:
                errs.append(f"all: unexpected line `{l}`"); return
            if not tracking:
                continue
            e = elem_at(pos)
            if e is None or e.kind == "simple":
                errs.append(f"decoder produced `{it[1]:.60}` at offset {pos} where the reference reader finds no valid element")
                tracking = False
                continue
            if not raw:
                # position in written list = index of element
                idx = delems.get(pos)
                if idx is None or idx >= len(written):
                    errs.append(f"decoded element at offset {pos} does not start on a written item")
                else:
                    m = _match_decoded(written[idx], it[1])
                    if m:
                        errs.append("round trip: " + m)
            elif not _item_matches(it[1], e):
                errs.append(f"decoded `{it[1]:.80}` but the reference reader finds {e!r:.120} at offset {pos}")
            pos = e.end
            if it[2] != len(data) - pos:
                errs.append(f"remaining length {it[2]} after element ending at {pos} of {len(data)}")

    for op in case.ops:
        if len(errs) > 5:
            break
        w = _written_item(op)
        t = op.split()
        if w is not None:
            written.append(w)
            continue
        if op == "reset":
            written = []
            continue
        if op == "bigmode":
            big = True
            continue
        if op == "enc" and big:
            l = nxt()
            nxt()   # W cap
            if l is None or not l.startswith("W encsum len="):
                errs.append(f"enc (bigmode): unexpected line {l}"); break
            got = int(l.split("len=")[1].split()[0])
            want = 0
            for kind, val in written:
                if kind in ("bytes", "text"):
                    want += _head_len(len(val)) + len(val)
                elif kind in ("uint", "negint", "array", "map", "tag"):
                    want += _head_len(val)
                else:
                    want = None
                    break
            if want is not None and got != want:
                errs.append(f"encoder output is {got} bytes, the {len(written)} items written need {want} (an item or its payload is missing)")
            continue
        if op == "enc":
            l = nxt()
            if l is None or not l.startswith("W enc "):
                errs.append(f"enc: unexpected line {l}"); break
            h = l[6:]
            try:
                enc = b"" if h == "-" else bytes.fromhex(h)
            except ValueError:
                errs.append("enc: garbled output line"); break
            nxt()  # W cap
            try:
                elems = ref.elements(enc)
            except ref.Malformed as ex:
                errs.append(f"encoder output is not a sequence of well-formed CBOR heads: {ex}")
                elems = None
                continue
            if len(elems) != len(written):
                errs.append(f"{len(written)} items written, independent reader finds {len(elems)} elements")
            else:
                for wi, e in zip(written, elems):
                    m = _match_written(wi, e)
                    if m:
                        errs.append("encoding: " + m)
                        break
            if _ops_wellformed(written):
                p = 0
                try:
                    while p < len(enc):
                        p = ref.well_formed(enc, p)
                except ref.Malformed as ex:
                    errs.append(f"encoder output of a well-formed item sequence rejected by the independent RFC 8949 reader at {p}: {ex}")
            continue
        if op in ("load", "decode_all"):
            if enc is None or elems is None:
                tracking = False
                if op == "decode_all":
                    do_all()
                continue
            data, raw, pos, tracking = enc, False, 0, True
            delems = {e.start: i for i, e in enumerate(elems)}
            if op == "decode_all":
                do_all()
            continue
        if t[0] == "dec":
            data = b"" if t[1] in ("-", "NULL") else bytes.fromhex(t[1])
            raw, pos, tracking, delems = True, 0, True, None
            continue
        if data is None:
            nxt()
            continue
        cls = "W" if raw else "P"
        if op == "all":
            do_all()
            continue
        l = nxt()
        if l is None:
            errs.append(f"{op}: no output"); break
        if op == "rem":
            continue
        if not tracking:
            continue
        if l.startswith("W err"):
            if "UNEXPECTED_TYPE" in l and t[0] == "pop":
                e = elem_at(pos)
                if e is not None and e.kind == t[1]:
                    errs.append(f"pop {t[1]} refused although the next element is {e.kind}")
                continue
            if not raw:
                if op == "consume":
                    try:
                        ref.well_formed(data, pos)
                        errs.append(f"consume failed on a well-formed item written by the encoder at offset {pos}: {l}")
                    except ref.Malformed:
                        pass
                elif pos < len(data):
                    errs.append(f"{op} failed on encoder output at offset {pos}: {l}")
            tracking = False
            continue
        e = elem_at(pos)
        if op == "peek":
            if e is None or e.kind == "simple":
                errs.append(f"peek succeeded at offset {pos} where no valid element starts: {l}")
                tracking = False
            elif not l.startswith(f"{cls} peek {e.kind} "):
                errs.append(f"peek reports `{l}` but the element at offset {pos} is {e.kind}")
            continue
        if op == "skip" or t[0] == "pop":
            if e is None or e.kind == "simple":
                errs.append(f"{op} succeeded at offset {pos} where no valid element starts: {l}")
                tracking = False
                continue
            if t[0] == "pop":
                it = _split_item(l)
                if it is None:
                    errs.append(f"{op}: unexpected line `{l}`"); continue
                if e.kind != t[1]:
                    errs.append(f"pop {t[1]} succeeded on an element of type {e.kind}: `{l:.100}`")
                elif not raw and delems.get(pos) is not None and delems[pos] < len(written):
                    m = _match_decoded(written[delems[pos]], it[1])
                    if m:
                        errs.append("round trip: " + m)
                elif raw and not _item_matches(it[1], e):
                    errs.append(f"decoded `{it[1]:.80}` but the reference reader finds {e!r:.120}")
            pos = e.end
            continue
        if op == "consume":
            try:
                q = ref.well_formed(data, pos)
            except ref.Malformed:
                # not a well-formed item per RFC 8949: the API is lenient in places (stray break, odd map); no claim
                tracking = False
                continue
            want = f"{cls} consume OK rem={len(data) - q}"
            if l != want:
                errs.append(f"consume of the well-formed item at [{pos},{q}) of {len(data)} bytes: got `{l}`, expected `{want}`")
                tracking = False
            pos = q
            continue
    return errs


def nontrivial(case):
    n = sum(1 for o in case.ops if _written_item(o) is not None)
    if n >= 2:
        return True
    for o in case.ops:
        if o.startswith("dec ") and len(o) >= 8:
            return True
    return False


def distribution(cases, c_out):
    d = {"kinds": {}, "items": {}, "head_width": {0: 0, 1: 0, 2: 0, 4: 0, 8: 0}, "float_form": {"int": 0, "f32": 0, "f64": 0},
         "decoder_errors": {}, "max_nesting": 0, "strings_over_255": 0, "consume_ok": 0}
    for i, c in enumerate(cases):
        k = c.tags.get("kind", "?")
        d["kinds"][k] = d["kinds"].get(k, 0) + 1
        depth = mx = 0
        for o in c.ops:
            t = o.split()[0]
            if _written_item(o) is not None:
                d["items"][t] = d["items"].get(t, 0) + 1
            if t in ("arr", "map", "tag", "indef_arr", "indef_map", "indef_bytes", "indef_text"):
                depth += 1
                mx = max(mx, depth)
        d["max_nesting"] = max(d["max_nesting"], c.tags.get("depth", min(mx, 64)))
        for l in c_out.get(i, []):
            if l.startswith("W enc ") and l[6:] != "-":
                try:
                    for e in ref.elements(bytes.fromhex(l[6:])):
                        if e.major != 7 and e.ai != 31:
                            d["head_width"][{24: 1, 25: 2, 26: 4, 27: 8}.get(e.ai, 0)] += 1
                        if e.kind in ("bytes", "text") and len(e.value) > 255:
                            d["strings_over_255"] += 1
                except (ref.Malformed, ValueError):
                    pass
            elif l.startswith("W err "):
                n = l.split()[2]
                d["decoder_errors"][n] = d["decoder_errors"].get(n, 0) + 1
            elif " consume OK" in l:
                d["consume_ok"] += 1
        for o in c.ops:
            if o.startswith("f "):
                d["float_form"][ref.expected_float_form(ref.double_from_bits(int(o[2:], 16)))] += 1
    d["head_width"] = {str(k): v for k, v in d["head_width"].items()}
    return d


MANIFEST = dict(
    category="proof",
    design_ref="5.10",
    text=("Lean 4 theorems over a bit-pattern model of source/cbor.c and the libcbor head encoder / stream decoder: every item "
          "sequence written by the encoder is decoded to the same items consuming exactly the encoded bytes (a double maps to what its "
          "narrowing chose), integer heads are the shortest of the five widths, a double is written as integer / single / double by the "
          "smallest lossless form and the narrowing preserves the numeric value, skipping a whole data item advances by exactly its "
          "encoded length for any nesting, the encoding of every well-formed data item is accepted by an RFC 8949 appendix-C reader "
          "transcribed independently in Lean, and the bytes written do not depend on the buffer-growth points. Tied to /repo by a correspondence run of the compiled model against the library rebuilt from "
          "the working tree (ASan/UBSan), with an independent Python RFC 8949 reader applied to the bytes the implementation produced, "
          "and a malformed-input stream for the decoder."),
    note=("Trusted: Lean kernel; hand-written model Model/Cbor.lean (tied by correspondence only); harness; lib/cbor_ref.py; x86-64 "
          "float cast behaviour. Unbounded recursion of consume_next_whole_data_item on deeply nested input (known issue) is outside "
          "the check: generated nesting stays <= 5000 (quick) / 20000 (thorough), below the F6 threshold."),
    technique="Lean 4 proofs by induction over item sequences / data-item trees + model/implementation differential run + independent reference decoder",
)
