"""C02 — hash table behaves as a map under any operation history."""
import itertools, os, re
from lib.core import Case
from lib import cbuild
from props import c02_gen

ID = "C02"
LEAN_MODULES = ["AwsVerif.Props.C02"]
COMPONENT = "hashtable"


def _public_functions(path):
    """names of the external function definitions of a C file (top-level `type name(...) {`, not static)"""
    try:
        src = c02_gen.strip_c_comments(open(path).read())
    except OSError:
        return []
    src = re.sub(r'"(?:\\.|[^"\\])*"', '""', src)
    src = re.sub(r"^[ \t]*#.*?(?<!\\)$", "", src, flags=re.M)      # preprocessor lines (single-line ones)
    names, depth, head = [], 0, ""
    for ch in src:
        if ch == "{":
            if depth == 0:
                h = head.strip()
                m = re.search(r"([A-Za-z_]\w*)\s*\(", h)
                if m and "=" not in h.split("(")[0] and not re.search(r"\b(static|typedef)\b", h.split("(")[0]) \
                        and not re.match(r"(struct|enum|union)\b[^()]*$", h):
                    names.append(m.group(1))
                head = ""
            depth += 1
        elif ch == "}":
            depth -= 1
            if depth == 0:
                head = ""
        elif depth == 0:
            head = "" if ch == ";" else head + ch
    return sorted(set(names))


_HT_C = os.path.join(cbuild.REPO, "source", "hash_table.c")
# second build configuration of the content hashes: source/hash_table.c (which textually includes lookup3.inl) compiled
# again with -DVALGRIND, every external function it defines renamed vg_<name> so that both configurations live in one binary
HARNESS = dict(name="hashtable", flavour="asan",
               extra_srcs=[(_HT_C, ["-DVALGRIND", "-DUSE_SIMD_ENCODING"] + [f"-D{n}=vg_{n}" for n in _public_functions(_HT_C)],
                            "hash_table_valgrind")])
# iteration order, slot layout and growth points are conformance (W); the reference-dict oracle below checks every P line
# (results, contents, counts, destructor multisets, visit-exactly-once) and alone decides what is a concrete violation
P_DIFF_CONCRETE = False
TIMEOUT = int(os.environ.get("C02_TIMEOUT", "900"))   # per-stream watchdog (seconds)
TRUSTED = ["hand model lean/AwsVerif/Model/Lookup3.lean (byte-wise hashlittle2 + interpreter of the extracted path tables; tied by the "
           "W streams `hl2` / `hl2s` at all four alignments with varying bytes behind the key)",
           "props/c02_gen.py lookup3_paths(): extraction of the three hashlittle2 paths (non-VALGRIND branch, and the -DVALGRIND tail of "
           "the 32-bit path as l3Tail32V) into term tables; any "
           "statement outside the modelled shape is a GenError",
           "hand model lean/AwsVerif/Model/HashTable.lean (tied to source/hash_table.c by this correspondence run only: "
           "P lines = results/contents/destructor multisets, W lines = full slot dump through private/hash_table_impl.h)",
           "props/c02_gen.py: s_tolower_table, FNV constants, the max_load_factor literal and the lookup3 rotation amounts / basis / "
           "initial values are regenerated from /repo on every run (shape of mix/final/hashlittle2 checked against the modelled template)",
           "props/c02_gen.py state_valid(): the integer conjuncts of hash_table_state_is_valid are cut out of hash_table.c and re-translated "
           "through gen/cfun.py into Gen/HashValid.lean on every run (theorem c02_state_valid: they hold after every program); iter_valid(): the "
           "tail of aws_hash_iter_is_valid likewise (theorem c02_iter_valid: it accepts what aws_hash_iter_begin / _next return)",
           "harness/hashtable.c (user hash = per-case table on key identity, equality on identity, in-harness invariant monitor)"]
ASSUMPTIONS = ["the user's hash function is a function of what the user's equality compares (hash_fn consistent with equals_fn)",
               "iterators are not used across a structural change made through another route (API contract)",
               "allocation of the slot array succeeds (aws_mem_calloc aborts otherwise)"]
RULE = ("op programs over 1-2 tables, 3-64 key identities x 2 pointers, adversarial user hashes (all-equal, 0, 2^64-1, clustered "
        "at size-1, same home different high bits, random), initial sizes {0,1,2,3,8,64}, destructor sets {kv,k,v,-}; "
        "non-trivial = >=1 overwrite-or-remove and (>=1 growth or >=1 iterator/foreach deletion); distinct by op-file hash; "
        "plus exhaustive put/remove/iterate programs on a 4-slot table; plus tables keyed through the library's own pairs "
        "(aws_string / C string / byte cursor / uint64 / pointer keys with their hash, equality and destroy callbacks; every lookup "
        "key a fresh equal object at another alignment) against a plain dict, and the pairs themselves on adversarial key pairs "
        "(differ in last byte only, same length and first byte, proper prefix, equal up to an embedded NUL, high-32-bit differences)")
NOT_PROVED = ["aws_hash_ptr / aws_hash_combine are modelled and compared (W) but carry no theorem (there is no equality notion to be "
              "consistent with beyond pointer identity)"]

M64 = (1 << 64) - 1


def regen(ctx):
    c02_gen.regen(ctx)


# ---------------------------------------------------------------- generator
def _hashes(rng, nid, mode, size_hint):
    """ident -> 64-bit user hash, adversarial by construction"""
    hs = {}
    if mode == "equal":
        c = rng.choice([0, 1, M64, 42, rng.getrandbits(64), size_hint - 1, (1 << 63)])
        hs = {i: c for i in range(nid)}
    elif mode == "zero_one":          # 0 is remapped to 1 by s_hash_for: collides with a genuine 1
        hs = {i: rng.choice([0, 1]) for i in range(nid)}
    elif mode == "end":               # clustered at the end of the slot array for several table sizes
        hs = {i: rng.choice([M64, M64 - 1, M64 - 2, size_hint - 1, size_hint - 2, 2 * size_hint - 1, 4 * size_hint - 1, 7, 3, 1]) & M64
              for i in range(nid)}
    elif mode == "samehome":          # same low bits, different high bits (split apart by a resize)
        lo = rng.choice([0, 1, size_hint - 1, 3])
        hs = {i: ((rng.getrandbits(8) << rng.choice([1, 2, 3, 4, 6, 32, 56])) | lo) & M64 for i in range(nid)}
    elif mode == "seq":
        base = rng.choice([0, 1, size_hint - 2, M64 - nid // 2])
        hs = {i: (base + i // rng.choice([1, 2, 3])) & M64 for i in range(nid)}
    elif mode == "null42":            # collide with the NULL key's hash code 42
        hs = {i: rng.choice([42, 42 + size_hint, 41, 43]) for i in range(nid)}
    else:
        hs = {i: rng.getrandbits(64) if rng.random() < 0.5 else rng.getrandbits(4) for i in range(nid)}
    return hs


MODES = ["equal", "zero_one", "end", "samehome", "seq", "null42", "random"]


def _key(rng, nid, null_ok=True):
    if null_ok and rng.random() < 0.03:
        return "knull"
    # skewed towards a small working set so that overwrites / removes of present keys are frequent
    i = rng.randrange(nid) if rng.random() < 0.6 else rng.randrange(min(nid, 4))
    return f"k{i}.p{rng.randrange(2)}"


def gen_case(rng, maxops):
    nid = rng.choice([3, 3, 4, 4, 5, 6, 8, 8, 12, 16, 24, 40, 64])
    isz = rng.choice([0, 1, 2, 3, 8, 8, 64])
    mode = rng.choice(MODES)
    size_hint = max(2, 1 << max(0, (max(isz, 1) - 1)).bit_length())
    hs = _hashes(rng, nid, mode, size_hint)
    ops = [f"hash k{i} {h:x}" for i, h in sorted(hs.items())]
    destr = rng.choice(["kv", "kv", "k", "v", "-"])
    ops.append(f"init t0 {isz} {destr}")
    vctr = [0]
    def val():
        if rng.random() < 0.04:
            return "vnull"
        vctr[0] += 1
        return f"v{vctr[0] % 1000}"
    two = rng.random() < 0.2
    if two:
        ops.append(f"init t1 {rng.choice([0, 2, 8])} {rng.choice(['kv', destr])}")
    nops = rng.randint(3, maxops)
    fill = rng.random() < 0.3   # start with a burst of insertions (forces growth and long probe runs)
    for step in range(nops):
        t = "t1" if two and rng.random() < 0.3 else "t0"
        r = rng.random()
        if fill and step < nops // 2:
            r = r * 0.45
        if r < 0.38:
            ops.append(f"put {t} {_key(rng, nid)} {val()}")
        elif r < 0.40:
            ops.append(f"putn {t} {_key(rng, nid)} {val()}")
        elif r < 0.42:
            ops.append(rng.choice([f"createn {t} {_key(rng, nid)} {rng.choice(['e', 'c', '-'])}",
                                   f"removen {t} {_key(rng, nid)} {rng.choice(['out', 'noout'])}"]))
        elif r < 0.43:
            ops.append(f"create {t} {_key(rng, nid)}")
        elif r < 0.53:
            ops.append(f"find {t} {_key(rng, nid)}")
        elif r < 0.68:
            ops.append(f"remove {t} {_key(rng, nid)} {rng.choice(['out', 'noout', 'noout'])}")
        elif r < 0.73:
            ops.append(f"remel {t} {_key(rng, nid)}")
        elif r < 0.745:
            ops.append(f"clear {t}")
        elif r < 0.80:
            fl = []
            style = rng.random()
            for i in range(nid):
                if style < 0.5:      # continue / continue+delete only: a full pass
                    if rng.random() < 0.4:
                        fl.append(f"k{i}:3")
                elif rng.random() < 0.35:
                    fl.append(f"k{i}:{rng.choice([0, 1, 2, 3, 3, 3, 4, 5, 6, 7])}")
            ops.append(" ".join([f"foreach {t}"] + fl))
        elif r < 0.90:
            it = f"i{rng.randrange(2)}"
            ops.append(f"iter_begin {t} {it}")
            pdel = rng.choice([0.0, 0.3, 0.6, 1.0])
            for _ in range(rng.randint(0, min(2 * nid, 40) + 2)):
                if rng.random() < pdel:
                    ops.append(f"iter_delete {it} {rng.choice(['destroy', 'keep'])}")
                if rng.random() < 0.15:
                    ops.append(f"iter_done {it}")
                if rng.random() < 0.04:
                    ops.append(f"find {t} {_key(rng, nid)}")     # non-structural op during iteration
                ops.append(f"iter_next {it}")
            if rng.random() < 0.3:
                ops.append(f"iter_done {it}")
        elif r < 0.93:
            ops.append(f"count {t}")
        elif r < 0.96 and two:
            ops.append(rng.choice(["swap t0 t1", "eq t0 t1", "eq t1 t0", "swap t1 t0", "eqm t0 t1", "eqm t1 t0"]))
        elif r < 0.97:
            ops.append(rng.choice([f"cleanup {t}", f"cleanup {t}", "move t2 t0", "move t0 t2", f"init {t} {rng.choice([0, 2, 3])} {destr}",
                                   "eq t0 t0", "iter_next i1", "iter_delete i0 keep"]))
        elif r < 0.975:
            ops.append(f"init t3 {rng.choice(['MAX', 'HALF', 'HALF+1', 'HALF+2', 'MAX-1', str(1 << 60)])} -")
        else:
            ops.append(f"put {t} {_key(rng, nid)} {val()}")
    return Case(ops, {"nid": nid, "isz": isz, "mode": mode, "destr": destr})


def gen_eq_case(rng):
    """two tables built from the same or nearly the same pairs in different orders, then eq"""
    nid = rng.choice([3, 5, 8])
    hs = _hashes(rng, nid, rng.choice(MODES), 8)
    ops = [f"hash k{i} {h:x}" for i, h in sorted(hs.items())]
    ops += [f"init t0 {rng.choice([0, 8])} -", f"init t1 {rng.choice([0, 2, 64])} -"]
    pairs = [(f"k{i}", f"v{rng.randrange(3)}") for i in range(nid) if rng.random() < 0.8]
    a = list(pairs); b = list(pairs)
    rng.shuffle(b)
    r = rng.random()
    if r < 0.15 and b:
        k, v = b[0]; b[0] = (k, "v7")
    elif r < 0.3 and b:
        k, v = b[0]; b[0] = (k, rng.choice([f"v{int(v[1:]) + 8}", "vnull"]))
    elif r < 0.5 and b:
        b.pop()
    elif r < 0.6:
        b.append((f"k{nid + 1}", "v1"))
    elif r < 0.8 and b:
        b[rng.randrange(len(b))] = (f"k{nid + 2}", "v1")      # same count, one key replaced by a key a does not have
    for k, v in a:
        ops.append(f"put t0 {k}.p0 {v}")
    for k, v in b:
        ops.append(f"put t1 {k}.p1 {v}")
    ops += ["eq t0 t1", "eq t1 t0", "eqm t0 t1", "eqm t1 t0", "swap t0 t1", "eq t0 t1", "eqm t0 t1"]
    return Case(ops, {"kind": "eq"})


def gen_hashic_case(rng):
    ops = []
    for _ in range(12):
        n = rng.choice([0, 1, 2, 3, 8, 17])
        a = bytes(rng.choice([rng.randrange(256), rng.randrange(0x40, 0x7c)]) for _ in range(n))
        m = rng.random()
        if m < 0.5:      # case-flipped copy
            b = bytes((c ^ 0x20) if (0x41 <= c <= 0x5a or 0x61 <= c <= 0x7a) and rng.random() < 0.5 else c for c in a)
        elif m < 0.7:    # near miss: '@' vs '`', '[' vs '{'
            b = bytes((c ^ 0x20) if rng.random() < 0.3 else c for c in a)
        else:
            b = bytes(rng.randrange(256) for _ in range(rng.choice([n, n, n + 1])))
        ops.append(f"hashic {a.hex() or '-'}")
        ops.append(f"eqic {a.hex() or '-'} {b.hex() or '-'}")
    return Case(ops, {"kind": "hashic"})


def gen_lookup3_cases(rng, nrandom):
    """content hashes: every length 0..40 (all alignments are driven by the harness), boundary fills, embedded NULs
    (aws_hash_c_string stops there), random lengths; aws_hash_ptr / aws_hash_combine on boundary words"""
    out = []
    ops = []
    for n in range(41):
        ops.append("hl2 " + (bytes(rng.randrange(1, 256) for _ in range(n)).hex() or "-"))
    for n in (1, 4, 11, 12, 13, 24, 25, 36, 37):
        ops.append("hl2 " + ("ff" * n))
        ops.append("hl2 " + ("00" * n))
        ops.append("hl2 " + bytes((i * 37 + 1) % 256 for i in range(n)).hex())
    out.append(Case(ops, {"kind": "lookup3"}))
    # the key as a sub-view of a larger buffer: every length 0..40 (every residue mod 12, one to three blocks), the bytes
    # behind the key with non-zero low / high nibbles (a mask that keeps 4 bits too many or too few is visible)
    ops = []
    followers = ["01", "10", "0f", "f0", "ff", "80", "08", "a5"]
    for n in range(41):
        key = bytes(rng.randrange(1, 256) for _ in range(n)).hex() or "-"
        for _ in range(2):
            ops.append(f"hl2s {key} " + "".join(rng.choice(followers) for _ in range(rng.choice([1, 3, 4]))))
    out.append(Case(ops, {"kind": "lookup3"}))
    ops = []
    for _ in range(nrandom // 3):
        n = rng.choice([rng.randrange(0, 41), rng.randrange(41, 200)])
        ops.append("hl2s " + (bytes(rng.randrange(256) for _ in range(n)).hex() or "-") + " " +
                   bytes(rng.randrange(256) for _ in range(rng.randrange(1, 8))).hex())
    for _ in range(nrandom):
        n = rng.choice([rng.randrange(0, 41), rng.randrange(0, 41), rng.randrange(41, 300)])
        b = bytearray(rng.randrange(256) for _ in range(n))
        if n and rng.random() < 0.3:
            b[rng.randrange(n)] = 0
        ops.append("hl2 " + (bytes(b).hex() or "-"))
    words = [0, 1, 0xff, 0x100, 0xffffffff, 0x100000000, (1 << 63), M64, 0x7ffdeadbeef0]
    for w in words:
        ops.append(f"hptr {w:x}")
    for _ in range(12):
        ops.append(f"hptr {rng.getrandbits(64):x}")
        ops.append(f"hcomb {rng.choice(words + [rng.getrandbits(64)]):x} {rng.choice(words + [rng.getrandbits(64)]):x}")
    out.append(Case(ops, {"kind": "lookup3"}))
    # the same programs against the -DVALGRIND build of the hash functions (ops with suffix v)
    for c in list(out):
        out.append(Case([re.sub(r"^(hl2s|hl2|hptr|hcomb) ", r"\1v ", o) for o in c.ops], {"kind": "lookup3", "config": "VALGRIND"}))
    return out


def _pair_keys(rng, kind):
    """two key tokens with an adversarial relationship for the pair's equality callback"""
    if kind in ("u64", "ptr"):
        a = rng.choice([0, 1, 0xffffffff, 1 << 32, M64, rng.getrandbits(64), rng.getrandbits(20)])
        r = rng.random()
        b = a if r < 0.35 else (a ^ (1 << rng.choice([32, 33, 47, 63]))) if r < 0.7 else (a ^ (1 << rng.randrange(32))) if r < 0.85 \
            else rng.getrandbits(64)
        return f"{a:x}", f"{b & M64:x}"
    n = rng.choice([0, 1, 2, 3, 7, 8, 9, 10, 12, 13, 14])
    a = bytearray(rng.randrange(1, 256) for _ in range(n))
    b = bytearray(a)
    r = rng.random()
    if r < 0.3 or n == 0:
        pass                                        # equal
    elif r < 0.5:
        b[-1] ^= 1 << rng.randrange(8)              # differ in the LAST byte only (length-1 comparisons miss it)
        if b[-1] == 0:
            b[-1] = 1
    elif r < 0.65 and n > 1:
        b[rng.randrange(1, n)] ^= 0x20              # same length, same first byte
        b = bytearray(x or 1 for x in b)
    elif r < 0.75:
        b = b + bytearray([rng.randrange(1, 256)])  # proper prefix
    elif r < 0.85 and kind != "cstr" and n > 0:
        i = rng.randrange(n); a[i] = 0; b[i] = 0    # embedded NUL, equal
        if rng.random() < 0.5 and i + 1 < n:
            b[-1] ^= 0x40                           # ... or different only behind the NUL
    elif kind == "cstr" and n > 2:
        i = rng.randrange(1, n); a[i] = 0; b[i] = 0; b[-1] ^= 0x11   # C strings: equal up to the NUL, different behind it
    else:
        b = bytearray(rng.randrange(1, 256) for _ in range(n))
    return (bytes(a).hex() or "-"), (bytes(b).hex() or "-")


def gen_typed_case(rng):
    """a table keyed through one of the library's own hash / equality (/ destroy) pairs, driven like a map: every lookup key
    is a fresh, equal key object at another address / alignment"""
    kind = rng.choice(["str", "cstr", "cur", "u64", "ptr"])
    ops = [f"tinit {kind} {rng.choice([0, 2, 3, 8])}"]
    pool = []
    for _ in range(rng.randint(2, 9)):
        a, b = _pair_keys(rng, kind)
        pool += [a, b]
    v = 0
    for _ in range(rng.randint(4, 40)):
        k = rng.choice(pool)
        r = rng.random()
        if r < 0.45:
            v += 1
            ops.append(f"tput {k} v{v}")
        elif r < 0.7:
            ops.append(f"tfind {k}")
        elif r < 0.9:
            ops.append(f"trem {k}")
        else:
            ops.append(f"pair {kind} {k} {rng.choice(pool)}")
    if rng.random() < 0.7:
        ops.append("tclean")
        if rng.random() < 0.3:
            ops += [f"tinit {kind} 2", f"tput {rng.choice(pool)} v1"]
    return Case(ops, {"kind": "typed", "pair": kind})


def gen_pair_case(rng):
    ops = ["lowertab"]
    for _ in range(60):
        kind = rng.choice(["str", "cstr", "cur", "u64", "ptr"])
        a, b = _pair_keys(rng, kind)
        ops.append(f"pair {kind} {a} {b}")
    return Case(ops, {"kind": "pairs"})


def tolower_sweep_case():
    """every byte value against itself and against its 0x20-flipped partner (boundary bytes '@' '[' '`' '{' included)"""
    ops = []
    for c in range(256):
        ops.append(f"eqic {c:02x} {c ^ 0x20:02x}")
        ops.append(f"eqic 61{c:02x}7a 41{c ^ 0x20:02x}5a")
    ops += ["eqic - -", "eqic 41 -", "eqic - 41", "hashic -", "hashic 414243", "hashic 616263"]
    return Case(ops, {"kind": "hashic"})


EXH_HASHES = [
    {0: 3, 1: 3, 2: 3, 3: 3},                  # all equal, home = last slot of a 4-slot table (wrap-around)
    {0: 0, 1: M64, 2: 7, 3: 2},                # 0 -> 1, 2^64-1, homes split by the resize (7: 3 -> 7)
    {0: 2, 1: 3, 2: 3, 3: 6},                  # staggered run across the end of the array
]


def exhaustive_cases(depth, hashsets=EXH_HASHES, with_iter=True):
    """all programs of `depth` ops over 4 identities on a 4-slot table; alphabet: put / remove each key,
    plus (last op only) a full iteration deleting by one of 4 masks"""
    alpha = [f"put t0 k{i}.p0 v{i}" for i in range(4)] + [f"remove t0 k{i}.p0 noout" for i in range(4)]
    tails = [[]]
    if with_iter:
        for mask in (0b1111, 0b0101, 0b0010):
            prog = ["iter_begin t0 i0"]
            for step in range(5):
                if mask >> (step % 4) & 1:
                    prog.append("iter_delete i0 destroy")
                prog.append("iter_next i0")
            tails.append(prog)
    out = []
    for hi, hs in enumerate(hashsets):
        head = [f"hash k{i} {h:x}" for i, h in sorted(hs.items())] + ["init t0 3 kv"]
        for seq in itertools.product(alpha, repeat=depth):
            for tl in tails:
                out.append(Case(head + list(seq) + tl, {"exhaustive": depth, "hs": hi}))
    return out


def gen_cases(rng, tier):
    quick = tier == "quick"
    cases = [gen_case(rng, 45) for _ in range(4000 if quick else 40000)]
    cases += [gen_eq_case(rng) for _ in range(60 if quick else 1500)]
    cases += [gen_hashic_case(rng) for _ in range(20 if quick else 500)] + [tolower_sweep_case()]
    cases += gen_lookup3_cases(rng, 150 if quick else 5000)
    cases += [gen_typed_case(rng) for _ in range(400 if quick else 8000)] + [gen_pair_case(rng) for _ in range(20 if quick else 300)]
    if quick:
        cases += exhaustive_cases(4)                       # 3 * 8^4 * 4 = 49 152 programs with iteration tails
        full = exhaustive_cases(5, with_iter=False)        # a random slice of the depth-5 space
        cases += rng.sample(full, 3000)
    else:
        cases += exhaustive_cases(6, with_iter=False)      # 3 * 8^6 = 786 432 programs
        cases += exhaustive_cases(5)                       # 3 * 8^5 * 4 with iteration-with-deletion tails
    return cases


# ---------------------------------------------------------------- direct oracle (reference dict + destructor counters)
class _Tab:
    def __init__(self, dk, dv):
        self.d = {}          # ident (None for NULL key) -> (keystr, valstr)
        self.dk, self.dv = dk, dv

    def dlog(self, k, v):
        return ([f"k:{k}"] if self.dk else []) + ([f"v:{v}"] if self.dv else [])


def _ident(k):
    return None if k == "knull" else int(k[1:].split(".")[0])


def _contents_line(name, tab):
    if tab is None:
        return f"P C {name} nil"
    items = sorted(f"{k}={v}" for k, v in tab.d.values())
    return f"P C {name} n={len(items)} " + (" ".join(items) if items else "-")


def _dline(log):
    return "P D " + (" ".join(sorted(log)) if log else "-")


def _bad_size(tok):
    if tok.startswith(("MAX", "HALF")):
        return True
    return int(tok) >= (1 << 59)


def oracle(case, lines):
    """reference map + destructor counters computed from the op list; compared with the implementation's P lines only"""
    errs = []
    P = [l for l in lines if not l.startswith("W ")]
    pos = [0]

    def take():
        while pos[0] < len(P) and P[pos[0]].startswith("P MONITOR"):
            errs.append("invariant monitor on the C slots: " + P[pos[0]])
            pos[0] += 1
        l = P[pos[0]] if pos[0] < len(P) else None
        pos[0] += 1
        return l

    def expect(exp, what):
        l = take()
        if l != exp:
            errs.append(f"{what}: implementation `{l}` but reference map says `{exp}`")
            return False
        return True

    typed = {"kind": None, "d": {}}
    tabs = {}
    iters = {}   # name -> dict(tab, valid, remaining: set of idents still to be visited, cur: ident or None, status)

    def stale(t, keep=None):
        for n, it in iters.items():
            if it["tab"] == t and n != keep:
                it["valid"] = False

    for op in case.ops:
        if errs:
            break
        tk = op.split()
        o = tk[0]
        if o == "hash":
            continue
        if o in ("hashic", "hptr", "hcomb", "hptrv", "hcombv"):
            continue    # W only
        if o in ("tinit", "tput", "tfind", "trem", "tclean", "pair", "lowertab"):
            _typed_oracle(op, tk, typed, take, expect, errs)
            continue
        if o in ("hl2s", "hl2sv"):
            l = take()
            if l != f"P {o} consistent=1":
                errs.append(f"{op}: equal keys hash differently depending on the bytes that follow them in memory / on their "
                            f"alignment{' (library built with -DVALGRIND)' if o.endswith('v') else ''}: `{l}`")
            continue
        if o in ("hl2", "hl2v"):
            l = take()
            if l != f"P {o} consistent=1":
                errs.append(f"{op}: the same bytes hash differently depending on where they are stored "
                            f"(alignment / string vs cursor vs C string{'; library built with -DVALGRIND' if o.endswith('v') else ''}): `{l}`")
            continue
        if o == "eqic":
            a, b = (bytes.fromhex(x) if x != "-" else b"" for x in tk[1:3])
            low = lambda s: bytes(c + 32 if 65 <= c <= 90 else c for c in s)
            eq = int(low(a) == low(b))
            l = take()
            m = re.fullmatch(r"P eqic (\d) hasheq=(\d)", l or "")
            if not m:
                errs.append(f"{op}: unexpected `{l}`")
            elif int(m.group(1)) != eq:
                errs.append(f"{op}: eq_ignore_case gives {m.group(1)}, ASCII case folding says {eq}")
            elif eq and m.group(2) != "1":
                errs.append(f"{op}: equal ignoring case but hashes differ")
            continue
        if o == "init":
            t = tk[1]
            if tabs.get(t) is not None:
                expect("P init refused", op)
            elif _bad_size(tk[2]):
                expect("P init AWS_ERROR_OVERFLOW_DETECTED", op)
            else:
                tabs[t] = _Tab("k" in tk[3], "v" in tk[3])
                stale(t)
                expect("P init OK", op) and expect(_contents_line(t, tabs[t]), op)
            continue
        if o in ("swap", "move"):
            a, b = tk[1], tk[2]
            if o == "move":
                if tabs.get(a) is not None or tabs.get(b) is None:
                    expect("P move refused", op)
                    continue
                tabs[a], tabs[b] = tabs[b], None
            else:
                tabs[a], tabs[b] = tabs.get(b), tabs.get(a)
            stale(a); stale(b)
            expect("P " + o, op) and expect(_contents_line(a, tabs[a]), op) and expect(_contents_line(b, tabs[b]), op)
            continue
        if o in ("eq", "eqm"):
            ta, tb = tabs.get(tk[1]), tabs.get(tk[2])
            if ta is None or tb is None:
                expect("P nil", op)
            else:
                def veq(x, y):      # s_safe_eq_check around the value_eq callback
                    if x == y:
                        return True
                    if x == "vnull" or y == "vnull":
                        return False
                    return o == "eqm" and int(x[1:]) % 8 == int(y[1:]) % 8
                same = set(ta.d) == set(tb.d) and all(veq(ta.d[i][1], tb.d[i][1]) for i in ta.d)
                expect(f"P {o} {int(same)}", op)
            continue
        if o in ("iter_next", "iter_done", "iter_delete"):
            it = iters.get(tk[1])
            tab = tabs.get(it["tab"]) if it else None
            if o == "iter_done":
                if it is None or not it["valid"]:
                    expect("P iter stale", op)
                else:
                    expect(f"P iter_done {int(it['status'] == 'done')}", op)
                continue
            if it is None or not it["valid"] or tab is None:
                expect("P iter stale", op)
                continue
            if o == "iter_delete":
                if it["status"] != "ready":
                    expect("P iter notready", op)
                    continue
                cur = it["cur"]
                k, v = tab.d.pop(cur)
                it["status"] = "deleted"
                stale(it["tab"], tk[1])
                expect("P iter deleted", op) and expect(_dline(tab.dlog(k, v) if tk[2] == "destroy" else []), op) and \
                    expect(_contents_line(it["tab"], tab), op)
                continue
            # iter_next
            _iter_advance(take, errs, op, it, tab)
            continue
        # ops with a table operand
        t = tk[1]
        tab = tabs.get(t)
        if o == "cleanup":
            if tab is None:
                expect("P cleanup nil", op)
            else:
                log = [x for k, v in tab.d.values() for x in tab.dlog(k, v)]
                tabs[t] = None
                stale(t)
                expect("P cleanup", op) and expect(_dline(log), op) and expect(_contents_line(t, None), op)
            continue
        if tab is None:
            expect("P nil", op)
            continue
        if o in ("putn", "createn", "removen"):
            _nullout_oracle(op, tk, t, tab, stale, expect)
            continue
        if o == "put":
            k, v = tk[2], tk[3]
            i = _ident(k)
            old = tab.d.get(i)
            log = []
            if old is not None:
                if old[0] != k and tab.dk:
                    log.append("k:" + old[0])
                if tab.dv:
                    log.append("v:" + old[1])
            tab.d[i] = (k, v)
            stale(t)
            expect(f"P put OK created={int(old is None)}", op) and expect(_dline(log), op) and expect(_contents_line(t, tab), op)
        elif o == "create":
            k = tk[2]
            i = _ident(k)
            old = tab.d.get(i)
            if old is None:
                tab.d[i] = (k, "vnull")
            stale(t)
            kk, vv = tab.d[i]
            expect(f"P create OK created={int(old is None)} {kk}={vv}", op) and expect(_contents_line(t, tab), op)
        elif o == "find":
            e = tab.d.get(_ident(tk[2]))
            expect("P find " + (f"{e[0]}={e[1]}" if e else "none"), op)
        elif o == "remove":
            i = _ident(tk[2])
            e = tab.d.pop(i, None)
            stale(t)
            want = tk[3] == "out"
            res = f"P remove present={int(e is not None)} " + (f"{e[0]}={e[1]}" if (e and want) else "-")
            log = tab.dlog(*e) if (e and not want) else []
            expect(res, op) and expect(_dline(log), op) and expect(_contents_line(t, tab), op)
        elif o == "remel":
            e = tab.d.pop(_ident(tk[2]), None)
            if e is None:
                expect("P remel 0", op)
            else:
                stale(t)
                expect("P remel 1", op) and expect(_dline([]), op) and expect(_contents_line(t, tab), op)
        elif o == "clear":
            log = [x for k, v in tab.d.values() for x in tab.dlog(k, v)]
            tab.d.clear()
            stale(t)
            expect("P clear", op) and expect(_dline(log), op) and expect(_contents_line(t, tab), op)
        elif o == "count":
            expect(f"P count {len(tab.d)}", op)
        elif o == "iter_begin":
            it = dict(tab=t, valid=True, remaining=set(tab.d.keys()), cur=None, status=None)
            iters[tk[2]] = it
            _iter_advance(take, errs, op, it, tab)
        elif o == "foreach":
            flags = {int(x.split(":")[0][1:]): int(x.split(":")[1]) for x in tk[2:]}
            fl = lambda i: 1 if i is None else flags.get(i, 1)
            stale(t)
            l1, l2 = take(), take()
            if l1 is None or l2 is None or not l2.startswith("P V"):
                errs.append(f"{op}: unexpected output `{l1}` / `{l2}`")
                continue
            vis = [] if l2 == "P V -" else l2.split()[2:]
            present = {f"{k}={v}": i for i, (k, v) in tab.d.items()}
            if len(set(vis)) != len(vis):
                errs.append(f"{op}: an entry was visited twice: {l2}")
            if any(x not in present for x in vis):
                errs.append(f"{op}: visited something that is not in the table: {l2}")
                continue
            ids = [present[x] for x in vis]
            stops = [i for i in ids if (fl(i) & 4) or not (fl(i) & 1)]
            if len(stops) > 1:
                errs.append(f"{op}: iteration went on after a callback asked to stop: {l2}")
            if not stops and set(ids) != set(tab.d.keys()):
                errs.append(f"{op}: full pass skipped entries: visited {l2}, table had {sorted(present)}")
            err = any(fl(i) & 4 for i in ids)
            if l1 != ("P foreach AWS_ERROR_UNKNOWN" if err else "P foreach OK"):
                errs.append(f"{op}: return value `{l1}`")
            for i in ids:
                if (fl(i) & 2) and not (fl(i) & 4):
                    del tab.d[i]
            expect(_contents_line(t, tab), op)
        else:
            l = take()
            if l != "bad-op":
                errs.append(f"{op}: unknown op but harness printed `{l}`")
    if not errs:
        # trailing monitor lines
        while pos[0] < len(P):
            if P[pos[0]].startswith("P MONITOR"):
                errs.append("invariant monitor on the C slots: " + P[pos[0]])
            elif P[pos[0]].startswith("H "):
                errs.append("harness assertion: " + P[pos[0]])
            pos[0] += 1
    return errs


def _nullout_oracle(op, tk, t, tab, stale, expect):
    """put / create / remove with their optional out-parameters NULL: same map semantics, same destructor rules"""
    o = tk[0]
    i = _ident(tk[2])
    old = tab.d.get(i)
    stale(t)
    if o == "putn":
        k, v = tk[2], tk[3]
        log = []
        if old is not None:
            if old[0] != k and tab.dk:
                log.append("k:" + old[0])
            if tab.dv:
                log.append("v:" + old[1])
        tab.d[i] = (k, v)
        expect("P putn OK", op) and expect(_dline(log), op) and expect(_contents_line(t, tab), op)
    elif o == "createn":
        if old is None:
            tab.d[i] = (tk[2], "vnull")
        kk, vv = tab.d[i]
        cr = str(int(old is None)) if tk[3] == "c" else "?"
        el = f"{kk}={vv}" if tk[3] == "e" else "-"
        expect(f"P createn OK created={cr} {el}", op) and expect(_contents_line(t, tab), op)
    else:
        e = tab.d.pop(i, None)
        want = tk[3] == "out"
        shown = f"{e[0]}={e[1]}" if (e and want and e != ("knull", "vnull")) else "-"
        log = tab.dlog(*e) if (e and not want) else []
        expect("P removen " + shown, op) and expect(_dline(log), op) and expect(_contents_line(t, tab), op)


def _canon(kind, tok):
    """what the library pair's equality sees of a key token"""
    if kind in ("u64", "ptr"):
        return "%x" % (int(tok, 16) & M64)
    b = bytes.fromhex(tok) if tok != "-" else b""
    if kind == "cstr":
        b = b.split(b"\0")[0]
    return b.hex() or "-"


def _typed_oracle(op, tk, typed, take, expect, errs):
    """tables keyed through the library's own hash/equality pairs, and the pairs themselves, against a plain dict"""
    o = tk[0]
    tline = lambda: f"P TC n={len(typed['d'])} " + (" ".join(sorted(f"{k}={v}" for k, v in typed["d"].items())) or "-")
    if o == "lowertab":
        expect("P lowertab " + bytes(c + 32 if 65 <= c <= 90 else c for c in range(256)).hex(), op)
    elif o == "pair":
        kind = tk[1]
        eq = int(_canon(kind, tk[2]) == _canon(kind, tk[3]))
        l = take()
        m = re.fullmatch(r"P pair eq=(\d) hasheq=(\d)", l or "")
        if not m:
            errs.append(f"{op}: unexpected `{l}`")
        elif int(m.group(1)) != eq:
            errs.append(f"{op}: the library's equality callback for `{kind}` keys answers {m.group(1)}, the keys are "
                        f"{'equal' if eq else 'different'}")
        elif eq and m.group(2) != "1":
            errs.append(f"{op}: equal `{kind}` keys hash differently")
    elif o == "tinit":
        if typed["kind"] is not None:
            expect("P tinit refused", op)
        else:
            typed["kind"], typed["d"] = tk[1], {}
            expect("P tinit OK", op) and expect(tline(), op)
    elif typed["kind"] is None:
        expect("P nil", op)
    elif o == "tput":
        k = _canon(typed["kind"], tk[1])
        created = int(k not in typed["d"])
        typed["d"][k] = tk[2]
        expect(f"P tput created={created}", op) and expect(tline(), op)
    elif o == "tfind":
        k = _canon(typed["kind"], tk[1])
        expect("P tfind " + (f"{k}={typed['d'][k]}" if k in typed["d"] else "none"), op)
    elif o == "trem":
        k = _canon(typed["kind"], tk[1])
        present = int(typed["d"].pop(k, None) is not None)
        expect(f"P trem present={present}", op) and expect(tline(), op)
    elif o == "tclean":
        typed["kind"], typed["d"] = None, {}
        expect("P tclean", op)


def _iter_advance(take, errs, op, it, tab):
    """begin/next: the element shown must be in the table and not shown before by this iterator; `done` only
    when everything present at begin (and not deleted through the iterator) was shown"""
    l = take()
    if l == "P iter done":
        left = it["remaining"] & set(tab.d.keys())
        if left:
            errs.append(f"{op}: iteration finished without visiting {sorted(map(str, left))}")
        it["status"], it["cur"] = "done", None
        return
    m = re.fullmatch(r"P iter ready (\S+)=(\S+)", l or "")
    if not m:
        errs.append(f"{op}: unexpected `{l}`")
        return
    i = _ident(m.group(1))
    if tab.d.get(i) != (m.group(1), m.group(2)):
        errs.append(f"{op}: iterator shows {m.group(1)}={m.group(2)} which is not in the table")
    elif i not in it["remaining"]:
        errs.append(f"{op}: iterator shows {m.group(1)} a second time")
    it["remaining"].discard(i)
    it["status"], it["cur"] = "ready", i


# ---------------------------------------------------------------- bookkeeping
def nontrivial(case):
    if case.tags.get("exhaustive") or case.tags.get("kind"):
        return True
    ops = case.ops
    puts = sum(1 for o in ops if o.startswith("put "))
    rem = sum(1 for o in ops if o.startswith(("remove ", "remel ")))
    itd = sum(1 for o in ops if o.startswith("iter_delete") or (o.startswith("foreach") and ":3" in o))
    return puts >= 3 and (rem >= 1 or itd >= 1)


def distribution(cases, c_out):
    d = {}
    grow = wrap = longrun = 0
    for i, c in enumerate(cases):
        for o in c.ops:
            k = o.split()[0]
            if k != "hash":
                d[k] = d.get(k, 0) + 1
        m = c.tags.get("mode")
        if m:
            d["mode:" + m] = d.get("mode:" + m, 0) + 1
        sizes = set()
        for l in c_out.get(i, []):
            if l.startswith("W S "):
                mm = re.match(r"W S \S+ size=(\d+)", l)
                if not mm:
                    continue
                sizes.add(int(mm.group(1)))
                cells = l.split()[7:]
                if cells and cells[0] != "-":
                    sz = int(mm.group(1))
                    for cell in cells:
                        try:
                            idx, hx = cell.split(":")[0:2]
                            disp = (int(idx) - int(hx, 16)) % sz
                        except ValueError:      # line torn by a sanitizer report
                            continue
                        if disp > int(idx):
                            wrap += 1
                        if disp >= 3:
                            longrun += 1
        if len(sizes) > 1:
            grow += 1
    d["cases_with_growth"] = grow
    d["slot_observations_displaced_across_wraparound"] = wrap
    d["slot_observations_displacement_ge_3"] = longrun
    d["exhaustive_cases"] = sum(1 for c in cases if c.tags.get("exhaustive"))
    return d


MANIFEST = dict(
    category="proof",
    design_ref="5.2",
    text=("Lean 4 theorems about an executable transcription of source/hash_table.c, for ALL user hash functions, all op "
          "sequences, all initial sizes and destructor sets, all fully proved: the structural invariant (power-of-two size, mask, "
          "entry_count = occupied slots <= max_load < size, no duplicate keys, stored hash = hash of key) and the Robin Hood "
          "condition are established by init and preserved by put / create / find / remove (with and without out-parameter) / "
          "remove_element / clear / iterator delete / foreach with any callback; s_emplace_item, s_remove_entry (backward "
          "shift), s_expand_table individually preserve the Robin Hood condition and the multiset of entries; every fuel-bounded "
          "loop terminates inside its fuel; find is sound and complete (wrap-around included); every result (was_created, "
          "was_present, returned elements, entry count, destructor log) of every program equals the reference map's and the "
          "contents stay a permutation of it (errors: only OVERFLOW from growth, table unchanged); explicit iterator programs "
          "begin;(decide; delete(destroy?); next)* with arbitrary history-dependent decisions and foreach with any callback "
          "(stop / error included): no element shown twice, every element shown exactly once if the pass runs to done, final "
          "contents = initial minus deleted, destructors exactly as requested (limit adjustment and slot step-back of "
          "aws_hash_iter_delete); aws_hash_table_eq as written decides equality of the two key->value maps under "
          "s_safe_eq_check(value_eq); swap / move are state exchanges without destructor calls; "
          "aws_array_eq_ignore_case a b -> equal aws_hash_array_ignore_case over the s_tolower_table regenerated from byte_buf.c "
          "(all 256 entries by decide); the lookup3 content hashes (byte-wise hashlittle2 with constants generated from "
          "lookup3.inl, reproducing lookup3's published self-test values) are functions of the bytes only, and the 32-bit-load "
          "and 16-bit-load paths of hashlittle2 (block adds, tail switch with its masks and shifts extracted from lookup3.inl "
          "into term tables on every run) compute that byte-wise function for every key, every address and every content of "
          "the memory behind the key - in both build configurations of lookup3.inl (default masked over-read tail, and the "
          "byte-exact tail compiled under -DVALGRIND; both extracted, both proved, both run: source/hash_table.c is compiled "
          "a second time with -DVALGRIND into the same harness, ops hl2v/hl2sv/hptrv/hcombv). Tie to /repo: "
          "correspondence run of the compiled model against hash_table.c rebuilt from the working tree (ASan/UBSan): results, "
          "sorted contents, destructor multisets (P), full slot dump through private/hash_table_impl.h and iterator slot/limit "
          "(W), an in-harness monitor of the invariant on the C slots, a content-hash consistency monitor, and a Python "
          "reference-dict oracle incl. visit-exactly-once for iterator programs; exhaustive put/remove/iterate programs on a "
          "4-slot table."),
    note=("Trusted: Lean kernel; hand-written models Model/HashTable.lean, Model/Lookup3.lean (tied by correspondence only); "
          "generated constants (tolower table, FNV constants, load-factor literal, lookup3 rotation amounts / basis / initial "
          "values) by props/c02_gen.py; harness. Keys are modelled as (identity, pointer) with the user hash a function of "
          "identity (hash/equality consistency is an API precondition)."),
    technique="Lean 4 invariant + refinement proofs over an executable model of hash_table.c; model/implementation differential run with slot-level white-box stream, in-harness invariant monitor and a reference-map oracle",
)
