"""C13 — URI parsing, building and percent-coding are mutually consistent (source/uri.c)."""
import itertools, os, re, urllib.parse
from lib.core import Case
from lib import cbuild

ID = "C13"
LEAN_MODULES = ["AwsVerif.Props.C13"]
COMPONENT = "uri"
# a parse result on a string the property does not constrain (outside Comp.ok) that differs from
# the model is conformance drift; concrete violations are decided by the direct oracle below
P_DIFF_CONCRETE = False
HARNESS = dict(
    name="uri", flavour="asan",
    # uri.c compiled from the working tree; memchr(NULL, c, 0) on an empty uri_str (uri.c:278,307)
    # is reported by UBSan's nonnull-attribute check only, which is switched off for this file
    extra_srcs=[(os.path.join(cbuild.REPO, "source", "uri.c"),
                 ["-fno-sanitize=nonnull-attribute", "-DUSE_SIMD_ENCODING"], "uri_src")],
)


def regen(ctx):
    """generated layer: safe-character tests, s_to_uppercase_hex, scheme-delimiter and port-bound tests, the builder's size
    estimate, PORT_BUFFER_SIZE and the reservation calls of the coders, cut out of /repo's current uri.c (gen/uri_gen.py);
    aws_isalnum comes from the generated AwsVerif.Gen.ByteBufFns (gen/bytebuf_fns.py, shared with C01)"""
    from lib import core
    from gen import uri_gen, bytebuf_fns, bytebuf_tables, cfun
    try:
        tables = bytebuf_tables.generate(cbuild.REPO)
    except (bytebuf_tables.TableError, OSError) as e:
        raise core.GenError(str(e))
    core.write_if_changed(os.path.join(core.LEAN, "AwsVerif", "Gen", "ByteBufTables.lean"), tables)
    try:
        fns, _ = bytebuf_fns.generate(cbuild.REPO, cbuild.config_include())
        txt, _ = uri_gen.generate(cbuild.REPO, cbuild.config_include())
    except cfun.GenError as e:
        raise core.GenError(str(e))
    core.write_if_changed(os.path.join(core.LEAN, "AwsVerif", "Gen", "ByteBufFns.lean"), fns)
    core.write_if_changed(os.path.join(core.LEAN, "AwsVerif", "Gen", "UriFns.lean"), txt)


TRUSTED = ["translator gen/uri_gen.py + gen/cfun.py (clang-14 AST -> Lean) for the generated layer AwsVerif/Gen/UriFns.lean",
           "hand model lean/AwsVerif/Model/Uri.lean (tied by this correspondence run only)",
           "python reference coders (urllib.parse.quote / unquote_to_bytes) and component oracle in props/c13.py"]
ASSUMPTIONS = ["allocation does not fail (aws_mem_acquire aborts on NULL)",
               "component tuples satisfy Comp.ok (Proofs/C13/Spec.lean): scheme without ':/?#@[]', userinfo without '@/?', host without "
               "'/?:@[]' or bracketed text without ']/?@', port < 2^32, path empty or '/'-led without '?', query arbitrary, text non-empty"]
RULE = ("cases of <=8 ops: parse of strings assembled from component tuples (full product of small value sets + random), "
        "raw strings, builder options, coders on byte strings with all 256 values and starting lengths 0..40, query strings "
        "(exhaustive over {a,=,&} to length 6 + random); non-trivial = at least one op whose oracle clause was evaluated")
NOT_PROVED = []   # all six design theorems (and c13_views_inside_all) are proved in full
TIMEOUT = 300

UNRESERVED = b"ABCDEFGHIJKLMNOPQRSTUVWXYZabcdefghijklmnopqrstuvwxyz0123456789-_.~"
U32 = 2 ** 32 - 1


def hx(b):
    return b.hex() if b else "-"


def unhx(s):
    return b"" if s in ("-", "") else bytes.fromhex(s)


# ---------------------------------------------------------------- reference (independent of the model)
def ref_enc(bs, extra=b""):
    safe = UNRESERVED + extra
    out = b"".join(bytes([b]) if b in safe else b"%%%02X" % b for b in bs)
    # the same thing said by the standard library
    assert out == urllib.parse.quote(bs, safe=extra.decode()).encode()
    return out


CANON_PATH = re.compile(rb"\A(?:[A-Za-z0-9\-_.~/]|%[0-9A-F]{2})*\Z")
CANON_PARAM = re.compile(rb"\A(?:[A-Za-z0-9\-_.~]|%[0-9A-F]{2})*\Z")


def ref_dec(bs):
    """None when an escape is truncated or not two hex digits"""
    if re.search(rb"%(?![0-9A-Fa-f]{2})", bs):
        return None
    return urllib.parse.unquote_to_bytes(bs)


def ref_pairs(q):
    out = []
    for seg in q.split(b"&"):
        if seg:
            k, _, v = seg.partition(b"=")
            out.append((k, v))
    return out


class Comp:
    """scheme/userinfo/port/query: None = absent; host without brackets when v6"""
    def __init__(self, scheme, userinfo, host, v6, port, path, query):
        self.scheme, self.userinfo, self.host, self.v6, self.port, self.path, self.query = scheme, userinfo, host, v6, port, path, query

    def authority(self):
        a = b""
        if self.userinfo is not None:
            a += self.userinfo + b"@"
        a += (b"[" + self.host + b"]") if self.v6 else self.host
        if self.port is not None:
            a += b":" + str(self.port).encode()
        return a

    def rest(self):
        return self.authority() + self.path + (b"?" + self.query if self.query is not None else b"")

    def text(self):
        return (self.scheme + b"://" if self.scheme is not None else b"") + self.rest()

    def ok(self):
        """mirror of Comp.ok in lean/AwsVerif/Proofs/C13/Spec.lean (port range handled by the caller)"""
        def none_of(bs, bad):
            return not any(c in bad for c in bs)
        if self.scheme is not None and not none_of(self.scheme, b":/?#@[]"):
            return False
        if self.userinfo is not None and not none_of(self.userinfo, b"@/?"):
            return False
        if self.v6:
            if not none_of(self.host, b"]/?@"):
                return False
        elif not none_of(self.host, b"/?:@[]"):
            return False
        if self.path and (self.path[:1] != b"/" or b"?" in self.path):
            return False
        # the query is arbitrary (also with an empty path), and nothing extra is asked of a tuple without
        # scheme (Lean: c13_schemeless_never_scheme_like)
        return bool(self.rest())

    def annot(self):
        o = lambda x: "~" if x is None else hx(x)
        return (f"# sc={o(self.scheme)} ui={o(self.userinfo)} host={hx(self.host)} v6={int(self.v6)} "
                f"port={'~' if self.port is None else self.port} path={hx(self.path)} q={o(self.query)}")


def comp_from_annot(toks):
    d = dict(t.split("=", 1) for t in toks)
    o = lambda s: None if s == "~" else unhx(s)
    return Comp(o(d["sc"]), o(d["ui"]), unhx(d["host"]), d["v6"] == "1", None if d["port"] == "~" else int(d["port"]),
                unhx(d["path"]), o(d["q"]))


def expected_fields(c):
    ui = c.userinfo
    user = pw = b""
    if ui is not None:
        user, _, pw = ui.partition(b":")
    return {
        "scheme": c.scheme or b"", "authority": c.authority(), "userinfo": ui or b"", "user": user, "password": pw,
        "host": c.host, "path": c.path, "query": c.query or b"",
        "path_and_query": c.path + (b"?" + c.query if c.query is not None else b""),
        "port": c.port or 0,
    }


# ---------------------------------------------------------------- generators
SCHEMES = [None, b"http", b"", b"a+b-c.1"]
USERINFOS = [None, b"", b"user", b"user:pw", b"u:", b":p", b"a:b:c"]
HOSTS = [(b"", False), (b"example.com", False), (b"a", False), (b"::1", True), (b"", True), (b"fe80::1%25en0", True), (b"1:2", True)]
PORTS = [None, 0, 1, 80, 65535, U32, U32 + 1, 10 ** 19 + 7, 2 ** 64, 4294967306]
PATHS = [b"", b"/", b"/a/b", b"/a:/b", b"/a:b/@c", b"/%20;x"]
QUERIES = [None, b"", b"a=1", b"a=1&b=2&&c", b"x=/y", b"u=http://z/", b"=&=", b":/", b"/"]
ALPHA = b"abcXYZ019-_.~!$'()*+,;=%: /?#@[]&"


def rbytes(rng, n, alphabet=None):
    if alphabet is None:
        return bytes(rng.randrange(256) for _ in range(n))
    return bytes(rng.choice(alphabet) for _ in range(n))


def rand_comp(rng):
    def tok(alpha, lo=0, hi=8):
        return rbytes(rng, rng.randint(lo, hi), alpha)
    plain = b"abcXYZ019-_.~!$'()*+,;=%"
    sc = None if rng.random() < 0.3 else tok(b"abchtps+-.1", 0, 6)
    ui = None if rng.random() < 0.5 else tok(plain + b":::[]#", 0, 8)
    if rng.random() < 0.3:
        host, v6 = tok(b"0123456789abcdef:.%[", 0, 10), True
    else:
        host, v6 = tok(plain + b"#", 0, 10), False
    r = rng.random()
    port = None if r < 0.4 else rng.choice(PORTS[1:]) if r < 0.7 else rng.randrange(0, 2 ** 33)
    path = b"" if rng.random() < 0.3 else b"/" + tok(plain + b":/@[]#&", 0, 10)
    q = None if rng.random() < 0.4 else tok(plain + b"&&==:/?#@", 0, 12)
    if rng.random() < 0.08:   # a deliberately not-ok tuple
        which = rng.randrange(4)
        if which == 0 and sc is not None:
            sc += b":"
        elif which == 1:
            host += b"@"
        elif which == 2:
            path = b"x" + path
        else:
            ui = (ui or b"") + b"/"
    return Comp(sc, ui, host, v6, port, path, q)


def long_comps(rng, n):
    """texts around and beyond the sizes where copy loops change gear (32, 64, 128, 256, 1024 bytes)"""
    plain = b"abcXYZ019-_.~!$'()*+,;=%"
    out = []
    for k in range(n):
        target = rng.choice([31, 32, 33, 63, 64, 65, 66, 127, 128, 129, 255, 256, 257, 1023, 1025]) if k % 2 else rng.randint(60, 1500)
        sc = rng.choice([None, b"https"])
        ui = rng.choice([None, b"user:" + rbytes(rng, rng.randint(0, 40), plain)])
        host, v6 = rng.choice([(rbytes(rng, rng.randint(1, 60), plain), False), (b"fe80::" + rbytes(rng, rng.randint(0, 30), b"0123456789abcdef:"), True)])
        port = rng.choice([None, 443, U32])
        c = Comp(sc, ui, host, v6, port, b"", None)
        rest = max(0, target - len(c.text()))
        pl = rng.randint(0, rest)
        c.path = b"/" + rbytes(rng, pl, plain + b":/@") if pl or rng.random() < 0.5 else b""
        ql = max(0, target - len(c.text()) - 1)
        c.query = rbytes(rng, ql, plain + b"&&==:/?") if ql or rng.random() < 0.5 else None
        out.append(c)
    return out


def parse_op(c):
    return f"parse {hx(c.text())} {c.annot()}"


def gen_comp_cases(rng, tier):
    comps = []
    # every combination of a small value set per component
    for sc, ui, (h, v6), po, pa, q in itertools.product(SCHEMES[:3], USERINFOS[:4] + [USERINFOS[6]], HOSTS[:5], PORTS[:8], PATHS[:3], QUERIES[:5]):
        comps.append(Comp(sc, ui, h, v6, po, pa, q))
    rng.shuffle(comps)
    # shapes older revisions misparsed, in full in every tier: empty path + '/' in the query, no scheme with ":/" in
    # path or query, "://" in the query with a scheme present
    shapes = [Comp(sc, ui, h, v6, po, pa, q) for sc, ui, (h, v6), po, pa, q in itertools.product(
        [None, b"s"], [None, b"u:p"], [(b"h", False), (b"::1", True), (b"", False)], [None, 8], [b"", b"/a:/b", b"/"],
        [None, b"a=/b", b"u=x://y", b":/", b"/", b"x://"])]
    if tier == "quick":
        # the presence/absence skeleton in full, the rest sampled
        skel = [Comp(sc, ui, h, v6, po, pa, q) for sc, ui, (h, v6), po, pa, q in itertools.product(
            [None, b"http"], [None, b"user:pw"], [(b"", False), (b"a", False), (b"::1", True)], [None, 80], [b"", b"/a"], [None, b"", b"a=1"])]
        comps = skel + shapes + comps[:4000]
    if tier != "quick":
        comps = shapes + comps
    comps += [Comp(rng.choice(SCHEMES), rng.choice(USERINFOS), *rng.choice(HOSTS), rng.choice(PORTS), rng.choice(PATHS), rng.choice(QUERIES))
              for _ in range(1000 if tier == "quick" else 20000)]
    comps += [rand_comp(rng) for _ in range(5000 if tier == "quick" else 200000)]
    comps += long_comps(rng, 150 if tier == "quick" else 3000)
    cases = []
    for i in range(0, len(comps), 8):
        ops = [parse_op(c) for c in comps[i:i + 8]]
        # the query iterator through the URI object on some of them
        c = comps[i]
        if c.query is not None:
            ops.append(f"uq_iter {hx(c.text())} {c.annot()}")
            ops.append(f"uq_list {hx(c.text())} {c.annot()}")
        cases.append(Case(ops, {"stream": "components"}))
    return cases


RAW_SEEDS = [b"", b":", b"://", b"a:", b"a:/", b"a://", b"a://b", b"/", b"?", b"a?b/c", b"@", b"a@", b"@a", b"a@b@c", b"[", b"[]", b"[::1", b"[::1]x:5",
             b"h:", b"h:x", b"h:1x", b"h:-1", b"h:+1", b"h: 1", b"h:00000000000000000000080", b"h:18446744073709551615", b"h:18446744073709551616",
             b"h:4294967295", b"h:4294967296", b"h:4294967295/", b"u:p@h:1/p?q", b"h/a:/b", b"h?x=http://z", b"http://h?a=/b", b"a://b://c", b"a:b@c:/d",
             b"http://[::1]", b"http://[::1]:", b"http://[::1]:8", b"http://[]:8", b"http://[:8", b"http://u@[::1]:8/p?q", b"http:///p", b"http://?q", b"http://"]


def gen_raw_cases(rng, tier):
    strs = list(RAW_SEEDS)
    alpha = b"ab1:/?#@[]&=%."
    for _ in range(5000 if tier == "quick" else 200000):
        r = rng.random()
        if r < 0.7:
            s = rbytes(rng, rng.randint(0, 14), alpha)
        elif r < 0.85:
            s = rbytes(rng, rng.randint(0, 20))
        else:
            s = bytearray(rng.choice(RAW_SEEDS))
            for _ in range(rng.randint(1, 3)):
                if s and rng.random() < 0.5:
                    s[rng.randrange(len(s))] = rng.choice(alpha)
                else:
                    s.insert(rng.randint(0, len(s)), rng.choice(alpha))
            s = bytes(s)
        strs.append(s)
    if tier == "thorough":
        # small-scope exhaustive: all strings over the delimiter alphabet up to length 6
        for n in range(0, 7):
            for t in itertools.product(b"a:/?@[]1", repeat=n):
                strs.append(bytes(t))
    else:
        for n in range(0, 5):
            for t in itertools.product(b"a:/?@[", repeat=n):
                strs.append(bytes(t))
    return [Case([f"parse {hx(s)}" for s in strs[i:i + 8]], {"stream": "raw"}) for i in range(0, len(strs), 8)]


def build_op(scheme, host, port, path, q=None, params=None):
    op = f"build scheme={hx(scheme)} host={hx(host)} port={port} path={hx(path)}"
    if q is not None:
        op += f" q={hx(q)}"
    if params is not None:
        op += " params=" + (",".join(f"{k.hex()}:{v.hex()}" for k, v in params) if params else "-")
    return op


def gen_build_cases(rng, tier):
    ops = []
    bschemes = [b"", b"http", b"s3"]
    bhosts = [b"", b"example.com", b"[::1]", b"[]", b"a"]
    bports = [0, 1, 80, 65535, U32, U32 - 1, 1000000000, 999999999]
    bpaths = [b"", b"/", b"/a/b", b"/a:/b"]
    bqs = [dict(), dict(q=b""), dict(q=b"a=1&b"), dict(q=b"x=/y"), dict(q=b"u=x://y"), dict(params=[(b"u", b"x://y"), (b"/", b":/")]), dict(params=[]), dict(params=[(b"a", b"1")]),
           dict(params=[(b"a", b"1"), (b"", b""), (b"k", b"")]), dict(q=b"a", params=[]), dict(q=b"a", params=[(b"k", b"v")]), dict(q=b"", params=[(b"k", b"v")])]
    prod = list(itertools.product(bschemes, bhosts, bports, bpaths, bqs))
    rng.shuffle(prod)
    for sc, h, po, pa, qd in prod[:(2000 if tier == "quick" else len(prod))]:
        ops.append(build_op(sc, h, po, pa, **qd))
    plain = b"abcXYZ019-_.~!$'()*+,;=%"
    for _ in range(2500 if tier == "quick" else 100000):
        sc = rbytes(rng, rng.choice([0, 0, 1, 4, 5]), b"abchtps+-.1")
        h = rng.choice([rbytes(rng, rng.randint(0, 8), plain), b"[" + rbytes(rng, rng.randint(0, 6), b"0123abcdef:") + b"]", rbytes(rng, rng.randint(0, 6), plain + b"@:/?[]")])
        po = rng.choice(bports + [rng.randrange(0, 2 ** 32), rng.randrange(0, 70000)])
        pa = rng.choice([b"", b"/" + rbytes(rng, rng.randint(0, 8), plain + b"/:@"), rbytes(rng, rng.randint(0, 5), plain + b"/?")])
        r = rng.random()
        if r < 0.3:
            qd = dict()
        elif r < 0.6:
            qd = dict(q=rbytes(rng, rng.randint(0, 10), plain + b"&&==/:?"))
        elif r < 0.95:
            qd = dict(params=[(rbytes(rng, rng.randint(0, 4), plain), rbytes(rng, rng.randint(0, 4), plain + b"=&")) for _ in range(rng.randint(0, 4))])
        else:
            qd = dict(q=rbytes(rng, rng.randint(0, 3), plain), params=[(b"k", b"v")] * rng.randint(0, 2))
        ops.append(build_op(sc, h, po, pa, **qd))
    for c in long_comps(rng, 60 if tier == "quick" else 1500):
        if c.userinfo is None:
            h = (b"[" + c.host + b"]") if c.v6 else c.host
            if rng.random() < 0.5 or not c.query or c.query.count(b"&") > 50:
                ops.append(build_op(c.scheme or b"", h, c.port or 0, c.path, q=c.query))
            else:
                ops.append(build_op(c.scheme or b"", h, c.port or 0, c.path, params=[tuple(seg.partition(b"=")[::2]) for seg in c.query.split(b"&")]))
    return [Case(ops[i:i + 8], {"stream": "build"}) for i in range(0, len(ops), 8)]


def gen_coder_cases(rng, tier):
    cases = []
    allb = bytes(range(256))
    # every byte value alone and all together, for both encoders, and the decoder on the reference encoding
    ops = []
    for b in range(256):
        x = bytes([b])
        ops += [f"enc_path {hx(x)}", f"enc_param {hx(x)}", f"dec {hx(ref_enc(x, b'/'))}", f"dec {hx(ref_enc(x))}", f"dec {hx(x)}"]
    ops += [f"enc_path {hx(allb)}", f"enc_param {hx(allb)}", f"dec {hx(ref_enc(allb, b'/'))}", f"dec {hx(ref_enc(allb))}", "enc_path -", "enc_param -", "dec -"]
    # every two-character escape body around the hex alphabet boundaries (and lower case)
    edge = b"/0129:;@AFG`afg"
    for a in edge:
        for b in edge:
            ops.append(f"dec {hx(bytes([37, a, b]))}")
        ops.append(f"dec {hx(bytes([37, a]))}")
    ops += [f"dec {hx(b'%')}", f"dec {hx(b'a%')}", f"dec {hx(b'%41%')}", f"dec {hx(b'%%41')}", f"dec {hx(b'%4%41')}"]
    # all output-buffer starting lengths (exact-fit capacity, spare capacity, already large enough)
    for pl in range(0, 41):
        x = rbytes(rng, rng.randint(0, 6), b"a /~%\xff-")
        ops += [f"enc_path {hx(x)} {pl}", f"enc_param {hx(x)} {pl} {pl + rng.randint(0, 3 * len(x) + 2)}", f"dec {hx(ref_enc(x))} {pl}",
                f"dec {hx(ref_enc(x, b'/'))} {pl} {pl + rng.randint(0, 20)}"]
    for _ in range(3000 if tier == "quick" else 120000):
        r = rng.random()
        n = rng.choice([0, 1, 2, 3, 5, 8, 13, 40]) if r < 0.8 else rng.randint(0, 300)
        x = rbytes(rng, n) if rng.random() < 0.6 else rbytes(rng, n, ALPHA)
        pre = "" if rng.random() < 0.5 else f" {rng.randint(0, 40)}" + ("" if rng.random() < 0.5 else f" {rng.randint(0, 200)}")
        k = rng.random()
        if k < 0.3:
            ops += [f"enc_path {hx(x)}{pre}", f"dec {hx(ref_enc(x, b'/'))}"]
        elif k < 0.6:
            ops += [f"enc_param {hx(x)}{pre}", f"dec {hx(ref_enc(x))}"]
        else:
            # arbitrary decoder input: escapes with upper/lower/bad hex, truncated escapes
            y = rbytes(rng, n % 16, b"%%%aAfFgG09:/ x")
            ops.append(f"dec {hx(y)}{pre}")
    return [Case(ops[i:i + 8], {"stream": "coders"}) for i in range(0, len(ops), 8)]


def _lists_query(arg):
    """the query string an argument of q_lists contributes (None: nothing is appended)"""
    if arg == "null":
        return b""
    if arg.startswith("u"):
        u = unhx(arg[1:])
        if not u.startswith(b"h/p?"):
            return None
        return u[4:]
    return unhx(arg)


def gen_query_cases(rng, tier):
    qs = []
    for n in range(0, 8 if tier == "quick" else 10):
        for t in itertools.product(b"a=&", repeat=n):
            qs.append(bytes(t))
    for _ in range(1500 if tier == "quick" else 60000):
        qs.append(rbytes(rng, rng.randint(0, 24), b"abc=&&%/?:"))
    for _ in range(200 if tier == "quick" else 5000):
        qs.append(rbytes(rng, rng.randint(0, 12)))
    for _ in range(60 if tier == "quick" else 1500):
        qs.append(rbytes(rng, rng.choice([63, 64, 65, 127, 129, 255, 257, rng.randint(30, 1200)]), b"abcdefgh=&&%/?:"))
    cases = [Case(["q_iter null", "q_list null"], {"stream": "query"})]
    # the list forms on an output list that already holds entries: a second call on the same list, pre-seeded lists,
    # static lists (exact fit, one short, roomy) and dynamic lists past two capacity growths; expected = previous
    # contents ++ pairs of each query
    pool = [b"a=1&b=2&keyonly&=v", b"x=1&y=2&z=3", b"k", b"", b"&&", b"p=1&q=2&r=3&s=4&t=5&u=6&v=7&w=8&x=9", b"a=/b&u=x://y"]
    lops = []
    for _ in range(250 if tier == "quick" else 6000):
        args = []
        for _ in range(rng.randint(1, 4)):
            q = rng.choice(pool) if rng.random() < 0.6 else rbytes(rng, rng.randint(0, 14), b"ab=&&")
            r = rng.random()
            if r < 0.25:
                args.append("u" + hx(b"h/p?" + q))
            elif r < 0.3:
                args.append("null")
            elif r < 0.35:
                args.append("u" + hx(rng.choice([b"h", b"", b"h:x"])))   # no query / unparsable
            else:
                args.append(hx(q))
        if rng.random() < 0.3:
            args.append(args[0])          # the same query again
        args = args[:8]
        nseed = rng.choice([0, 0, 1, 3, 9])
        total = nseed + sum(len(ref_pairs(_lists_query(a) or b"")) for a in args)
        r = rng.random()
        if r < 0.55:
            mode = "d" + str(rng.choice([1, 1, 2, 4, 16]))
        else:
            mode = "s" + str(max(nseed, 1, rng.choice([total, total - 1, total + 1, total + 5, total // 2])))
        lops.append(f"q_lists {mode} {nseed} " + " ".join(args))
    cases += [Case(lops[i:i + 4], {"stream": "query"}) for i in range(0, len(lops), 4)]
    for i in range(0, len(qs), 4):
        ops = []
        for q in qs[i:i + 4]:
            ops += [f"q_iter {hx(q)}", f"q_list {hx(q)}"]
        q = qs[i]
        if b"#" not in q:
            u = b"h/p?" + q
            ops += [f"uq_iter {hx(u)} # sc=~ ui=~ host=68 v6=0 port=~ path=2f70 q={hx(q)}",
                    f"uq_list {hx(u)} # sc=~ ui=~ host=68 v6=0 port=~ path=2f70 q={hx(q)}"]
        cases.append(Case(ops, {"stream": "query"}))
    return cases


def gen_cases(rng, tier):
    return (gen_comp_cases(rng, tier) + gen_raw_cases(rng, tier) + gen_build_cases(rng, tier) +
            gen_coder_cases(rng, tier) + gen_query_cases(rng, tier))


# ---------------------------------------------------------------- direct oracle (implementation output only)
COMPONENTS = ["scheme", "authority", "userinfo", "user", "password", "host", "path", "query", "path_and_query"]
_kv = re.compile(r"(\w+)=(\S+)")


def fields(line):
    return dict(_kv.findall(line))


class Lines:
    def __init__(self, lines):
        self.l, self.i = lines, 0

    def next(self, prefix=None):
        if self.i >= len(self.l):
            raise OracleStop("output ends early" + (f" (expected `{prefix}…`)" if prefix else ""))
        x = self.l[self.i]
        self.i += 1
        if prefix and not x.startswith(prefix):
            raise OracleStop(f"unexpected output line `{x[:200]}` (expected `{prefix}…`)")
        return x


class OracleStop(Exception):
    pass


def read_uri(L, errs, op):
    """reads the 18 component lines + port; returns {name: bytes|None(not inside)} and checks the view clause"""
    got = {}
    for name in COMPONENTS:
        f = fields(L.next(f"P {name} "))
        L.next(f"W {name} ")
        if f.get("inside") != "1":
            errs.append(f"{op[:80]}: view `{name}` does not lie inside the URI's own text")
            got[name] = None
        else:
            got[name] = unhx(f["bytes"])
            if len(got[name]) != int(f["len"]):
                errs.append(f"{op[:80]}: view `{name}` length {f['len']} but {len(got[name])} bytes")
    got["port"] = int(fields(L.next("P port="))["port"])
    return got


def check_components(got, c, errs, op, what):
    exp = expected_fields(c)
    for k, v in exp.items():
        if got.get(k) != v:
            g = got.get(k)
            errs.append(f"{what} of {c.text()!r}: component `{k}` is {g!r}, assembled from {v!r}")


def read_pairs(L, tag, n=None):
    out = []
    while True:
        if n is not None and len(out) == n:
            break
        x = L.next()
        if x.startswith(f"P {tag} "):
            f = fields(x)
            L.next(f"W {tag} ")
            out.append((None, None) if f.get("inside") != "1" else (unhx(f["key"]), unhx(f["value"])))
        elif n is None and x.startswith("P pairs n="):
            cnt = int(fields(x)["n"])
            if cnt != len(out):
                raise OracleStop("pair count line disagrees with pairs printed")
            break
        else:
            raise OracleStop(f"unexpected output line `{x[:200]}`")
    return out


def check_pairs(got, q, errs, op, what):
    exp = ref_pairs(q)
    if any(k is None for k, _ in got):
        errs.append(f"{what} of query {q!r}: a key/value view lies outside the query string")
    elif got != exp:
        errs.append(f"{what} of query {q!r}: yields {got!r}, the non-empty '&'-separated pairs split at the first '=' are {exp!r}")


def oracle(case, lines):
    errs = []
    for l in lines:
        if l.startswith("P MONITOR") or "runtime error" in l or l.startswith("H harness-assert"):
            return [f"harness monitor: {l[:300]}"]
    L = Lines(lines)
    last_iter = {}
    try:
        for op in case.ops:
            t = op.split()
            annot = None
            if "#" in t:
                k = t.index("#")
                annot, t = comp_from_annot(t[k + 1:]), t[:k]
            if t[0] == "parse":
                rc = fields(L.next("P parse "))["rc"]
                comp_ok = annot is not None and annot.ok()
                if rc == "OK":
                    f = fields(L.next("P uri_str "))
                    if f.get("same") != "1":
                        errs.append(f"{op[:80]}: uri_str is not the URI's own copy of the input")
                    got = read_uri(L, errs, op)
                    if comp_ok:
                        if annot.port is not None and annot.port > U32:
                            errs.append(f"parse of {annot.text()!r}: port {annot.port} > UINT32_MAX accepted (port={got['port']})")
                        else:
                            check_components(got, annot, errs, op, "parse")
                else:
                    if fields(L.next("P zeroed="))["zeroed"] != "1":
                        errs.append(f"{op[:80]}: failed parse left a non-zeroed aws_uri")
                    if rc != "AWS_ERROR_MALFORMED_INPUT_STRING":
                        errs.append(f"{op[:80]}: unexpected error {rc}")
                    if comp_ok and (annot.port is None or annot.port <= U32):
                        errs.append(f"parse of {annot.text()!r} (assembled from valid components) refused: {rc}")
            elif t[0] == "build":
                d = dict(x.split("=", 1) for x in t[1:])
                rc = fields(L.next("P build "))["rc"]
                sc, host, port, path = unhx(d["scheme"]), unhx(d["host"]), int(d["port"]), unhx(d["path"])
                q = unhx(d["q"]) if "q" in d else None
                params = None
                if "params" in d:
                    params = [] if d["params"] == "-" else [tuple(bytes.fromhex(x) for x in kv.split(":")) for kv in d["params"].split(",")]
                if params is not None:
                    qtext = b"&".join(k + b"=" + v for k, v in params)
                else:
                    qtext = q or b""
                v6 = host[:1] == b"[" and host[-1:] == b"]" and len(host) >= 2
                c = Comp(sc or None, None, host[1:-1] if v6 else host, v6, port or None, path, qtext if qtext else None)
                both = bool(q) and params is not None
                comp_ok = c.ok() and not both
                if rc == "OK":
                    text = unhx(fields(L.next("P uri_str "))["bytes"])
                    L.next("W cap=")
                    got = read_uri(L, errs, op)
                    if params is not None and not qtext and text == c.text() + b"?":
                        # an empty (non-NULL) parameter list: the '?' is appended when the size estimate has room for it
                        c.query = b""
                    if comp_ok:
                        check_components(got, c, errs, op, "builder round trip")
                        if text not in (c.text(), c.text() + b"?"):
                            errs.append(f"builder text {text!r}, components assemble to {c.text()!r}")
                elif comp_ok:
                    errs.append(f"builder refused valid options ({rc}) for {c.text()!r}")
            elif t[0] in ("enc_path", "enc_param"):
                x = unhx(t[1])
                pl = int(t[2]) if len(t) > 2 else 0
                f = fields(L.next("P enc "))
                L.next("W cap=")
                if f["rc"] != "OK":
                    errs.append(f"{op[:80]}: encoder failed: {f['rc']}")
                    continue
                out = unhx(f["out"])
                extra = b"/" if t[0] == "enc_path" else b""
                canon = CANON_PATH if t[0] == "enc_path" else CANON_PARAM
                if not canon.match(out):
                    errs.append(f"{t[0]} of {x!r}: output {out!r} has a byte outside unreserved / %XX upper-case hex" + (" / '/'" if extra else ""))
                if out != ref_enc(x, extra):
                    errs.append(f"{t[0]} of {x!r}: output {out!r}, reference (urllib.parse.quote) {ref_enc(x, extra)!r}")
                if len(out) > 3 * len(x):
                    errs.append(f"{t[0]} of {x!r}: {len(out)} bytes written, reservation is {3 * len(x)}")
                if f["prefix"] != "1" or int(f["len"]) != pl + len(out):
                    errs.append(f"{op[:80]}: existing buffer content damaged or length wrong")
                if ref_dec(out) != x:
                    errs.append(f"{t[0]} of {x!r}: output {out!r} does not decode back")
            elif t[0] == "dec":
                x = unhx(t[1])
                pl = int(t[2]) if len(t) > 2 else 0
                f = fields(L.next("P dec "))
                L.next("W written=")
                if f["prefix"] != "1":
                    errs.append(f"{op[:80]}: existing buffer content damaged")
                exp = ref_dec(x)
                if exp is not None:
                    # every well-formed escape sequence (in particular every encoder output) decodes to its bytes
                    if f["rc"] != "OK":
                        errs.append(f"decode of {x!r} refused: {f['rc']}")
                    elif unhx(f["out"]) != exp or int(f["len"]) != pl + len(exp):
                        errs.append(f"decode of {x!r} gives {unhx(f['out'])!r}, expected {exp!r}")
            elif t[0] == "q_lists":
                f = fields(L.next("P lists "))
                n = int(f["n"])
                got = []
                for _ in range(n):
                    g = fields(L.next("P litem "))
                    got.append((unhx(g["key"]), unhx(g["value"])))
                cap = int(t[1][1:]) if t[1][0] == "s" else None
                exp = [(b"dk%d" % i, b"dv%d" % i) for i in range(int(t[2]))]
                rcs = []
                for a in t[3:]:
                    q = _lists_query(a)
                    if q is None:
                        rcs.append("PARSE" if unhx(a[1:]) in (b"", b"h:x") else "OK")
                        continue
                    rc = "OK"
                    for kv in ref_pairs(q):
                        if cap is not None and len(exp) >= cap:
                            rc = "AWS_ERROR_LIST_EXCEEDS_MAX_SIZE"
                            break
                        exp.append(kv)
                    rcs.append(rc)
                if got != exp:
                    errs.append(f"{op[:120]}: list after the calls is {got!r}; entries already in the list followed by the pairs of each query are {exp!r}")
                elif f["rcs"].split(",") != rcs:
                    errs.append(f"{op[:120]}: return codes {f['rcs']}, expected {','.join(rcs)}")
            elif t[0] in ("q_iter", "q_list", "uq_iter", "uq_list"):
                via = t[0].startswith("uq")
                if via:
                    rc = fields(L.next("P parse "))["rc"]
                    if rc != "OK":
                        if annot is not None and annot.ok() and (annot.port is None or annot.port <= U32):
                            errs.append(f"{op[:80]}: parse refused: {rc}")
                        continue
                    q = annot.query if annot is not None and annot.ok() and (annot.port is None or annot.port <= U32) else None
                else:
                    q = b"" if t[1] == "null" else unhx(t[1])
                if t[0].endswith("iter"):
                    got = read_pairs(L, "pair")
                    what = "iteration"
                else:
                    f = fields(L.next("P list "))
                    if f["rc"] != "OK":
                        errs.append(f"{op[:80]}: list form failed: {f['rc']}")
                    got = read_pairs(L, "item", int(f["n"]))
                    what = "list form"
                if q is not None or (via and annot is not None and annot.ok() and annot.query is None):
                    check_pairs(got, q or b"", errs, op, what)
                # list form and iteration of the same query agree
                key = (via, t[1])
                if key in last_iter and last_iter[key][0] != what and last_iter[key][1] != got:
                    errs.append(f"{op[:80]}: list form and iteration disagree: {got!r} vs {last_iter[key][1]!r}")
                last_iter[key] = (what, got)
            else:
                L.next()
    except OracleStop as e:
        errs.append(str(e))
    except (KeyError, ValueError) as e:
        errs.append(f"unparsable implementation output ({e!r})")
    return errs


def nontrivial(case):
    for op in case.ops:
        t = op.split()
        if t[0] in ("enc_path", "enc_param", "dec", "q_iter", "q_list", "q_lists", "build"):
            return True
        if "#" in t and comp_from_annot(t[t.index("#") + 1:]).ok():
            return True
    return False


def distribution(cases, c_out):
    d = {"ops": {}, "parse_ok": 0, "parse_err": 0, "build_ok": 0, "build_err": 0, "dec_err": 0,
         "comp_ok_tuples": 0, "comp_not_ok_tuples": 0, "port_gt_u32": 0, "v6": 0, "userinfo": 0, "no_scheme": 0,
         "empty_path_with_query": 0, "enc_prelen_distinct": set(), "max_input_len": 0}
    for i, c in enumerate(cases):
        for op in c.ops:
            t = op.split()
            d["ops"][t[0]] = d["ops"].get(t[0], 0) + 1
            if t[0] == "parse" and "#" in t:
                a = comp_from_annot(t[t.index("#") + 1:])
                d["comp_ok_tuples" if a.ok() else "comp_not_ok_tuples"] += 1
                d["port_gt_u32"] += a.port is not None and a.port > U32
                d["v6"] += a.v6
                d["userinfo"] += a.userinfo is not None
                d["no_scheme"] += a.scheme is None
                d["empty_path_with_query"] += (not a.path) and a.query is not None
            if t[0] in ("enc_path", "enc_param", "dec"):
                d["enc_prelen_distinct"].add(int(t[2]) if len(t) > 2 else 0)
                d["max_input_len"] = max(d["max_input_len"], len(unhx(t[1])))
        for l in c_out.get(i, []):
            if l.startswith("P parse rc=OK"):
                d["parse_ok"] += 1
            elif l.startswith("P parse rc="):
                d["parse_err"] += 1
            elif l.startswith("P build rc=OK"):
                d["build_ok"] += 1
            elif l.startswith("P build rc="):
                d["build_err"] += 1
            elif l.startswith("P dec rc=AWS"):
                d["dec_err"] += 1
    d["enc_prelen_distinct"] = len(d["enc_prelen_distinct"])
    return d


MANIFEST = dict(
    category="proof",
    design_ref="5.13",
    text=("Lean 4 theorems over a byte-level transcription of uri.c, all proved in full: decode(encodePath x) = decode(encodeParam x) = x "
          "for every byte string (induction); encoder output is unreserved / %XX upper-case (/ '/' for paths) and stays inside the 3n "
          "reservation from any starting buffer; query iteration yields exactly the non-empty '&'-separated pairs split at the first '=' "
          "and equals the list form; parse(assemble c) returns the components of c with every view inside the text for every component "
          "tuple satisfying the explicit predicate Comp.ok; the builder writes assemble c and re-parses to c; for every input the state "
          "machine stops and every view of a successful parse is inside the text. Tied to /repo by a correspondence run of the compiled "
          "model against uri.c rebuilt from the working tree (ASan/UBSan) and by a direct Python oracle (urllib.parse.quote reference, "
          "component and pair oracles)."),
    note=("Trusted: Lean kernel; hand-written model Model/Uri.lean (tied by correspondence only); harness; Python oracle. Comp.ok asks "
          "nothing of the query and nothing extra of tuples without scheme (uri.c as repaired by 7bf9897 and 3dbc364)."),
    technique="Lean 4 structural induction over byte strings + model/implementation differential run + reference-implementation oracle",
)
