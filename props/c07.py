"""C07 — task scheduler runs every task exactly once, never early, in time order.

Op `stale_link T<k>` (harness only): the task's intrusive list node is linked into a scratch list which is then
re-initialised without popping, so the node keeps STALE next/prev links (what a caller-owned hand-off list leaves behind).
Task nodes are not part of the model's abstract state (list MEMBERSHIP is), so the op is a no-op on the model; the property
says such a task, once scheduled, is still invoked exactly once.
A second stage runs a slice of the cases against the -DDEBUG_BUILD flavour of the whole library (extra_stages)."""
import itertools
from collections import Counter
import os
from lib.core import Case, GenError, write_if_changed, LEAN
from lib import cbuild, core
import json
from gen import heap_gen, cfun

def regen(ctx):
    """Gen/HeapIdx.lean: PARENT_OF / LEFT_OF / RIGHT_OF, the guards of aws_priority_queue_remove and the scheduler's
    s_compare_timestamps, re-translated from /repo's current source (gen/heap_gen.py); the bridge theorems of
    Props/C06.lean and Props/C07.lean are re-proved against it"""
    try:
        text, _ = heap_gen.generate(cbuild.REPO, cbuild.config_include())
    except cfun.GenError as e:
        raise GenError(str(e))
    write_if_changed(os.path.join(LEAN, "AwsVerif", "Gen", "HeapIdx.lean"), text)


ID = "C07"
LEAN_MODULES = ["AwsVerif.Props.C07"]
COMPONENT = "sched"
HARNESS = dict(name="sched", flavour="asan")
# the order among timed tasks with EQUAL timestamps is the heap's choice, not the property's; the oracle below is
# complete for the property clauses, so a model difference alone is conformance drift
P_DIFF_CONCRETE = False
TIMEOUT = 120
NOT_PROVED = []
TRUSTED = ["hand models lean/AwsVerif/Model/Sched.lean and Model/Heap.lean (tied by this correspondence run; the timed queue's "
           "comparator is s_compare_timestamps regenerated from task_scheduler.c on every run, Gen/HeapIdx.lean, with the bridge "
           "theorem c07_comparator)",
           "translator gen/cfun.py + gen/heap_gen.py (the comparator's two timestamp reads lifted to uint64_t parameters)",
           "harness/sched.c: task functions interpret scripts against the real API; its forced-failure switch exchanges the "
           "timed queue for a static queue during one schedule_future call to reach the timed_list fall-back"]
ASSUMPTIONS = ["API contract (enforced by the client wrapper in harness and model): a task is scheduled only while not pending, "
               "cancelled only while pending", "task functions do not call run_all / clean_up themselves",
               "fewer than 2^63 tasks", "allocation does not fail other than through the forced-failure switch"]
RULE = ("cancel_task also on tasks that are not pending (never scheduled / already run / already cancelled; op cancel_raw, "
        "outside the wrapper's contract guard): only that task's function may be invoked; programs over 1..15 tasks (incl. histories with 6..15 timed tasks pending at once, cancels at every heap position, "
        "and a small-scope slice over heap sizes 2..8): programs over 1..12 tasks: sched_now / sched_future / cancel / run_all / has_tasks / cleanup / failmode, task functions "
        "with per-generation scripts (schedule, self re-schedule, cancel incl. tasks already in the running batch), timestamps "
        "0 / equal / decreasing / UINT64_MAX; non-trivial = >=3 schedules, >=1 run_all with a non-empty batch, >=1 script "
        "action; distinct by op-file hash")

MAX = 2**64 - 1


# --------------------------------------------------------------------------------------------------------------
class Spec:
    """abstract scheduler: pending tasks with (kind, timestamp, sequence number, generation); no heap, no lists"""

    def __init__(self, nt):
        self.nt = nt
        self.pending = {}      # t -> dict(asap=bool, ts=int, seq=int, gen=int)
        self.gen = Counter()
        self.seq = 0
        self.scripts = {}      # (t, gen, status) -> [actions]
        self.skipped = 0
        self.now = 0
        self.done = set()      # (t, gen) already invoked

    def sched(self, t, ts, asap):
        if t >= self.nt or t in self.pending:
            self.skipped += 1
            return False
        self.gen[t] += 1
        self.seq += 1
        self.pending[t] = dict(asap=asap, ts=ts, seq=self.seq, gen=self.gen[t])
        return True

    def has(self):
        if not self.pending:
            return (0, MAX)
        if any(p["asap"] for p in self.pending.values()):
            return (1, 0)
        return (1, min(p["ts"] for p in self.pending.values()))

    def batch(self, now):
        return [t for t, p in self.pending.items() if p["asap"] or p["ts"] <= now]


def _fmt_action(a):
    if a[0] == "now":
        return f"now T{a[1]}"
    if a[0] == "future":
        return f"future T{a[1]} {a[2] if a[2] != MAX else 'MAX'}"
    return f"cancel T{a[1]}"


class Gen:
    """generator: builds the program against a predictive run of the abstract scheduler (ties broken by scheduling
    order) so that most actions respect the API contract; scripts are created the moment they are first needed"""

    def __init__(self, rng, nt, maxops):
        self.rng = rng
        self.sp = Spec(nt)
        self.nt = nt
        self.ops = [f"init {nt}"]
        self.clock = rng.choice([0, 0, 5, 100, MAX - 50])
        self.tsmode = rng.choice(["near", "near", "equal", "dec", "wide", "max"])
        self.script_density = rng.choice([0.0, 0.3, 0.6, 0.9])
        self.depth = 0
        self.nscripts = 0
        self.dec = 1000
        self.pending_script_lines = []

    def ts(self):
        r = self.rng
        m = self.tsmode
        if r.random() < 0.1:
            return r.choice([0, MAX, self.clock])
        if m == "near":
            return min(MAX, self.clock + r.randint(0, 12))
        if m == "equal":
            return min(MAX, self.clock + r.choice([0, 3, 3, 3, 7]))
        if m == "dec":
            self.dec = max(0, self.dec - r.randint(0, 3))
            return self.dec
        if m == "max":
            return r.choice([MAX, MAX - 1, MAX, self.clock])
        return r.randint(0, MAX)

    def make_script(self, t, gen, status, batch_left):
        """choose actions valid in the current predicted state"""
        r = self.rng
        if r.random() > self.script_density or self.nscripts > 60 or self.depth > 3:
            return []
        acts = []
        planned_pending = set(self.sp.pending)
        for _ in range(r.choice([1, 1, 2, 3])):
            x = r.random()
            free = [u for u in range(self.nt) if u not in planned_pending]
            if x < 0.2 and t not in planned_pending and (status == "run" or r.random() < 0.3):
                # self re-schedule
                if r.random() < 0.5:
                    acts.append(("now", t))
                else:
                    acts.append(("future", t, self.ts()))
                planned_pending.add(t)
            elif x < 0.6 and free and (status == "run" or r.random() < 0.4):
                u = r.choice(free)
                acts.append(("now", u) if r.random() < 0.4 else ("future", u, self.ts()))
                planned_pending.add(u)
            elif x < 0.8 and planned_pending:
                cands = [u for u in batch_left if u in planned_pending] if (batch_left and r.random() < 0.6) else sorted(planned_pending)
                if cands:
                    u = r.choice(sorted(cands))
                    acts.append(("cancel", u))
                    planned_pending.discard(u)
            elif r.random() < 0.15:
                # deliberately against the contract: the wrapper refuses it on both sides
                acts.append(r.choice([("cancel", r.randrange(self.nt)), ("now", r.randrange(self.nt))]))
        return acts

    def invoke(self, t, status, batch_left):
        """predicted invocation of t's function"""
        sp = self.sp
        p = sp.pending.pop(t)
        key = (t, p["gen"], status)
        if key not in sp.scripts:
            acts = self.make_script(t, p["gen"], status, batch_left)
            sp.scripts[key] = acts
            if acts:
                self.nscripts += 1
                self.pending_script_lines.append(f"script T{t} {p['gen']} {status} " + " ; ".join(_fmt_action(a) for a in acts))
        self.depth += 1
        for a in sp.scripts[key]:
            if a[0] == "now":
                sp.sched(a[1], 0, True)
            elif a[0] == "future":
                sp.sched(a[1], a[2], False)
            else:
                if a[1] in sp.pending:
                    if a[1] in batch_left:
                        batch_left.remove(a[1])
                    self.invoke(a[1], "canceled", batch_left)
                else:
                    sp.skipped += 1
        self.depth -= 1

    def run_batch(self, now, status):
        sp = self.sp
        b = sp.batch(now)
        b.sort(key=lambda t: (0, sp.pending[t]["seq"]) if sp.pending[t]["asap"] else (1, sp.pending[t]["ts"], sp.pending[t]["seq"]))
        while b:
            t = b.pop(0)
            self.invoke(t, status, b)

    def emit(self, op):
        self.ops.extend(self.pending_script_lines)
        self.pending_script_lines = []
        self.ops.append(op)

    def step(self):
        r = self.rng
        sp = self.sp
        x = r.random()
        free = [u for u in range(self.nt) if u not in sp.pending]
        if x < 0.42 and free:
            u = r.choice(free)
            if r.random() < 0.35:
                sp.sched(u, 0, True)
                self.emit(f"sched_now T{u}")
            else:
                ts = self.ts()
                sp.sched(u, ts, False)
                self.emit(f"sched_future T{u} {ts if ts != MAX else 'MAX'}")
        elif x < 0.47 and sp.pending:
            u = r.choice(sorted(sp.pending))
            self.invoke(u, "canceled", [])
            self.emit(f"cancel T{u}")
        elif x < 0.49:
            u = r.randrange(self.nt)       # possibly not pending / pending: contract guard on both sides
            if u in sp.pending:
                if r.random() < 0.5:
                    sp.skipped += 1
                    self.emit(f"sched_now T{u}")
                else:
                    self.invoke(u, "canceled", [])
                    self.emit(f"cancel T{u}")
            else:
                sp.skipped += 1
                self.emit(f"cancel T{u}")
        elif x < 0.83:
            y = r.random()
            if y < 0.6:
                self.clock = min(MAX, self.clock + r.randint(0, 16))
                now = self.clock
            elif y < 0.7:
                now = 0
            elif y < 0.8:
                now = MAX
            elif y < 0.9 and sp.pending:
                now = r.choice([p["ts"] for p in sp.pending.values()])
                now = max(0, min(MAX, now + r.choice([-1, 0, 0, 1])))
            else:
                now = max(0, self.clock - r.randint(0, 5))
            sp.now = now
            self.run_batch(now, "run")
            self.emit(f"run_all {now if now != MAX else 'MAX'}")
        elif x < 0.88:
            self.emit("has_tasks")
        elif x < 0.94:
            self.emit(f"failmode {r.choice([0, 1, 1])}")
        elif x < 0.96:
            self.cleanup()
        else:
            self.emit("has_tasks")

    def cleanup(self):
        n = 0
        while self.sp.pending and n < 50:
            self.run_batch(MAX, "canceled")
            n += 1
        self.emit("cleanup")


def gen_case(rng, maxops):
    nt = rng.choice([1, 2, 3, 3, 4, 5, 6, 8, 12])
    g = Gen(rng, nt, maxops)
    for _ in range(rng.randint(2, maxops)):
        g.step()
    if rng.random() < 0.8:
        g.cleanup()
    return Case(g.ops, {"nt": nt, "tsmode": g.tsmode})


def exhaustive_cases(depth):
    """every program of the given length over 3 tasks with fixed scripts (self re-schedule, cancel of a batch member,
    schedule from a cancelled task)"""
    pre = ["init 3",
           "script T0 1 run future T0 2 ; cancel T1",
           "script T1 1 canceled now T2",
           "script T2 1 run cancel T0",
           "script T0 2 canceled now T1"]
    alphabet = ["sched_now T0", "sched_future T1 1", "sched_future T2 1", "sched_future T0 2", "sched_now T1",
                "cancel T0", "cancel T1", "run_all 1", "run_all 2", "failmode 1", "cleanup"]
    out = []
    for seq in itertools.product(alphabet, repeat=depth):
        out.append(Case(pre + list(seq) + ["cleanup"], {"nt": 3, "exhaustive": True}))
    return out


def _fmt_ts(ts):
    return "MAX" if ts == MAX else str(ts)


def _ts_pool(rng, n):
    """timestamps for n simultaneously pending timed tasks: distinct, with duplicates, or clustered at the extremes"""
    kind = rng.choice(["perm", "perm", "dups", "dups", "few", "edge"])
    if kind == "perm":
        base = rng.choice([0, 1, 100, MAX - 3 * n])
        v = [base + 2 * i for i in range(n)]
        rng.shuffle(v)
        return v
    if kind == "dups":
        return [rng.randint(0, max(1, n // 2)) * 3 for _ in range(n)]
    if kind == "few":
        return [rng.choice([5, 5, 7]) for _ in range(n)]
    return [rng.choice([0, 0, 1, MAX, MAX - 1, 50]) for _ in range(n)]


def gen_heap_case(rng, min_tasks=6):
    """many timed tasks pending at once (6..15): cancels of tasks sitting anywhere in the heap (root, interior, leaf,
    last slot) interleaved with run_all calls that make only some of them due and with re-schedules; has_tasks / next
    time is observed after every op, the order of the runs by the log"""
    nt = rng.randint(min_tasks, 15)
    ops = [f"init {nt}"]
    if rng.random() < 0.15:
        ops.append("failmode 1")
        fail = True
    else:
        fail = False
    ts = _ts_pool(rng, nt)
    pending = {}
    never = set(rng.sample(range(nt), rng.choice([0, 1, 1, 2])))     # initialised (aws_task_init) but never scheduled
    for t in range(nt):
        if t in never:
            continue
        if fail and rng.random() < 0.5:
            ops.append("failmode 0"); fail = False
        if rng.random() < 0.25:
            ops.append(f"stale_link T{t}")
        ops.append(f"sched_future T{t} {_fmt_ts(ts[t])}")
        pending[t] = ts[t]
    if fail:
        ops.append("failmode 0")
    for _ in range(rng.randint(3, 25)):
        x = rng.random()
        idle = [t for t in range(nt) if t not in pending]
        if idle and rng.random() < 0.15:
            # cancel_task on a task that is not pending (never scheduled / already run / already cancelled) while
            # others are: its own function is invoked as cancelled and nothing else may happen
            ops.append(f"cancel_raw T{rng.choice(idle)}")
            continue
        if x < 0.5 and pending:
            u = rng.choice(sorted(pending))
            ops.append(f"cancel_raw T{u}" if rng.random() < 0.1 else f"cancel T{u}")
            del pending[u]
        elif x < 0.75 and pending:
            vals = sorted(set(pending.values()))
            now = rng.choice(vals[:max(1, len(vals) // 2)])
            now = max(0, min(MAX, now + rng.choice([-1, 0, 0, 0, 1])))
            ops.append(f"run_all {_fmt_ts(now)}")
            pending = {t: v for t, v in pending.items() if v > now}
        elif x < 0.95:
            free = [t for t in range(nt) if t not in pending]
            if free:
                u = rng.choice(free)
                v = rng.choice(list(pending.values()) + [rng.choice(ts)]) if pending else rng.choice(ts)
                v = max(0, min(MAX, v + rng.choice([-1, 0, 0, 1])))
                if rng.random() < 0.3:
                    ops.append(f"stale_link T{u}")
                ops.append(f"sched_future T{u} {_fmt_ts(v)}")
                pending[u] = v
        else:
            ops.append("has_tasks")
    # drain in time order: one run_all per distinct remaining time, so that the order of runs is observed
    for v in sorted(set(pending.values())):
        ops.append(f"run_all {_fmt_ts(v)}")
    ops.append("cleanup")
    return Case(ops, {"nt": nt, "tsmode": "heap"})


def heap_slice(rng, tier):
    """small-scope slice over the timed heap: for every heap size 2..8 and a set of timestamp arrangements (all
    permutations for sizes <= 4, the adversarial 'last element belongs under another subtree' shapes and sampled
    permutations above), cancel the task in EVERY array position, look at has_tasks, then run the rest in time order"""
    out = []
    for n in range(2, 9):
        arrs = []
        if n <= 4:
            arrs = [list(p) for p in itertools.permutations(range(1, n + 1))]
        else:
            # heap arrays in which the last element is smaller than everything outside the root path of another subtree
            asc = list(range(1, n + 1))
            arrs.append(asc)
            arrs.append([1] + [10 + i for i in range(n - 2)] + [2])          # last element second smallest
            arrs.append([1, 10, 2] + [11 + i for i in range(n - 4)] + [3])     # the shape of the missed seed
            arrs.append([5] * n)
            arrs.append([1, 1, 2, 2, 3, 3, 4, 4][:n])
            for _ in range(12 if tier == "quick" else 120):
                p = asc[:]
                rng.shuffle(p)
                arrs.append(p)
            for _ in range(6 if tier == "quick" else 40):
                arrs.append([rng.randint(1, 4) for _ in range(n)])
        for a in arrs:
            for k in range(n):
                ops = [f"init {n + 1}"] + [f"sched_future T{i} {a[i]}" for i in range(n)] + \
                      ([f"cancel_raw T{n}"] if k % 2 == 0 else []) + [f"cancel T{k}", f"cancel_raw T{k}", "has_tasks"]
                rest = sorted(set(a[i] for i in range(n) if i != k))
                if rest:
                    ops.append(f"run_all {rest[0]}")
                    ops.append(f"sched_future T{k} {rest[-1]}")
                    for v in rest[1:]:
                        ops.append(f"run_all {v}")
                ops.append("cleanup")
                out.append(Case(ops, {"nt": n, "exhaustive": True, "tsmode": "slice"}))
    return out


def gen_cases(rng, tier):
    n = 2500 if tier == "quick" else 60000
    cases = [gen_case(rng, rng.choice([8, 20, 40, 80])) for _ in range(n)]
    cases += [gen_heap_case(rng) for _ in range(1500 if tier == "quick" else 30000)]
    cases += heap_slice(rng, tier)
    cases += exhaustive_cases(3)
    if tier == "thorough":
        cases += exhaustive_cases(5)
    return cases


def debug_cases(rng, tier):
    """slice for the -DDEBUG_BUILD flavour: 9..15 timed tasks pending at once (the timed queue's element array grows
    past its initial 7 slots, its handle array past its first), cancels, partial run_alls, clean-up; plus scripted cases"""
    n = 300 if tier == "quick" else 4000
    out = [gen_heap_case(rng, min_tasks=9) for _ in range(n)]
    out += [gen_case(rng, rng.choice([20, 40])) for _ in range(n // 3)]
    for c in out:
        c.tags["debug"] = True
    return out


def _debug_exe(ctx):
    try:
        return cbuild.build_harness(**dict(HARNESS, flavour="debug"))
    except cbuild.BuildError as e:
        ctx.machinery_broken("debug-flavour build: " + str(e)[:2000])
        return None


def extra_stages(ctx):
    """second configuration: the whole library with -DDEBUG_BUILD (cbuild flavour `debug`, ASan/UBSan): the DEBUG-only code
    of array_list (poison fills on growth / clear) runs under the scheduler's timed queue and every AWS_PRECONDITION /
    AWS_POSTCONDITION aborts.  Same op language, same model, same oracle; a crash is a concrete violation."""
    exe = _debug_exe(ctx)
    if exe is None:
        return
    cases = debug_cases(ctx.rng, ctx.tier)
    keep = ctx.cov.get("distribution")
    first = len(ctx.violations)
    core.correspondence_stage(ctx, cases, exe)
    if keep is not None:
        ctx.cov["distribution"] = keep
    ctx.cov["debug_build_cases"] = len(cases)
    for name, text, path, no_input in ctx.violations[first:]:
        try:
            r = json.load(open(path))
        except Exception:
            continue
        if "ops" in r:
            r["debug_ops"] = r.pop("ops")
        r["flavour"] = "debug (-DDEBUG_BUILD library, ASan/UBSan)"
        with open(path, "w") as f:
            json.dump(r, f, indent=1)


def replay(ctx, r):
    if "debug_ops" not in r:
        print(json.dumps(r, indent=1)[:3000])
        return
    exe = _debug_exe(ctx)
    if exe is not None:
        core.correspondence_stage(ctx, [Case(r["debug_ops"], r.get("tags"))], exe)


# --------------------------------------------------------------------------------------------------------------
class OracleError(Exception):
    pass


def _parse_action(toks):
    if toks[0] == "now":
        return ("now", int(toks[1][1:]))
    if toks[0] == "future":
        return ("future", int(toks[1][1:]), MAX if toks[2] == "MAX" else int(toks[2]))
    return ("cancel", int(toks[1][1:]))


def _split_actions(toks):
    out, cur = [], []
    for t in toks:
        if t == ";":
            out.append(cur); cur = []
        else:
            cur.append(t)
    if cur:
        out.append(cur)
    return [_parse_action(a) for a in out]


def oracle(case, lines):
    """Direct property oracle on the implementation's log only.  The abstract scheduler (a set of pending tasks) is
    advanced by the implementation's own log: every invocation must be of a pending task/generation not yet invoked,
    with the status and time the call site dictates, in an order the property allows (run-now FIFO, then timed tasks by
    non-decreasing time, nothing early, nothing due left behind, newly scheduled tasks not in this batch); scripts are
    replayed abstractly to know what the functions scheduled/cancelled; has_tasks and the refused-action count are
    compared after every op."""
    P = [l for l in lines if not l.startswith("W ")]
    pos = 0
    sp = None
    errs = []

    def peek():
        return P[pos] if pos < len(P) else None

    def take_log():
        nonlocal pos
        l = peek()
        if l is None or not l.startswith("P log "):
            return None
        pos += 1
        t = l.split()
        return (int(t[2][1:]), int(t[3][1:]), t[4], int(t[5]))

    def invoke(ent, status, now, batch_left, why, raw=False):
        """ent is the log entry of an invocation the property allows at this point; replay its script
        (raw: cancel_task called by the client on a task that is not pending — the function is invoked once more)"""
        t, g, st, nw = ent
        if raw:
            if g != sp.gen[t]:
                raise OracleError(f"{why}: T{t} invoked with generation {g}, its current generation is {sp.gen[t]}")
        else:
            if t not in sp.pending:
                raise OracleError(f"{why}: T{t} invoked ({st}) although it is not pending")
            p = sp.pending[t]
            if g != p["gen"]:
                raise OracleError(f"{why}: T{t} invoked with generation {g}, pending generation is {p['gen']}")
            if (t, g) in sp.done:
                raise OracleError(f"{why}: T{t} generation {g} invoked a second time")
        if st != status:
            raise OracleError(f"{why}: T{t} invoked with status {st}, expected {status}")
        if nw != now:
            raise OracleError(f"{why}: T{t} logged time {nw}, call time is {now}")
        sp.done.add((t, g))
        if not raw:
            del sp.pending[t]
        for a in sp.scripts.get((t, g, "run" if status == "RUN" else "canceled"), []):
            if a[0] == "now":
                sp.sched(a[1], 0, True)
            elif a[0] == "future":
                sp.sched(a[1], a[2], False)
            else:
                u = a[1]
                if u < sp.nt and u in sp.pending:
                    e2 = take_log()
                    if e2 is None or e2[0] != u:
                        raise OracleError(f"{why}: cancel of pending T{u} by T{t} did not invoke it (next log entry: {e2})")
                    if u in batch_left:
                        batch_left.remove(u)
                    invoke(e2, "CANCELED", now, batch_left, why)
                else:
                    sp.skipped += 1

    def run_batch(now, status, why, last):
        batch = sp.batch(now)
        while batch:
            ent = take_log()
            if ent is None:
                break
            t = ent[0]
            if t not in batch:
                stray(ent, now, status, why)
            p = sp.pending[t]
            asap_left = sorted((sp.pending[u]["seq"], u) for u in batch if sp.pending[u]["asap"])
            if p["asap"]:
                if asap_left[0][1] != t:
                    raise OracleError(f"{why}: run-now task T{t} invoked before T{asap_left[0][1]} which was scheduled earlier")
            else:
                if asap_left:
                    raise OracleError(f"{why}: timed task T{t} invoked before run-now task T{asap_left[0][1]}")
                m = min(sp.pending[u]["ts"] for u in batch)
                if p["ts"] != m:
                    raise OracleError(f"{why}: timed task T{t} (time {p['ts']}) invoked before a task with time {m}")
            batch.remove(t)
            invoke(ent, status, now, batch, why)
        if batch:
            raise OracleError(f"{why}: due task(s) {['T%d' % u for u in batch]} were not invoked")
        if last:
            ent = take_log()
            if ent is not None:
                stray(ent, now, status, why)

    def stray(ent, now, status, why):
        t = ent[0]
        if t in sp.pending:
            p = sp.pending[t]
            if not p["asap"] and p["ts"] > now:
                raise OracleError(f"{why}: T{t} run early: its time is {p['ts']}, run_all time is {now}")
            raise OracleError(f"{why}: T{t} was scheduled during this call but invoked in the same batch")
        raise OracleError(f"{why}: T{t} invoked ({ent[2]}) although it is not pending")

    try:
        for op in case.ops:
            t = op.split()
            if t[0] == "init":
                sp = Spec(int(t[1]))
                continue
            if sp is None:
                pos += 1
                continue
            if t[0] == "script":
                sp.scripts[(int(t[1][1:]), int(t[2]), t[3])] = _split_actions(t[4:])
                continue
            why = op
            if peek() == "bad-op":
                pos += 1
                continue
            if t[0] == "sched_now":
                sp.sched(int(t[1][1:]), 0, True)
            elif t[0] == "sched_future":
                sp.sched(int(t[1][1:]), MAX if t[2] == "MAX" else int(t[2]), False)
            elif t[0] == "cancel":
                u = int(t[1][1:])
                if u < sp.nt and u in sp.pending:
                    ent = take_log()
                    if ent is None or ent[0] != u:
                        raise OracleError(f"{why}: cancel of pending T{u} did not invoke it (next log entry: {ent})")
                    invoke(ent, "CANCELED", sp.now, [], why)
                else:
                    sp.skipped += 1
            elif t[0] == "stale_link":
                u = int(t[1][1:])
                if u >= sp.nt or u in sp.pending:
                    sp.skipped += 1
            elif t[0] == "cancel_raw":
                u = int(t[1][1:])
                if u >= sp.nt:
                    sp.skipped += 1
                else:
                    before = dict((k, dict(v)) for k, v in sp.pending.items())
                    ent = take_log()
                    if ent is None or ent[0] != u:
                        raise OracleError(f"{why}: cancel_task(T{u}) invoked {('T%d' % ent[0]) if ent else 'nothing'} instead of T{u}")
                    if u in sp.pending:
                        invoke(ent, "CANCELED", sp.now, [], why)
                    else:
                        # not pending: its function is invoked as cancelled; NO OTHER task may be invoked or disappear
                        invoke(ent, "CANCELED", sp.now, [], why, raw=True)
                        if not sp.scripts.get((u, ent[1], "canceled")) and sp.pending != before:
                            raise OracleError(f"{why}: cancelling the non-pending T{u} changed the pending set")
            elif t[0] == "run_all":
                sp.now = MAX if t[1] == "MAX" else int(t[1])
                run_batch(sp.now, "RUN", why, True)
            elif t[0] == "cleanup":
                n = 0
                while sp.pending:
                    sp.now = MAX
                    before = len(sp.done)
                    run_batch(MAX, "CANCELED", why, False)
                    n += 1
                    if len(sp.done) == before:
                        break
                if sp.pending:
                    raise OracleError(f"{why}: tasks {sorted(sp.pending)} still pending after clean_up")
            # trailer: no unexplained invocations, refused actions, has_tasks
            l = peek()
            if l is not None and l.startswith("P log "):
                raise OracleError(f"{why}: unexpected invocation `{l}`")
            if l is not None and l.startswith("P skipped "):
                got = int(l.split()[2]); pos += 1
            else:
                got = 0
            if got != sp.skipped:
                raise OracleError(f"{why}: wrapper refused {got} action(s) by the `scheduled` flag, the abstract pending set refuses {sp.skipped}")
            sp.skipped = 0
            l = peek()
            if l == "P DIVERGED":
                raise OracleError(f"{why}: recursion limit reached")
            if l is None or not l.startswith("P has "):
                raise OracleError(f"{why}: missing has_tasks line ({l})")
            pos += 1
            h = l.split()
            want = sp.has()
            if (int(h[2]), int(h[3])) != want:
                raise OracleError(f"{why}: has_tasks reports ({h[2]}, {h[3]}), expected {want}")
            l = peek()
            if l is not None and l.startswith("P MONITOR"):
                raise OracleError(f"{why}: harness monitor: {l}")
    except OracleError as e:
        errs.append(str(e))
    except (ValueError, IndexError, KeyError) as e:
        errs.append(f"malformed implementation output near line {pos}: {e!r}")
    return errs


def nontrivial(case):
    sch = sum(1 for o in case.ops if o.startswith("sched_"))
    runs = sum(1 for o in case.ops if o.startswith("run_all"))
    scr = sum(1 for o in case.ops if o.startswith("script") and len(o.split()) > 4)
    return sch >= 3 and runs >= 1 and scr >= 1


def distribution(cases, c_out):
    d = Counter()
    for i, c in enumerate(cases):
        for o in c.ops:
            t = o.split()
            d[t[0]] += 1
            if t[0] == "script":
                for a in t[4:]:
                    if a in ("now", "future", "cancel"):
                        d["script_" + a] += 1
        d["tsmode_" + str(c.tags.get("tsmode", "exh"))] += 1
        nested = False
        for l in c_out.get(i, []):
            w = l.split()
            if l.startswith("P log") and len(w) >= 6:
                d["invocations_" + w[4]] += 1
            elif l.startswith("P skipped") and len(w) >= 3 and w[2].isdigit():
                d["refused_actions"] += int(w[2])
            elif l.startswith("W tl ") and len(l) > 5:
                d["states_with_timed_list"] += 1
    return dict(d)


MANIFEST = dict(
    category="proof",
    design_ref="5.7",
    text=("Lean 4 theorems over the model of task_scheduler.c built on the proved priority-queue model (asap list, timed heap "
          "with per-task handles, timed_list fall-back, s_run_all's detach-then-run, cancel by unlink / heap handle, clean_up "
          "loop; task functions as re-entrant scripts) for every program and script assignment whose execution terminates: "
          "c07_exactly_once, c07_never_early + c07_first_run_all, c07_cancelled_iff, c07_order, c07_next_time; c07_comparator (generated comparator is > on uint64 and a total preorder) and c07_uses_c06 (the timed queue is the C06 heap with that comparator). "
          "Tied to /repo by a correspondence run of the compiled model against the real aws_task_scheduler whose task "
          "functions call the real API re-entrantly, plus a direct exactly-once / never-early / order / next-time oracle driven "
          "by the implementation's own invocation log."),
    note=("Trusted: Lean kernel; hand-written models Model/Sched.lean, Model/Heap.lean (tied by correspondence only); harness. "
          "API contract enforced by the client wrapper on both sides; task functions do not call run_all/clean_up."),
    technique="Lean 4 inductive invariants over all programs + model/implementation differential run + log-driven direct oracle",
)
