"""C08 — thread scheduler delivers each task once, on its own thread, whatever the timing.

Implementation side: the real aws_thread_scheduler (thread_scheduler.c and ref_count.c rebuilt from
the working tree with every atomic access a schedule point) runs under harness/detsched.c: serialised
threads, virtual time, seeded / enumerated schedules.  The ordinary correspondence stage runs the
harness on every case and applies the direct oracle (implementation output only); the harness also
prints the schedule it took (`X picks`, `X evs`: the events on the modelled objects).  `extra_stages`
then replays each recorded event list in the Lean model (lean/Driver/ThreadSched.lean) and compares,
line by line, the event kinds (W) and the observable outcome (P) the model produces under that schedule
with what the implementation printed.  A difference is conformance drift (reported with
`no-failing-input-found`) unless the oracle has a concrete violation.
"""
import os, subprocess, hashlib
from concurrent.futures import ThreadPoolExecutor
from lib.core import Case, GenError
from lib import cbuild, detsched

ID = "C08"
LEAN_MODULES = ["AwsVerif.Props.C08"]
COMPONENT = None           # the model is run by extra_stages (its input is the schedule the harness took)
NEEDS_DRIVER = True
MODEL_COMPONENT = "tsched"
# harness/tsched.c records wall-clock hangs here and stops running cases after three of them (a mutated tree that hangs
# everywhere would otherwise cost a watchdog period per case)
_HANG_FILE = os.path.join(cbuild.CACHE, f"c08-hangs-{os.getpid()}")
C_ENV = {"TSCHED_HANG_FILE": _HANG_FILE}
RERUN_STALL_S = 20
P_DIFF_CONCRETE = False   # a model/implementation difference is conformance drift; the oracle decides violations
TIMEOUT = 900
_SCHED_FLAGS = ["-include", detsched.ATOMICS_H, "-DUSE_SIMD_ENCODING"]
HARNESS = dict(
    name="tsched", flavour="asan",
    extra_srcs=[detsched.SRC,
                (os.path.join(cbuild.REPO, "source", "thread_scheduler.c"), _SCHED_FLAGS, "thread_scheduler_sched"),
                (os.path.join(cbuild.REPO, "source", "ref_count.c"), _SCHED_FLAGS, "ref_count_sched")],
    ldflags=detsched.LDFLAGS,
)
NOT_PROVED = []
TRUSTED = ["hand model lean/AwsVerif/Model/ThreadSched.lean (tied to thread_scheduler.c by this correspondence run only: "
           "event-level replay of every explored schedule)",
           "harness/detsched.c (serialising scheduler: pthread mutex/condvar/join semantics, virtual time), "
           "harness/verif_atomics.h, harness/tsched.c, lean/Driver/ThreadSched.lean"]
ASSUMPTIONS = ["sequentially consistent interleavings at lock / condition-variable / atomic / clock operations only "
               "(weak-memory reorderings and real time are not modelled)",
               "a task is scheduled at most once (by client operations and task functions together); every client thread owns a "
               "reference while it uses the scheduler (so the release that reaches zero is the last action of the program set)",
               "task functions may re-enter the scheduler (one schedule / cancel call per invocation); exactly-once and no-leak "
               "are claimed for runs in which no task function invoked by the destroy callback - i.e. after the last reference "
               "was released - re-enters (NoReentryAfterLastRelease; what the code does otherwise is recorded by "
               "c08_reentry_after_last_release_loses_task / _leaks_record and only compared with the model)",
               "the inner aws_task_scheduler is abstracted (run-now list, timed set, scheduled flag); its own properties are C07"]
RULE = ("1-3 client programs over {schedule_now, schedule_future(virtual start + delta | absolute limit stamps 0, 1, now-1, now, "
        "now+1, UINT64_MAX-k), cancel, acquire, release, virtual sleep}, task functions that schedule / cancel when invoked with "
        "RUN or CANCELED (re-entrant, in chains), an allocator that hands out dirty memory; schedules: seeded random (stay / spurious-wake-up rates varied) and, for small fixed scenarios, "
        "every schedule that deviates from run-to-block in at most 1 (quick) / 2 (thorough) places; non-trivial = at "
        "least one scheduled task and (a cancel or >= 2 clients); coverage.distinct_schedules counts distinct "
        "(programs, pick list) pairs; every schedule run is also replayed in the model (traces_validated_against_impl)")

START_NS = 1000000000


# ------------------------------------------------------------------ structural bridge to the source
# The model's program points are the sync operations of thread_scheduler.c in the order below, and what is done between a
# lock and its unlock is one atomic critical section.  detsched only switches threads AT sync operations, so moving a plain
# statement across one (a store after the unlock, a queue operation outside the lock, the launch before an initialisation)
# cannot be seen by any run; it is checked on the source instead: every function's anchors must occur in this order.
_SKELETON = {
    "struct aws_thread_scheduler *aws_thread_scheduler_new(": [
        "aws_thread_init(&scheduler->thread, allocator)",
        "aws_mutex_init(&scheduler->thread_data.mutex)",
        "aws_condition_variable_init(&scheduler->thread_data.c_var)",
        "aws_task_scheduler_init(&scheduler->scheduler",
        "scheduler->allocator = allocator",
        "aws_atomic_init_int(&scheduler->should_exit",
        "aws_ref_count_init(&scheduler->ref_count",
        "aws_linked_list_init(&scheduler->thread_data.scheduling_queue)",
        "aws_linked_list_init(&scheduler->thread_data.cancel_queue)",
        "aws_thread_launch(&scheduler->thread, s_thread_fn, scheduler",
    ],
    "void aws_thread_scheduler_schedule_future(": [
        "task->timestamp = time_to_run",
        "aws_mutex_lock(&scheduler->thread_data.mutex)",
        "aws_linked_list_push_back(&scheduler->thread_data.scheduling_queue, &task->node)",
        "aws_mutex_unlock(&scheduler->thread_data.mutex)",
        "aws_condition_variable_notify_one(&scheduler->thread_data.c_var)",
    ],
    "void aws_thread_scheduler_cancel_task(": [
        "aws_mem_calloc(scheduler->allocator, 1, sizeof(struct cancellation_node))",
        "aws_mutex_lock(&scheduler->thread_data.mutex)",
        "aws_linked_list_front(&scheduler->thread_data.scheduling_queue)",
        "if (potential_task == task)",
        "aws_linked_list_remove(&found_task->node)",
        "cancellation_node->removed_from_scheduling_queue = true",
        "cancellation_node->task_to_cancel = task",
        "aws_linked_list_push_back(&scheduler->thread_data.cancel_queue, &cancellation_node->node)",
        "aws_mutex_unlock(&scheduler->thread_data.mutex)",
        "aws_condition_variable_notify_one(&scheduler->thread_data.c_var)",
    ],
    "static void s_process_cancellation(": [
        "cancellation_node->task_to_cancel",
        "if (cancellation_node->removed_from_scheduling_queue || task->abi_extension.scheduled)",
        "aws_task_scheduler_cancel_task(&scheduler->scheduler, task)",
        "aws_mem_release(scheduler->allocator, cancellation_node)",
    ],
    "static bool s_thread_should_wake(": [
        "aws_high_res_clock_get_ticks(&current_time)",
        "aws_task_scheduler_has_tasks(&scheduler->scheduler, &next_scheduled_task)",
        "return aws_atomic_load_int(&scheduler->should_exit) ||",
        "!aws_linked_list_empty(&scheduler->thread_data.scheduling_queue) ||",
        "!aws_linked_list_empty(&scheduler->thread_data.cancel_queue) || (next_scheduled_task <= current_time)",
    ],
    "static void s_thread_fn(": [
        "while (!aws_atomic_load_int(&scheduler->should_exit))",
        "aws_mutex_lock(&scheduler->thread_data.mutex)",
        "aws_linked_list_swap_contents(&scheduler->thread_data.scheduling_queue, &list_cpy)",
        "aws_linked_list_swap_contents(&scheduler->thread_data.cancel_queue, &cancel_list_cpy)",
        "aws_mutex_unlock(&scheduler->thread_data.mutex)",
        "while (!aws_linked_list_empty(&list_cpy))",
        "if (task->timestamp)",
        "aws_task_scheduler_schedule_future(&scheduler->scheduler, task, task->timestamp)",
        "aws_task_scheduler_schedule_now(&scheduler->scheduler, task)",
        "while (!aws_linked_list_empty(&cancel_list_cpy))",
        "s_process_cancellation(scheduler, cancellation_node)",
        "aws_high_res_clock_get_ticks(&current_time)",
        "aws_task_scheduler_run_all(&scheduler->scheduler, current_time)",
        "aws_task_scheduler_has_tasks(&scheduler->scheduler, &next_scheduled_task)",
        "if (next_scheduled_task == UINT64_MAX)",
        "timeout = (int64_t)30 * (int64_t)AWS_TIMESTAMP_NANOS",
        "timeout = (int64_t)(next_scheduled_task - current_time)",
        "if (timeout > 0)",
        "aws_mutex_lock(&scheduler->thread_data.mutex)",
        "aws_condition_variable_wait_for_pred(",
        "&scheduler->thread_data.c_var, &scheduler->thread_data.mutex, timeout, s_thread_should_wake, scheduler)",
        "aws_mutex_unlock(&scheduler->thread_data.mutex)",
    ],
    "static void s_destroy_callback(": [
        "aws_atomic_store_int(&scheduler->should_exit, 1U)",
        "aws_condition_variable_notify_all(&scheduler->thread_data.c_var)",
        "aws_thread_join(&scheduler->thread)",
        "while (!aws_linked_list_empty(&scheduler->thread_data.scheduling_queue))",
        "aws_linked_list_pop_front(&scheduler->thread_data.scheduling_queue)",
        "if (task->timestamp)",
        "while (!aws_linked_list_empty(&scheduler->thread_data.cancel_queue))",
        "aws_linked_list_pop_front(&scheduler->thread_data.cancel_queue)",
        "s_process_cancellation(scheduler, cancellation_node)",
        "aws_task_scheduler_clean_up(&scheduler->scheduler)",
        "aws_condition_variable_clean_up(&scheduler->thread_data.c_var)",
        "aws_mutex_clean_up(&scheduler->thread_data.mutex)",
        "aws_thread_clean_up(&scheduler->thread)",
        "aws_mem_release(scheduler->allocator, scheduler)",
    ],
}


def _function_body(src, header):
    i = src.find(header)
    if i < 0:
        return None
    j = src.find("{", i)
    depth, k = 0, j
    while k < len(src):
        if src[k] == "{":
            depth += 1
        elif src[k] == "}":
            depth -= 1
            if depth == 0:
                return src[j:k + 1]
        k += 1
    return None


def regen(ctx):
    """checks the sync skeleton of thread_scheduler.c against the one the model was written from (see _SKELETON); a
    failure is a broken correspondence (reported like a translator rejection, `no-failing-input-found`)."""
    path = os.path.join(cbuild.REPO, "source", "thread_scheduler.c")
    try:
        src = open(path).read()
    except OSError as e:
        raise GenError(f"cannot read {path}: {e}")
    for header, anchors in _SKELETON.items():
        name = header.split("(")[0].split()[-1].lstrip("*")
        body = _function_body(src, header)
        if body is None:
            raise GenError(f"{name} not found in source/thread_scheduler.c")
        pos = 0
        for a in anchors:
            p = body.find(a, pos)
            if p < 0:
                where = "is missing" if body.find(a) < 0 else "comes too early"
                raise GenError(f"{name}: `{a}` {where}: the function's sync skeleton is no longer the modelled one "
                               "(order of lock / queue operation / unlock / notify / launch / clean-up steps)")
            pos = p + len(a)


# ------------------------------------------------------------------ scenarios
def _fmt(ops):
    out = []
    for o in ops:
        out.append(" ".join(str(x) for x in o))
    return " ".join(out)


MAXT = "MAX"
NAMED = [
    # (name, [client programs], [task-function entries (task, R|C, op)], misuse-after-release stream?)
    ("sched;release", [[("sn", 0), ("rel",)]]),
    ("sched;cancel;release", [[("sn", 0), ("c", 0), ("rel",)]]),
    ("sched;sleep;cancel;release", [[("sn", 0), ("sl", 2000), ("c", 0), ("rel",)]]),
    ("sched_future far;cancel;release", [[("sf", 0, 10**12), ("c", 0), ("rel",)]]),
    ("sched_future near;sleep;release", [[("sf", 0, 3000), ("sl", 9000), ("rel",)]]),
    ("sched_future near;release", [[("sf", 0, 3000), ("rel",)]]),
    ("two tasks, double cancel", [[("sn", 0), ("sf", 1, 5000), ("c", 1), ("c", 1), ("sl", 1000), ("rel",)]]),
    ("2 clients: sched/release x2", [[("sn", 0), ("rel",)], [("sn", 1), ("rel",)]]),
    ("2 clients: cancel race + timed", [[("sn", 0), ("c", 0), ("rel",)], [("sf", 1, 4000), ("sl", 6000), ("rel",)]]),
    ("2 clients: cross-thread cancel", [[("sn", 0), ("sl", 1000), ("rel",)], [("c", 0), ("rel",)]]),
    ("2 clients: acquire/release noise", [[("acq",), ("sn", 0), ("rel",), ("sl", 500), ("c", 0), ("rel",)],
                                          [("sf", 1, 10**11), ("rel",)]]),
    ("3 clients mixed", [[("sn", 0), ("rel",)], [("sn", 1), ("c", 1), ("rel",)], [("sf", 2, 2500), ("sl", 4000), ("c", 2), ("rel",)]]),
    # time stamps at the limits: the only pending task(s) at the final release are at UINT64_MAX
    ("UINT64_MAX;release", [[("sa", 0, MAXT), ("rel",)]]),
    ("UINT64_MAX;handed over;release", [[("sa", 0, MAXT), ("sl", 2000), ("rel",)]]),
    # (a stamp in [now + 2^63, UINT64_MAX - 1] makes s_thread_fn poll without waiting - `(int64_t)(next - now)` is
    # negative -, and virtual time only moves when every thread is blocked: such stamps never meet a sleep here)
    ("UINT64_MAX and MAX-1;release", [[("sa", 0, MAXT), ("sa", 1, "MAX-1"), ("rel",)]]),
    ("UINT64_MAX + run-now;release", [[("sa", 0, MAXT), ("sn", 1), ("sl", 1000), ("rel",)]]),
    ("limit stamps 0,1,now-1,now,now+1", [[("sa", 0, 0), ("sa", 1, 1), ("sa", 2, 999999999), ("sa", 3, 1000000000),
                                          ("sa", 4, 1000000001), ("sl", 10), ("rel",)]]),
    ("2 clients: UINT64_MAX each side", [[("sa", 0, MAXT), ("rel",)], [("sa", 1, "MAX-1"), ("c", 1), ("rel",)]]),
    # re-entrant task functions (run by the scheduler thread)
    ("cancelled task schedules a follow-up", [[("sa", 0, MAXT), ("sl", 100), ("c", 0), ("sl", 5000), ("rel",)]],
     [(0, "C", ("sn", 16))]),
    ("cancelled task cancels its sibling", [[("sa", 0, MAXT), ("sf", 1, 10**15), ("sl", 100), ("c", 0), ("sl", 5000), ("rel",)]],
     [(0, "C", ("c", 1))]),
    ("cancelled task schedules a timed follow-up that runs", [[("sf", 0, 10**12), ("c", 0), ("sl", 9000), ("rel",)]],
     [(0, "C", ("sf", 16, 3000)), (16, "R", ("sn", 17))]),
    ("run task schedules and cancels", [[("sn", 0), ("sf", 1, 10**11), ("sl", 5000), ("rel",)]],
     [(0, "R", ("sf", 16, 2000)), (16, "R", ("c", 1)), (1, "C", ("sn", 17))]),
    ("2 clients: re-entry while the other client schedules", [[("sn", 0), ("sl", 3000), ("rel",)], [("sn", 1), ("sn", 2), ("c", 2), ("sl", 3000), ("rel",)]],
     [(0, "R", ("sn", 16)), (1, "R", ("c", 16)), (16, "R", ("sf", 17, 10**15))]),
    # many timed tasks at once: the inner scheduler's heap beyond its initial 7 slots, removals from the middle
    ("9 timed tasks, descending, all run", [[("sf", k, 9000 - 1000 * k) for k in range(9)] + [("sl", 20000), ("rel",)]]),
    ("10 timed tasks zig-zag, middle ones cancelled, rest run",
     [[("sf", k, d) for k, d in enumerate([5000, 1000, 9000, 3000, 7000, 2000, 8000, 4000, 6000, 500])] +
      [("c", 3), ("c", 0), ("c", 8), ("sl", 20000), ("rel",)]]),
    ("8 timed tasks ascending, first and last cancelled, pending at release",
     [[("sf", k, 10**9 + 1000 * k) for k in range(8)] + [("sl", 100), ("c", 0), ("c", 7), ("c", 4), ("sl", 100), ("rel",)]]),
    ("2 clients: 6 + 6 timed tasks interleaved, cancels, all run",
     [[("sf", k, 700 * (11 - k)) for k in range(0, 12, 2)] + [("c", 4), ("sl", 20000), ("rel",)],
      [("sf", k, 700 * (k + 1) + 350) for k in range(1, 12, 2)] + [("c", 7), ("c", 1), ("sl", 20000), ("rel",)]]),
    # a clock that moves with every read: a task can become due between run_all's clock read and the wake predicate's
    ("ticking clock, dense time stamps", [[("sa", k, 1000000003 + k) for k in range(10)] + [("sl", 300), ("rel",)]], [], False, 1),
    ("ticking clock, sparse stamps + cancel", [[("sa", 0, 1000000010), ("sa", 1, 1000000017), ("sn", 2), ("c", 1), ("sl", 100), ("rel",)]],
     [], False, 3),
    # use after the last release (outside the property; only compared with the model)
    ("misuse: cancelled-at-shutdown schedules", [[("sa", 0, MAXT), ("rel",)]], [(0, "C", ("sn", 16))], True),
    ("misuse: cancelled-at-shutdown cancels", [[("sa", 0, MAXT), ("sa", 1, "MAX-1"), ("rel",)]], [(0, "C", ("c", 1))], True),
    ("misuse: drained cancellation schedules", [[("sa", 0, MAXT), ("c", 0), ("rel",)]], [(0, "C", ("sn", 16))], True),
]


def _named(i):
    e = NAMED[i]
    return e[0], e[1], (e[2] if len(e) > 2 else []), (e[3] if len(e) > 3 else False)


def _named_tick(i):
    e = NAMED[i]
    return e[4] if len(e) > 4 else 0


# small scenarios explored exhaustively up to the preemption bound
EXHAUSTIVE = [0, 1, 3, 5, 7, 8, 9, 12, 13, 17, 18, 19, 27, 29, 31]
EXHAUSTIVE_THOROUGH = [0, 1, 3, 5, 7, 8, 9, 12, 17, 18, 19, 22]
EXHAUSTIVE_QUICK2 = [0, 1, 9, 12, 18]      # bound 2 already in the quick tier (short schedules)


LIMIT_STAMPS = ["MAX", "MAX-1", "MAX-2", "MAX-3", 1, 2, 999999999, 1000000000, 1000000001, 1000000002]


def _abs(v):
    if isinstance(v, str):
        return 2**64 - 1 - (int(v[4:]) if len(v) > 3 else 0)
    return v


def random_programs(rng):
    """returns (programs, task-function entries, misuse-after-release stream?)"""
    n = rng.choice([1, 1, 2, 2, 2, 3])
    progs = []
    next_task = 0
    used = set()          # absolute time stamps in use: timed tasks get distinct ones (the heap's order among equals is free)
    spin = [False]        # a stamp in [now + 2^63, UINT64_MAX - 1] is in use: the thread polls, nobody may sleep
    allow_spin = rng.random() < 0.3

    def fresh_stamp():
        for _ in range(50):
            if rng.random() < 0.35:
                v = rng.choice(LIMIT_STAMPS)
                if isinstance(v, str) and v != "MAX":
                    if not allow_spin:
                        continue
                    spin[0] = True
                op = ("sa", v)
                a = _abs(v)
            else:
                d = rng.choice([500, 1500, 2500, 4000, 6000, 9000, 10**9, 10**12, 0, 1]) + rng.randrange(0, 40)
                op = ("sf", d)
                a = START_NS + d
            if a not in used:
                used.add(a)
                return op
        return None

    many = rng.random() < 0.12          # many timed tasks at once (heap beyond its initial capacity)
    for c in range(n):
        p = []
        mine = []
        held = 1
        if many:
            for _ in range(rng.randint(4, 9)):
                if next_task < 12:
                    st = fresh_stamp()
                    if st:
                        p.append((st[0], next_task, st[1])); mine.append(next_task); next_task += 1
        for _ in range(rng.randint(1, 4)):
            r = rng.random()
            if r < 0.30 and next_task < 12:
                p.append(("sn", next_task)); mine.append(next_task); next_task += 1
            elif r < 0.55 and next_task < 12:
                st = fresh_stamp()
                if st:
                    p.append((st[0], next_task, st[1])); mine.append(next_task); next_task += 1
            elif r < 0.78 and mine:
                p.append(("c", rng.choice(mine)))
            elif r < 0.90:
                p.append(("sl", rng.choice([100, 1000, 3000, 7000, 20000])))
            else:
                p.append(("acq",)); held += 1
            if held > 1 and rng.random() < 0.4:
                p.append(("rel",)); held -= 1
        if not mine and next_task < 12:
            p.insert(0, ("sn", next_task)); mine.append(next_task); next_task += 1
        while held > 0:
            p.append(("rel",)); held -= 1
        progs.append(p)
    # occasionally a cancel aimed at another thread's task (outside the strict contract, inside the model)
    if n >= 2 and rng.random() < 0.25 and next_task > 0:
        victim = rng.randrange(next_task)
        progs[rng.randrange(n)].insert(0, ("c", victim))
    # task functions that re-enter the scheduler
    cbs, misuse = [], False
    fresh = [16]

    def cb_op():
        r = rng.random()
        if r < 0.3 and next_task > 0:
            return ("c", rng.randrange(next_task))
        x = fresh[0]; fresh[0] += 1
        if x >= 31:
            return ("c", 0)
        if r < 0.6:
            return ("sn", x)
        st = fresh_stamp()
        return (st[0], x, st[1]) if st else ("sn", x)

    if next_task > 0 and rng.random() < 0.45:
        # invoked with RUN: always on the scheduler thread, may re-enter freely (also in chains)
        for _ in range(rng.randint(1, 3)):
            src = rng.choice(list(range(next_task)) + list(range(16, fresh[0])))
            if not any(e[0] == src and e[1] == "R" for e in cbs):
                cbs.append((src, "R", cb_op()))
    if next_task < 12 and not allow_spin and rng.random() < 0.5:
        # invoked with CANCELED through an explicit cancel: a far-future task, cancelled by its own thread, which then
        # sleeps before it releases (so the scheduler thread has processed the cancellation while references exist)
        c = rng.randrange(n)
        t = next_task; next_task += 1
        far = ("sa", t, "MAX") if _abs("MAX") not in used and rng.random() < 0.5 else ("sf", t, 10**15 + t)
        a = _abs(far[2]) if far[0] == "sa" else START_NS + far[2]
        if a not in used:
            used.add(a)
            k = len(progs[c]) - 1          # before the final release
            while k > 0 and progs[c][k - 1][0] == "rel":
                k -= 1
            progs[c][k:k] = [far, ("sl", rng.choice([0, 100, 2000])), ("c", t), ("sl", 5000)]
            cbs.append((t, "C", cb_op()))
            if rng.random() < 0.3:
                cbs.append((t, "R", cb_op()))          # never fires
    if next_task > 0 and rng.random() < 0.08:
        # use after the last release: any task may still be pending at the final release
        t = rng.randrange(next_task)
        if not any(e[0] == t and e[1] == "C" for e in cbs):
            cbs.append((t, "C", cb_op()))
            misuse = True
    if spin[0]:
        progs = [[o for o in p if o[0] != "sl"] for p in progs]
    return progs, cbs, misuse


# thread options handed to aws_thread_scheduler_new: (cpu_id, name, inject-first-create-failure).  A refused launch attempt
# (cpu the OS does not accept / injected EINVAL) makes aws_thread_launch discard its first wrapper - with the copy of the
# name - and retry unpinned; the allocator balance after the final release shows whether everything was given back.
TOPTS = [None, None, None, (0, "c08-worker", 1), (1000, "c08-pinned", 0), (-1, "named-only", 0), (3, "-", 1), (0, "n", 1)]


def case_lines(progs, mode, seed=0, stay=50, spur=0, choices=None, picks=None, evs=None, cbs=(), tick=0, topt=None):
    ls = [f"cfg {len(progs)} {mode} {seed} {stay} {spur}" + (f" {tick}" if tick else "")]
    if topt:
        ls.append(f"topt {topt[0]} {topt[1]} {topt[2]}")
    for i, p in enumerate(progs):
        ls.append(f"prog {i} " + _fmt(p))
    for (t, k, op) in cbs:
        ls.append(f"cb {t} {k} " + " ".join(str(x) for x in op))
    if choices is not None:
        ls.append("choices " + " ".join(str(k) for k in choices))
    if picks is not None:
        for k in range(0, max(len(picks), 1), 1000):
            ls.append("picks " + " ".join(picks[k:k + 1000]))
    if evs is not None:
        for k in range(0, max(len(evs), 1), 1000):
            ls.append("evs " + " ".join(evs[k:k + 1000]))
    ls.append("run")
    return ls


# ------------------------------------------------------------------ pass 1: record schedules
def _run_batch(exe, batch):
    """batch: list of (idx, lines); returns {idx: output lines} (a crashed case keeps what it printed)"""
    res = {}
    todo = list(batch)
    env = dict(os.environ)
    env.setdefault("ASAN_OPTIONS", "detect_leaks=0:abort_on_error=0")
    while todo:
        text = "".join(f"case {i}\n" + "\n".join(ls) + "\n" for i, ls in todo)
        try:
            r = subprocess.run([exe], input=text, stdout=subprocess.PIPE, stderr=subprocess.STDOUT, text=True, timeout=600,
                               env=env, errors="replace")
            rc, out = r.returncode, r.stdout
        except subprocess.TimeoutExpired as e:
            rc, out = -999, (e.stdout or b"").decode(errors="replace") if isinstance(e.stdout, bytes) else (e.stdout or "")
        cur = None
        for line in out.splitlines():
            if line.startswith("case "):
                cur = int(line.split()[1]); res[cur] = []
            elif cur is not None:
                res[cur].append(line)
        if rc == 0:
            break
        started = [i for i, _ in todo if i in res]
        bad = started[-1] if started else todo[0][0]
        res.setdefault(bad, []).append("X crashed")
        k = [i for i, _ in todo].index(bad)
        todo = todo[k + 1:]
    return res


def record(exe, specs, jobs=16):
    """specs: list of dict(progs, mode, seed, stay, spur, choices).  Returns list of (spec, picks|None, evs|None)."""
    items = [(i, case_lines(s["progs"], s["mode"], s.get("seed", 0), s.get("stay", 50), s.get("spur", 0), s.get("choices"),
                            cbs=s.get("cbs", ()), tick=s.get("tick", 0), topt=s.get("topt")))
             for i, s in enumerate(specs)]
    jobs = max(1, min(jobs, len(items)))
    chunks = [items[k::jobs] for k in range(jobs)]
    outs = {}
    with ThreadPoolExecutor(jobs) as ex:
        for r in ex.map(lambda c: _run_batch(exe, c), chunks):
            outs.update(r)
    rec = []
    for i, s in enumerate(specs):
        picks = evs = None
        for line in outs.get(i, []):
            if line.startswith("X picks"):
                picks = line.split()[2:]
            elif line.startswith("X evs"):
                evs = line.split()[2:]
            elif line.startswith("X crashed"):
                picks = evs = None
                break
        rec.append((s, picks, evs))
    return rec


def gen_cases(rng, tier):
    os.makedirs(cbuild.CACHE, exist_ok=True)
    if os.path.exists(_HANG_FILE):
        os.remove(_HANG_FILE)
    exe = cbuild.build_harness(**HARNESS)
    quick = tier == "quick"
    specs = []
    # 1. named scenarios under many seeds
    for si in range(len(NAMED)):
        name, progs, cbs, misuse = _named(si)
        for _ in range(60 if quick else 400):
            specs.append(dict(progs=progs, cbs=cbs, misuse=misuse, tick=_named_tick(si), topt=rng.choice(TOPTS), mode="seed",
                              seed=rng.randrange(1, 2**31),
                              stay=rng.choice([0, 30, 60, 85]), spur=rng.choice([0, 0, 50, 250]), name=name))
    # 2. random program sets
    for _ in range(3000 if quick else 40000):
        progs, cbs, misuse = random_programs(rng)
        specs.append(dict(progs=progs, cbs=cbs, misuse=misuse, tick=rng.choice([0, 0, 0, 1, 3, 1000]), topt=rng.choice(TOPTS),
                          mode="seed",
                          seed=rng.randrange(1, 2**31),
                          stay=rng.choice([0, 30, 60, 85]), spur=rng.choice([0, 0, 50, 250]), name="random"))
    # 3. bounded-preemption enumeration: first the run-to-block schedule to learn its length
    ex_idx = EXHAUSTIVE
    base = record(exe, [dict(progs=_named(i)[1], cbs=_named(i)[2], tick=_named_tick(i), mode="choices", choices=[], spur=0, stay=100)
                        for i in ex_idx])
    for (spec, picks, _), i in zip(base, ex_idx):
        name, progs, cbs, misuse = _named(i)
        L = len(picks) if picks else 60
        m = len(progs) + 2
        for p in range(L + 2):
            for k in range(1, m + 1):
                specs.append(dict(progs=progs, cbs=cbs, misuse=misuse, tick=_named_tick(i), mode="choices", choices=[0] * p + [k],
                                  stay=100, spur=0, name="bound1:" + name))
        if (i in EXHAUSTIVE_QUICK2) or (not quick and i in EXHAUSTIVE_THOROUGH):
            for p in range(L + 2):
                for k in range(1, m + 1):
                    for q in range(0, L + 6 - p):
                        for k2 in range(1, m + 1):
                            specs.append(dict(progs=progs, cbs=cbs, misuse=misuse, tick=_named_tick(i), mode="choices",
                                              choices=[0] * p + [k] + [0] * q + [k2], stay=100, spur=0, name="bound2:" + name))
    cases = []
    for spec in specs:
        ops = case_lines(spec["progs"], spec["mode"], spec.get("seed", 0), spec.get("stay", 50), spec.get("spur", 0),
                         spec.get("choices"), cbs=spec.get("cbs", ()), tick=spec.get("tick", 0), topt=spec.get("topt"))
        cases.append(Case(ops, {"scenario": spec.get("name"), "mode": spec["mode"], "clients": len(spec["progs"]),
                                "reentrant": bool(spec.get("cbs")), "misuse_after_release": bool(spec.get("misuse"))}))
    return cases


# ------------------------------------------------------------------ direct oracle (implementation output only)
def _parse_ops(t, i):
    ops = []
    while i < len(t):
        if t[i] in ("sn", "c", "sl"):
            ops.append((t[i], int(t[i + 1]))); i += 2
        elif t[i] in ("sf", "sa"):
            ops.append((t[i], int(t[i + 1]), t[i + 2])); i += 3
        else:
            ops.append((t[i],)); i += 1
    return ops


def _programs(case):
    progs = {}
    for l in case.ops:
        t = l.split()
        if t and t[0] == "prog":
            progs[int(t[1])] = _parse_ops(t, 2)
    return progs


def _callbacks(case):
    """{(task, 'RUN'|'CANCELED'): op}"""
    cbs = {}
    for l in case.ops:
        t = l.split()
        if t and t[0] == "cb" and len(t) >= 5:
            ops = _parse_ops(t, 3)
            if ops:
                cbs[(int(t[1]), "RUN" if t[2] == "R" else "CANCELED")] = ops[0]
    return cbs


def oracle(case, lines):
    errs = []
    progs = _programs(case)
    cbs = _callbacks(case)
    scheduled, cancelled = [], set()
    for p in progs.values():
        for o in p:
            if o[0] in ("sn", "sf", "sa"):
                scheduled.append(o[1])
            elif o[0] == "c":
                cancelled.add(o[1])
    inv, released, leak, sched_ok = [], None, None, None
    for l in lines:
        t = l.split()
        if l.startswith("P inv "):
            inv.append((int(t[2]), t[3], t[4], t[5]))
        elif l.startswith("P released "):
            released = (t[2], t[3].split("=")[1], int(t[4].split("=")[1]))
        elif l.startswith("P leak "):
            leak = int(t[2])
        elif l.startswith("P sched "):
            sched_ok = l
        elif l.startswith("P MONITOR not run"):
            return []   # the harness stopped running cases after repeated hangs (those are reported as crashes)
        elif l.startswith("P MONITOR") or l.startswith("H harness-assert"):
            errs.append("harness: " + l)
        elif l == "bad-op":
            return []   # malformed case (e.g. a minimiser candidate), not a statement about the property
    if sched_ok is None:
        return errs     # no run in this case, or the process died (reported by the caller as a crash)
    if sched_ok != "P sched deadlock=0 livelock=0 misuse=0":
        errs.append("deadlock detector / watchdog / pthread misuse: " + sched_ok)
    if released is None or released[0] != "1":
        errs.append("the final release did not return")
        return errs
    if released[2] != 0:
        errs.append(f"{released[2]} task invocation(s) after the final release returned")
    # what the task functions that fired did; a task function that re-entered while being invoked by the releasing
    # thread used the scheduler after its last reference was released: outside the property (well-formedness clause
    # NoReentryAfterLastRelease), such a run is only compared with the model
    misuse = False
    for task, status, thr, _ in inv:
        op = cbs.get((task, status))
        if op:
            if thr != "S":
                misuse = True
            if op[0] in ("sn", "sf", "sa"):
                scheduled.append(op[1])
            else:
                cancelled.add(op[1])
    if misuse or case.tags.get("misuse_after_release"):
        return errs
    if leak != 0:
        errs.append("allocator imbalance after the final release (leak)")
    by = released[1]
    count = {}
    for task, status, thr, early in inv:
        count[task] = count.get(task, 0) + 1
        if task not in scheduled:
            errs.append(f"task {task} invoked but never scheduled")
        if status == "RUN":
            if thr != "S":
                errs.append(f"task {task} RUN on thread {thr}, not on the scheduler thread")
            if early != "early=0":
                errs.append(f"task {task} RUN before its time")
        elif status == "CANCELED":
            if thr == "S":
                if task not in cancelled:
                    errs.append(f"task {task} CANCELED on the scheduler thread although nobody cancelled it")
            elif thr != by:
                errs.append(f"task {task} CANCELED on thread {thr}, which is neither the scheduler thread nor the releasing thread {by}")
        else:
            errs.append(f"task {task} invoked with unknown status {status}")
    for tsk in scheduled:
        c = count.get(tsk, 0)
        if c == 0:
            errs.append(f"task {tsk} was scheduled but never invoked (lost)")
        elif c > 1:
            errs.append(f"task {tsk} invoked {c} times")
    return errs


def nontrivial(case):
    progs = _programs(case)
    ops = [o for p in progs.values() for o in p]
    return any(o[0] in ("sn", "sf", "sa") for o in ops) and (any(o[0] == "c" for o in ops) or len(progs) >= 2
                                                                or bool(_callbacks(case)))


_LAST = {}


def distribution(cases, c_out):
    _LAST["cases"], _LAST["c_out"] = cases, c_out     # extra_stages compares these outputs with the model
    d = {"clients": {}, "mode": {}, "ops": {}, "reentrant_cases": 0, "misuse_after_release_stream": 0, "task_function_calls": 0,
         "RUN": 0, "CANCELED_by_thread": 0, "CANCELED_by_releaser": 0,
         "events": 0, "lost_signals": 0, "timeouts": 0, "spurious": 0}
    for i, c in enumerate(cases):
        d["clients"][str(c.tags.get("clients"))] = d["clients"].get(str(c.tags.get("clients")), 0) + 1
        m = (c.tags.get("scenario") or "?").split(":")[0] if c.tags.get("mode") == "choices" else c.tags.get("mode")
        d["mode"][m] = d["mode"].get(m, 0) + 1
        for p in _programs(c).values():
            for o in p:
                d["ops"][o[0]] = d["ops"].get(o[0], 0) + 1
                if o[0] == "sa" and str(o[2]).startswith("MAX"):
                    d["ops"]["sa_near_UINT64_MAX"] = d["ops"].get("sa_near_UINT64_MAX", 0) + 1
        cbs = _callbacks(c)
        d["reentrant_cases"] += 1 if cbs else 0
        d["misuse_after_release_stream"] += 1 if c.tags.get("misuse_after_release") else 0
        for l in c_out.get(i, []):
            if l.startswith("W ev "):
                d["events"] += 1
                if l.endswith("signal 0"):
                    d["lost_signals"] += 1
                elif l.endswith("wake 1"):
                    d["timeouts"] += 1
                elif l.endswith("spurious"):
                    d["spurious"] += 1
            elif l.startswith("P inv "):
                t = l.split()
                if cbs.get((int(t[2]), t[3])):
                    d["task_function_calls"] += 1
                if t[3] == "RUN":
                    d["RUN"] += 1
                elif t[4] == "S":
                    d["CANCELED_by_thread"] += 1
                else:
                    d["CANCELED_by_releaser"] += 1
    return d


# ------------------------------------------------------------------ model replay of the recorded schedules
def _model_input(case, lines):
    """the case's programs + the event list the implementation printed -> input of the model driver"""
    evs = None
    for l in lines:
        if l.startswith("X evs"):
            evs = l.split()[2:]
    if evs is None:
        return None
    out = [l for l in case.ops if l.startswith(("cfg ", "prog ", "cb "))]
    for k in range(0, max(len(evs), 1), 1000):
        out.append("evs " + " ".join(evs[k:k + 1000]))
    out.append("run")
    return out


def _picks(lines):
    for l in lines:
        if l.startswith("X picks"):
            return " ".join(l.split()[2:])
    return ""


def _run_model(inputs, jobs=16):
    """inputs: {idx: lines}; returns {idx: output lines}"""
    model = os.path.join(cbuild.VERIF, "lean", ".lake", "build", "bin", "awsmodel")
    idxs = sorted(inputs)
    if not idxs:
        return {}
    jobs = max(1, min(jobs, len(idxs)))
    chunks = [idxs[k::jobs] for k in range(jobs)]

    def one(ch):
        text = "".join(f"case {i}\n" + "\n".join(inputs[i]) + "\n" for i in ch)
        r = subprocess.run([model, MODEL_COMPONENT], input=text, stdout=subprocess.PIPE, stderr=subprocess.STDOUT, text=True,
                           timeout=900)
        res, cur = {}, None
        for line in r.stdout.splitlines():
            if line.startswith("case "):
                cur = int(line.split()[1]); res[cur] = []
            elif cur is not None:
                res[cur].append(line)
        return res, r.returncode

    out = {}
    with ThreadPoolExecutor(jobs) as ex:
        for res, rc in ex.map(one, chunks):
            out.update(res)
            if rc != 0:
                out["_failed"] = True
    return out


def _first_diff(a, b):
    for k in range(max(len(a), len(b))):
        x = a[k] if k < len(a) else "<missing>"
        y = b[k] if k < len(b) else "<missing>"
        if x != y:
            return k, x, y
    return None


def _compare(ctx, cases, c_out):
    inputs = {}
    for i, c in enumerate(cases):
        lines = c_out.get(i)
        if not lines or "bad-op" in lines:
            continue
        mi = _model_input(c, lines)
        if mi is not None:
            inputs[i] = mi
    m_out = _run_model(inputs)
    if m_out.pop("_failed", False):
        ctx.machinery_broken("model driver failed on a C08 batch")
    drift, validated, distinct = [], 0, set()
    for i in sorted(inputs):
        impl = [l for l in c_out[i] if not l.startswith("X ")]
        mod = m_out.get(i)
        if mod is None:
            continue
        validated += 1
        distinct.add(hashlib.sha256(("\n".join(l for l in cases[i].ops if l.startswith(("prog ", "cb "))) + _picks(c_out[i])).encode()).hexdigest())
        d = _first_diff(impl, mod)
        if d:
            drift.append((i, d))
    return drift, validated, len(distinct), inputs, m_out


def extra_stages(ctx):
    try:
        os.remove(_HANG_FILE)
    except OSError:
        pass
    cases, c_out = _LAST.get("cases"), _LAST.get("c_out")
    if not cases or c_out is None or not ctx.lean_ok and not os.path.exists(
            os.path.join(cbuild.VERIF, "lean", ".lake", "build", "bin", "awsmodel")):
        return
    drift, validated, distinct, inputs, m_out = _compare(ctx, cases, c_out)
    ctx.cov["traces_validated_against_impl"] = validated
    ctx.cov["distinct_schedules"] = distinct
    if drift and not ctx.violations:
        i, d = drift[0]
        ctx.violation(f"wdrift-{ctx.seed}-{i}",
                      {"case_ops": cases[i].ops, "model_input": inputs[i][-3:], "stream": "model/implementation conformance",
                       "first_difference": {"line": d[0], "implementation": d[1], "model": d[2]},
                       "impl_output": [l for l in c_out[i] if not l.startswith("X ")][-40:], "model_output": m_out[i][-40:],
                       "cases_with_drift": len(drift)},
                      f"implementation no longer runs the modelled algorithm under the same schedule (impl `{d[1]}` vs model `{d[2]}`, "
                      f"{len(drift)} of {validated} schedules); no property-level failing input found in this run", no_input=True)


def replay(ctx, obj):
    """replay of a conformance-drift file: run the case in the harness, the recorded schedule in the model, print the
    first divergence"""
    ops = obj.get("case_ops")
    if not ops:
        print(obj.get("what", "replay file without a case"))
        return
    exe = cbuild.build_harness(**HARNESS)
    c_out = _run_batch(exe, [(0, ops)])
    case = Case(ops, obj.get("tags"))
    errs = oracle(case, c_out.get(0, []))
    if errs:
        ctx.violation(f"oracle-replay-{ctx.seed}", {"ops": ops, "clause": errs[:5], "impl_output": c_out.get(0, [])[-40:]},
                      "direct oracle: " + errs[0])
        return
    drift, validated, _, inputs, m_out = _compare(ctx, [case], c_out)
    if drift:
        _, d = drift[0]
        print(f"first divergence at line {d[0]}: implementation `{d[1]}` vs model `{d[2]}`")
        ctx.violation(f"wdrift-replay-{ctx.seed}", {"case_ops": ops, "first_difference": {"line": d[0], "implementation": d[1], "model": d[2]}},
                      f"implementation differs from the model under the same schedule: impl `{d[1]}` vs model `{d[2]}`", no_input=True)
    else:
        print(f"replayed: implementation and model agree on {validated} schedule(s); oracle clean")


MANIFEST = dict(
    category="proof",
    design_ref="5.8",
    text=("Lean 4 theorems over a labelled transition system of thread_scheduler.c (scheduler thread with one program point "
          "per lock / condition-variable / atomic / clock operation of s_thread_fn, any number of client threads running "
          "arbitrary well-formed programs of schedule_now / schedule_future / cancel / acquire / release, task functions "
          "that re-enter the scheduler (schedule / cancel from inside an invocation, on the invoking thread, through the "
          "hand-over mutex), the destroy callback on the releasing thread, lost and spurious wake-ups, timed waits that may always time out, a monotone "
          "virtual clock), proved for ALL interleavings by one inductive invariant: every scheduled task is in exactly one "
          "of hand-over queue / cancellation record / inner scheduler / invoked; invocations only on the scheduler thread or, "
          "as canceled, on the releasing thread; RUN never before its time; nothing after the final release returned; "
          "at most once; no task function invoked while the hand-over mutex is held; exactly once at termination; no deadlock "
          "and no mutex held across a wait; every cancellation record freed exactly once (exactly-once / no-leak for runs "
          "without re-entry after the last release).  The pre-fix variants (no drain after join; unconditional cancel) are shown to violate "
          "exactly-once / no-leak / at-most-once on explicit traces.  Tied to /repo by running the real thread scheduler "
          "(rebuilt from the working tree, atomics instrumented) under a deterministic serialising scheduler with virtual "
          "time (link-time --wrap of pthread and clock calls): seeded and bounded-preemption-exhaustive schedules, each "
          "replayed event by event in the compiled model (event kinds, wake-up outcomes, invocation log, release, leak), plus "
          "a direct oracle on the implementation's log alone."),
    note=("Sequentially consistent interleavings at lock/condvar/atomic/clock points only; weak memory and real time are "
          "not modelled.  Trusted: Lean kernel; hand-written model (tied by event-level replay only); detsched; harness. "
          "Task functions do not re-enter the scheduler; inner aws_task_scheduler abstracted (its properties are C07)."),
    technique="Lean 4 inductive invariant over all interleavings + deterministic-scheduler replay of real threads against the model",
)
