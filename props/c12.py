"""C12 — XML traversal reports every element of a well-formed document exactly once
(+ the XML piece of C04: total and memory-safe on arbitrary bytes).

Two separately tagged streams:
  wf   well-formed documents rendered from element trees (`render`), every per-node action choice;
       direct oracle = the tree (via `expected`), compared with the implementation's P lines exactly.
  mal  mutations of valid documents and random bytes with random callback programs (`malformed_cases`,
       reusable for C04): must terminate, no sanitizer report, rc OK or ERR, every view inside the block
       (monitored in harness/xml.c).  Verdict differences against the model are conformance only.
The oracle never uses the Lean model: it re-derives the tree from the document with a strict reference
reader of the dialect (`parse_dialect`; generation asserts parse_dialect(render(t)) == t), so corpus files
and replays are judged the same way.
"""
import os, sys
sys.setrecursionlimit(max(sys.getrecursionlimit(), 50000))   # documents nested 1000 deep and more (max_depth cases)
from lib.core import Case, GenError, write_if_changed, LEAN
from lib import cbuild
from gen import xml_gen, cfun


def regen(ctx):
    """Gen/XmlConsts.lean: limits, array sizes and list capacities as written, literal sets, and the depth test / loop
    guard / max_depth defaulting / quote predicate of xml_parser.c, re-derived from /repo's current source
    (gen/xml_gen.py); Model/Xml.lean computes with these values and Proofs/C12/GenBridge.lean re-proves what the
    theorems need of them (a 256-byte name fits both compare buffers, name + 10 attributes fit the split list, ...)"""
    try:
        text, _ = xml_gen.generate(cbuild.REPO, cbuild.config_include())
    except cfun.GenError as e:
        raise GenError(str(e))
    write_if_changed(os.path.join(LEAN, "AwsVerif", "Gen", "XmlConsts.lean"), text)


ID = "C12"
LEAN_MODULES = ["AwsVerif.Props.C12"]
COMPONENT = "xml"
P_DIFF_CONCRETE = False   # malformed input: verdict differences are conformance; the oracle decides violations
HARNESS = dict(name="xml", flavour="asan")
TIMEOUT = 900
TRUSTED = ["hand model lean/AwsVerif/Model/Xml.lean (tied by this correspondence run; its limits, buffer and list capacities, "
           "delimiter sets and guards additionally by Gen/XmlConsts.lean, regenerated from xml_parser.c on every run)",
           "translator gen/xml_gen.py (+ gen/cfun.py): compiled sizeof probe, source-text patterns, clang AST of cut-out guards",
           "props/c12.py render / parse_dialect / expected (reference reader of the dialect, Python)"]
ASSUMPTIONS = ["documents are at most SIZE_MAX/2 bytes (explicit hypothesis of the theorems: aws_byte_cursor_advance refuses larger steps)",
               "parsing on several threads is claimed for independent documents only: all parser state (parser struct, pattern "
               "buffers, split scratch, callback stack) lives on the caller's stack / in the caller's allocator (generated check: no "
               "function-local of xml_parser.c has static storage; threads stage under TSan)",
               "callbacks propagate the return code of aws_xml_node_traverse / aws_xml_node_as_body and call at most one of them, once",
               "memchr / memcmp / memcpy have their ISO meaning and are charged with all n bytes"]
RULE = ("wf: trees over names {a,ab,abc,b,aa} (+ long names 255/256/257/300), depth 1..25, 0..11 attributes, text without < >, "
        "optional preamble, one action per reached node; mal: byte mutations of such documents + random bytes over a markup-biased "
        "alphabet, random programs; non-trivial = at least two callbacks or an error after the first callback")
NOT_PROVED = []   # c12_events is proved in full (Proofs/C12/{Tag,Scan,Match,Balanced,Events,Top}.lean)

MAX_DEPTH = 20
MAX_NAME = 256
MAX_ATTRS = 10
NAMES = [b"a", b"ab", b"abc", b"b", b"aa"]
# names that extend another name by a byte that is legal in names but is neither a letter nor a digit (and by a digit):
# `<k-id>` inside `<k>` is not a nested `<k>` (seeded change C12-r6s1)
EXT_NAMES = [b"k", b"k-id", b"k.x", b"k_", b"k:ns", b"k\xc3\xa9", b"k\x80", b"k\xff", b"k1", b"k-", b"a-b", b"a.b", b"a_b", b"a:b", b"a\xe2\x82\xac"]
ATTR_NAMES = [b"k", b"id", b"a", b"ab", b"x1", b"ns:t"]
VALUE_ALPHABET = b"abxyz019/:-._&'#;=a =b"  # the space is removed below
VALUE_ALPHABET = bytes(c for c in VALUE_ALPHABET if c != 0x20)
TEXT_ALPHABET = b"ab c/x=\"'&;\n\t0-?!a b/a"
ERR_XML = "AWS_ERROR_INVALID_XML"
ERR_ABORT = "AWS_ERROR_INVALID_ARGUMENT"
# attribute pieces other than name="value": the bare name `k` (value {NULL,0}) and `k=` (empty value)
BARE = ("bare",)
EQONLY = ("eq",)


# ----------------------------------------------------------------------------- trees and rendering
class Node:
    __slots__ = ("name", "attrs", "kids")

    def __init__(self, name, attrs=None, kids=None):
        self.name = name            # bytes
        self.attrs = attrs or []    # [(name bytes, value bytes | BARE | EQONLY)]
        self.kids = kids or []      # Node | bytes (text)

    def elems(self):
        return [k for k in self.kids if isinstance(k, Node)]

    def __eq__(self, o):
        return isinstance(o, Node) and self.name == o.name and self.attrs == o.attrs and self.kids == o.kids


def render_open(n):
    return b"<" + n.name + b"".join(render_attr(k, v) for k, v in n.attrs) + b">"


def render_attr(k, v):
    if v is BARE or v == BARE:
        return b" " + k
    if v is EQONLY or v == EQONLY:
        return b" " + k + b"="
    return b" " + k + b'="' + v + b'"'


def attr_value(v):
    """the value the property demands for an attribute piece"""
    return b"" if isinstance(v, tuple) else v


def render_kids(n, unclosed=None):
    return b"".join(k if isinstance(k, bytes) else render(k, unclosed) for k in n.kids)


def render(n, unclosed=None):
    """the supported dialect: explicit start and end tag (empty elements as <x></x>), attributes
    name="value" separated by one space"""
    return render_open(n) + render_kids(n, unclosed) + (b"" if n is unclosed else b"</" + n.name + b">")


def render_doc(root, preamble=(), trailer=b"", unclosed=None):
    return b"".join(preamble) + render(root, unclosed) + trailer


def parse_dialect(doc):
    """strict reference reader of the dialect; returns the root Node or None"""
    pos = 0
    n = len(doc)
    # preamble: text without '<' '>' and <? … > / <! … > statements without inner '<' '>'
    while True:
        lt = doc.find(b"<", pos)
        if lt < 0 or b">" in doc[pos:lt]:
            return None
        if doc[lt + 1:lt + 2] in (b"?", b"!"):
            gt = doc.find(b">", lt)
            if gt < 0 or b"<" in doc[lt + 1:gt]:
                return None
            pos = gt + 1
            continue
        pos = lt
        break

    def name_ok(s):
        return len(s) > 0 and not any(c in b"<>/ =\"\t\r\n!?" for c in s)

    def elem(p, depth):
        if depth > 5000 or doc[p:p + 1] != b"<":
            return None
        gt = doc.find(b">", p)
        if gt < 0:
            return None
        decl = doc[p + 1:gt]
        if b"<" in decl:
            return None
        parts = decl.split(b" ")
        if not name_ok(parts[0]):
            return None
        attrs = []
        for a in parts[1:]:
            eq = a.find(b"=")          # the first '=' separates name and value; the value may contain more
            if eq < 0:
                if not name_ok(a):
                    return None
                attrs.append((a, BARE))
                continue
            k, v = a[:eq], a[eq + 1:]
            if not name_ok(k):
                return None
            if v == b"":
                attrs.append((k, EQONLY))
                continue
            if len(v) < 2 or v[:1] != b'"' or v[-1:] != b'"' or b'"' in v[1:-1]:
                return None
            attrs.append((k, v[1:-1]))
        node = Node(parts[0], attrs, [])
        p = gt + 1
        while True:
            lt = doc.find(b"<", p)
            if lt < 0 or b">" in doc[p:lt]:
                return None
            if lt > p:
                node.kids.append(doc[p:lt])
            if doc[lt + 1:lt + 2] == b"/":
                close = b"</" + node.name + b">"
                if doc[lt:lt + len(close)] != close:
                    return None
                return node, lt + len(close)
            r = elem(lt, depth + 1)
            if r is None:
                return None
            node.kids.append(r[0])
            p = r[1]

    r = elem(pos, 0)
    if r is None:
        return None
    rest = doc[r[1]:]
    if b"<" in rest or b">" in rest:
        return None
    return r[0]


# ----------------------------------------------------------------------------- programs and the tree oracle
def prog_text(default, overrides):
    return default + "".join(f",{p}:{a}" for p, a in overrides)


def parse_prog(s):
    parts = s.split(",")
    tbl = {}
    for e in parts[1:]:
        p, a = e.split(":")
        tbl.setdefault(p, a)   # first entry wins (harness and driver search linearly)
    return parts[0], tbl


def path_text(path):
    return "/" if not path else "".join(f"/{i}" for i in path)


def hx(b):
    return b.hex() if b else "-"


class Stop(Exception):
    def __init__(self, err, sticky=True):
        self.err = err
        self.sticky = sticky   # the failure is recorded in parser->error (every failure except a rejected declaration)


def expected(root, prog, max_depth=0, watch=None):
    """P lines the property demands for this tree and program (pre-order events of the reached nodes,
    bodies, final rc), with the parser's limits as the points of rejection.
    watch: a Node whose closing tag is missing in the document (bodies of its ancestors are rendered
    without it); returns (lines, reached_watch)."""
    default, tbl = parse_prog(prog)
    md = max_depth or MAX_DEPTH
    lines = []
    reached = [False]

    def visit(n, path, depth):
        if n is watch:
            reached[0] = True
        if len(n.attrs) > MAX_ATTRS:
            raise Stop(ERR_XML, sticky=False)
        attrs = [(k, attr_value(v)) for k, v in n.attrs]
        lines.append(f"P node d={depth} name={hx(n.name)} na={len(attrs)}")
        for k, v in attrs:
            lines.append(f"P attr {hx(k)} {hx(v)}")
        act = tbl.get(path_text(path), default)
        if act == "D":
            # ignore_traverse_error: the callback discards the result of aws_xml_node_traverse.  Every failure below
            # (depth refusal, failing child callback, name limit, missing closing tag) is recorded in parser->error, which
            # ends every enclosing loop and is what aws_xml_parse returns: same events, same verdict as with `d`.
            act = "d"
        if act == "a":
            raise Stop(ERR_ABORT)
        if act in ("s", "b"):
            if len(n.name) > MAX_NAME:
                raise Stop(ERR_XML)
            if act == "b":
                lines.append(f"P body {hx(render_kids(n, watch))}")
            return
        if depth >= md:
            raise Stop(ERR_XML)
        for i, k in enumerate(n.elems()):
            visit(k, path + [i], depth + 1)

    try:
        visit(root, [], 1)
        lines.append("P rc OK")
    except Stop as s:
        if not s.sticky and ("D" in tbl.values() or default == "D"):
            return None, reached[0]    # a rejected declaration under an error-ignoring callback: no claim
        lines.append("P rc ERR " + s.err)
    return lines, reached[0]


def choose_prog(rng, root, max_depth=0, weights=(62, 15, 22, 1)):
    """one action per node the traversal reaches, as default + overrides"""
    default = rng.choice("dddbs")
    overrides = []
    md = max_depth or MAX_DEPTH

    def visit(n, path, depth):
        act = rng.choices("dbsa", weights)[0]
        if act != default:
            overrides.append((path_text(path), act))
        if act == "d" and depth < md:
            for i, k in enumerate(n.elems()):
                visit(k, path + [i], depth + 1)

    visit(root, [], 1)
    rng.shuffle(overrides)
    return prog_text(default, overrides)


# ----------------------------------------------------------------------------- generators: well-formed stream
def rand_text(rng, maxlen=8):
    r = rng.random()
    if r < 0.35:
        return b""
    if r < 0.5:
        return rng.choice([b"a", b"ab", b"/a", b"a/", b"/ab", b"abc ", b" ", b"\n  ", b"x=y", b"</", b"/"]).replace(b"<", b"")
    return bytes(rng.choice(TEXT_ALPHABET) for _ in range(rng.randint(1, maxlen)))


def rand_value(rng):
    r = rng.random()
    if r < 0.12:
        v = b""
    elif r < 0.27:
        v = rng.choice([b"a", b"/", b"ab/", b"/a", b"v"])
    elif r < 0.42:
        # '=' inside values (repaired defect 0df3cf8: such attributes used to vanish)
        v = rng.choice([b"dGVzdA==", b"=", b"a=b=c", b"==", b"=a", b"a=", b"x=y", b"k=v", b"/=", b"=/"])
    else:
        v = bytes(rng.choice(VALUE_ALPHABET) for _ in range(rng.randint(1, 6)))
    return v


def rand_attrs(rng, n=None, bare=False):
    if n is None:
        n = rng.choice([0, 0, 0, 1, 1, 2, 3, 5, 9, 10, 10, 11])
    out = []
    for _ in range(n):
        k = rng.choice(ATTR_NAMES)
        if bare and rng.random() < 0.4:
            out.append((k, rng.choice([BARE, EQONLY])))
        else:
            out.append((k, rand_value(rng)))
    return out


def rand_name(rng, parent=None):
    # names repeat, nest inside themselves and are prefixes / extensions of one another
    if parent is not None and rng.random() < 0.5:
        p = parent
        cands = [x for x in NAMES + EXT_NAMES if x == p or x.startswith(p) or p.startswith(x)]
        return rng.choice(cands)
    return rng.choice(NAMES if rng.random() < 0.75 else EXT_NAMES)


def rand_tree(rng, depth, budget, parent=None, attrs=True):
    n = Node(rand_name(rng, parent), rand_attrs(rng) if attrs and rng.random() < 0.5 else [])
    t = rand_text(rng)
    if t:
        n.kids.append(t)
    if depth > 1:
        for _ in range(rng.choice([0, 1, 1, 2, 2, 3, 4])):
            if budget[0] <= 0:
                break
            budget[0] -= 1
            n.kids.append(rand_tree(rng, depth - 1, budget, n.name, attrs))
            t = rand_text(rng)
            if t:
                n.kids.append(t)
    return n


def spine_tree(rng, depth, names=None):
    """a chain of `depth` nested elements with a few leaves hanging off it"""
    names = names or NAMES
    root = cur = Node(rng.choice(names))
    for _ in range(depth - 1):
        nxt = Node(rng.choice(names) if rng.random() < 0.6 else cur.name)
        kids = []
        for _ in range(rng.choice([0, 0, 1])):
            kids.append(Node(rng.choice(names), [], [t for t in [rand_text(rng)] if t]))
        kids.append(nxt)
        for _ in range(rng.choice([0, 0, 1])):
            kids.append(Node(rng.choice(names), [], [t for t in [rand_text(rng)] if t]))
        cur.kids = [k for k in kids if k != b""]
        cur = nxt
    t = rand_text(rng)
    cur.kids = [t] if t else []
    return root


def rand_preamble(rng):
    if rng.random() < 0.5:
        return []
    pool = [b'<?xml version="1.0" encoding="UTF-8"?>', b"<!DOCTYPE a>", b"<?pi?>", b"<!-- a b -->", b"<!a>", b"<?>", b"\n", b"  ", b"x"]
    return [rng.choice(pool) for _ in range(rng.randint(1, 3))]


def all_nodes(root):
    out = []

    def rec(n):
        out.append(n)
        for k in n.elems():
            rec(k)
    rec(root)
    return out


def wf_case(doc, prog, max_depth=0, **tags):
    t = dict(stream="wf")
    t.update(tags)
    return Case([f"xml {max_depth} {hx(doc)} {prog}"], t)


def selfcheck(root, doc):
    back = parse_dialect(doc)
    if back is None or back != root:
        raise AssertionError("props/c12.py: parse_dialect(render(t)) != t for " + repr(doc[:200]))


def gen_wf(rng, tier):
    cases = []
    n_rand = 5000 if tier == "quick" else 100000
    for _ in range(n_rand):
        r = rng.random()
        md = 0
        if r < 0.55:
            root = rand_tree(rng, rng.randint(1, 6), [rng.randint(1, 25)])
            kind = "tree"
        elif r < 0.75:
            d = rng.choice([2, 3, 5, 18, 19, 19, 20, 20, 21, 22, 25])
            root = spine_tree(rng, d, rng.choice([NAMES, [b"a"], [b"a", b"ab"], [b"a", b"aa", b"b"], EXT_NAMES, [b"k", b"k-id", b"k.x"]]))
            kind = "spine"
        elif r < 0.9:
            md = rng.choice([1, 2, 3, 4])
            root = rand_tree(rng, rng.randint(1, 5), [rng.randint(1, 12)])
            kind = "maxdepth"
        else:
            # long names at the limit, also nested in / extending one another
            ln = rng.choice([253, 254, 255, 256, 256, 257, 258, 300])
            c = rng.choice([b"a", b"n"])
            inner = Node(c * rng.choice([ln, ln + 1, max(1, ln - 1), 1]), [], [t for t in [rand_text(rng)] if t])
            kids = [t for t in [rand_text(rng)] if t] + [inner, Node(c * ln, [], [b"t"])]
            root = Node(c * ln, rand_attrs(rng, rng.choice([0, 1])), kids)
            if rng.random() < 0.5:
                root = Node(rng.choice(NAMES), [], [root])
            kind = "longname"
        if kind in ("tree", "maxdepth") and rng.random() < 0.15:
            # name-only attribute pieces `k` and `k=` (reported with an empty value)
            for nd in all_nodes(root):
                if rng.random() < 0.5:
                    nd.attrs = rand_attrs(rng, rng.choice([1, 2, 3, 10, 11]), bare=True)
            kind = "bare-attrs"
        pre = rand_preamble(rng)
        trailer = rng.choice([b"", b"", b"\n", b"  x"])
        doc = render_doc(root, pre, trailer)
        selfcheck(root, doc)
        r2 = rng.random()
        if r2 < 0.12:
            prog = rng.choice(["d", "d", "s", "b"])
        elif kind in ("spine", "maxdepth") and r2 < 0.22:
            prog = "D" if rng.random() < 0.5 else choose_prog(rng, root, md, (95, 2, 3, 0)).replace("d", "D")
        elif kind == "spine" and r2 < 0.7:
            prog = choose_prog(rng, root, md, (95, 2, 3, 0))   # reach the depth limit
        else:
            prog = choose_prog(rng, root, md)
        if rng.random() < 0.07:
            nodes = all_nodes(root)
            x = rng.choice(nodes)
            bad = render_doc(root, pre, trailer, unclosed=x)
            cases.append(wf_case(bad, prog, md, kind="unclosed", closed=hx(doc),
                                 unclosed_index=next(i for i, y in enumerate(nodes) if y is x)))
        else:
            cases.append(wf_case(doc, prog, md, kind=kind))
    # small scope: every tree with <= k elements over two/three names, every action assignment
    cases += small_scope(2, [b"a", b"ab", b"b"], "dbsa")
    cases += small_scope(3, [b"a", b"ab"], "dbs")
    cases += small_scope(2, [b"k", b"k-id", b"k.x", b"k_", b"k:n", b"k\xc3\xa9"], "dbs")
    cases += depth_limit_cases(rng, tier)
    if tier == "thorough":
        cases += small_scope(3, [b"a", b"ab", b"aa"], "dbsa")
        cases += small_scope(4, [b"a", b"ab"], "dbs")
    return cases


def depth_limit_cases(rng, tier):
    """options.max_depth other than the default: documents nested at limit-1, limit, limit+1, limit+10, every element
    descended into (the run is accepted iff the nesting stays below the limit; nothing beyond the limit is reported),
    and the same with the innermost reachable element read as body / skipped (accepted at the limit too)"""
    cases = []
    for md in [1, 2, 19, 20, 21, 24, 50, 1000]:
        for depth in sorted({max(1, md - 1), md, md + 1, md + 10}):
            names = rng.choice([[b"a"], [b"a", b"ab", b"b"], NAMES])
            root = spine_tree(rng, depth, names) if depth <= 60 else chain_tree(rng, depth, names)
            doc = render_doc(root)
            selfcheck(root, doc)
            cases.append(wf_case(doc, "d", md, kind="depth-limit"))
            # every callback ignores a failing traverse: the refusal must still fail the parse, nothing reported after it
            cases.append(wf_case(doc, "D", md, kind="depth-limit-ignore"))
            if depth > 2:
                cases.append(wf_case(doc, "d," + "".join("/0" for _ in range(rng.randint(1, min(depth, md + 1) - 1))) + ":D", md,
                                     kind="depth-limit-ignore"))
            # innermost element the limit lets the callback see: read as body instead of descended
            inner = "/" + "/".join(["0"] * 0)
            k = min(depth, md) - 1
            if k >= 1 and depth > 60:
                cases.append(wf_case(doc, "d," + "".join("/0" for _ in range(k)) + ":" + rng.choice("bs"), md, kind="depth-limit"))
    # the default limit via max_depth = 0 and explicitly
    for md in [0, 20]:
        for depth in [19, 20, 21, 30]:
            root = chain_tree(rng, depth, [b"a", b"ab"])
            cases.append(wf_case(render_doc(root), "d", md, kind="depth-limit"))
            cases.append(wf_case(render_doc(root), "D", md, kind="depth-limit-ignore"))
    return cases


def chain_tree(rng, depth, names):
    """exactly one element per level"""
    root = cur = Node(rng.choice(names))
    for _ in range(depth - 1):
        nxt = Node(rng.choice(names))
        cur.kids = [nxt]
        cur = nxt
    cur.kids = [b"t"]
    return root


def shapes(n):
    """all ordered forests with n nodes, as nested lists"""
    if n == 0:
        return [[]]
    out = []
    for k in range(1, n + 1):          # size of the first tree
        for first_kids in shapes(k - 1):
            for rest in shapes(n - k):
                out.append([first_kids] + rest)
    return out


def small_scope(k, names, actions):
    import itertools
    cases = []
    for n in range(1, k + 1):
        for kids in shapes(n - 1):
            shape = kids  # children forest of the root
            cnt = n
            for naming in itertools.product(names, repeat=cnt):
                it = iter(naming)

                def build(ch):
                    nd = Node(next(it))
                    sub = [build(c) for c in ch]
                    nd.kids = []
                    for s in sub:
                        nd.kids.append(s)
                    if not sub:
                        nd.kids = [nd.name]      # text equal to the name: tempts the substring search
                    return nd
                root = build(shape)
                doc = render_doc(root)
                paths = []

                def coll(nd, p):
                    paths.append(path_text(p))
                    for i, c in enumerate(nd.elems()):
                        coll(c, p + [i])
                coll(root, [])
                seen = set()
                for acts in itertools.product(actions, repeat=len(paths)):
                    amap = dict(zip(paths, acts))
                    # actions below a node that is not descended into are unobservable: keep the default there
                    def reachable(p):
                        while p != "/":
                            p = p.rsplit("/", 1)[0] or "/"
                            if amap[p] != "d":
                                return False
                        return True
                    prog = prog_text(actions[0], [(p, a) for p, a in zip(paths, acts) if a != actions[0] and reachable(p)])
                    if prog in seen:
                        continue
                    seen.add(prog)
                    cases.append(wf_case(doc, prog, 0, kind="small-scope"))
    return cases


# ----------------------------------------------------------------------------- generators: malformed stream (C04)
def rand_prog(rng):
    default = rng.choice("dddbsa" if rng.random() < 0.2 else "dddbs")
    ov = []
    for _ in range(rng.choice([0, 0, 1, 2, 4, 8])):
        depth = rng.randint(0, 4)
        p = path_text([rng.choice([0, 0, 0, 1, 1, 2, 3]) for _ in range(depth)])
        ov.append((p, rng.choice("dbsaD" if rng.random() < 0.3 else "dbs")))
    if rng.random() < 0.08:
        default = "D"
    return prog_text(default, ov)


def mutate(rng, doc):
    doc = bytearray(doc)
    for _ in range(rng.choice([1, 1, 1, 2, 3])):
        if not doc:
            break
        special = [i for i, c in enumerate(doc) if c in (b'<>/" =' if rng.random() < 0.3 else b"<>/")]
        r = rng.random()
        if r < 0.2:
            del doc[rng.randint(0, len(doc)):]                       # truncate
        elif r < 0.4 and special:
            del doc[rng.choice(special)]                             # drop a delimiter
        elif r < 0.5 and special:
            i = rng.choice(special)
            doc.insert(i, doc[i])                                    # duplicate a delimiter
        elif r < 0.6 and len(special) >= 2:
            i, j = rng.sample(special, 2)
            doc[i], doc[j] = doc[j], doc[i]                          # reorder delimiters
        elif r < 0.7:
            doc.insert(rng.randint(0, len(doc)), rng.choice(b"><>/\x00 =\"\"?!"))   # stray byte
        elif r < 0.78:
            i = rng.randint(0, len(doc) - 1)
            doc[i] = rng.choice(b"<>/\x00 a")                        # overwrite
        elif r < 0.86:
            i = rng.randint(0, len(doc))
            doc[i:i] = rng.choice([b"</a>", b"<a>", b"<a", b"</", b"<a/>", b"<a />", b"</a", b"<ab>", b"</ab>", b"<>", b"</>", b"<?", b"<!"])
        elif r < 0.93:
            # over-long name spliced into a tag
            k = rng.choice([255, 256, 257, 300])
            nm = bytes([rng.choice(b"an")]) * k
            i = rng.randint(0, len(doc))
            doc[i:i] = rng.choice([b"<" + nm + b">", b"<" + nm + b"></" + nm + b">", b"</" + nm + b">", nm])
        else:
            i = rng.randint(0, len(doc))
            j = rng.randint(i, min(len(doc), i + 12))
            doc[i:i] = doc[i:j]                                      # duplicate a slice
    return bytes(doc)


RAND_ALPHABET = b"<<<>>>//  ==\"\"??!!aaabbc\x00\n\t-x"


def malformed_cases(rng, tier):
    """C04 stream for the XML parser: [Case] with tags stream='mal'"""
    n = 10000 if tier == "quick" else 350000
    cases = []
    for _ in range(n):
        r = rng.random()
        if r < 0.6:
            if rng.random() < 0.3:
                root = spine_tree(rng, rng.choice([1, 2, 3, 19, 20, 21, 24]))
            else:
                root = rand_tree(rng, rng.randint(1, 5), [rng.randint(0, 14)])
            doc = mutate(rng, render_doc(root, rand_preamble(rng), rng.choice([b"", b"\n"])))
            kind = "mutation"
        elif r < 0.9:
            doc = bytes(rng.choice(RAND_ALPHABET) for _ in range(rng.choice([0, 1, 2, 3, 4, 5, 6, 8, 12, 20, 40, 80])))
            kind = "random"
        else:
            doc = bytes(rng.randrange(256) for _ in range(rng.randint(0, 64)))
            kind = "uniform"
        md = rng.choice([0, 0, 0, 1, 2, 3])
        cases.append(Case([f"xml {md} {hx(doc)} {rand_prog(rng)}"], dict(stream="mal", kind=kind)))
    # boundary documents, each with every constant program
    for d in [b"", b"<", b">", b"<>", b"</", b"</>", b"<a", b"<a>", b"<a/>", b"<a/", b"<?", b"<?>", b"<!", b"<!>", b"<?><", b"<?>< ",
              b"<a></a", b"<a><", b"<a></", b"<a><b", b"<a></a>", b"<a>>", b"<<a>>", b"< >", b"<  >", b"<a =>", b"<a ==>", b"<a =\">",
              b"<a \">", b'<a k=">', b'<a k="">', b'<a k=""">', b'<a k="v"">', b'<a k=""v">', b'<a k=""v"">', b'<a "k"="v">', b'<a k=\'v\'>',
              b'<a k= >', b'<a  k="v">', b'<a k="v" >', b'<a k="v"  j="w">', b'<a k=">x</a>', b'<a k="v"">x</a>', b'<a "">x</a>', b'<a k=""" j="""">x</a>',
              b"<a>x>y<b></b></a>", b"<a><ab>x</ab></a>", b"<a/><b>", b"\x00", b"<\x00>", b"<a\x00></a\x00>"]:
        for p in "dbsa":
            cases.append(Case([f"xml 0 {hx(d)} {p}"], dict(stream="mal", kind="boundary")))
    return cases


def big_cases(rng, tier):
    """same-name nesting far beyond the depth limit inside an element that is skipped / read as body (the depth limit
    only bounds what the callback descends into; the closing-tag search counts every nested opening), and one document
    with more than 4 GiB of text in front of a child (offsets beyond 32 bits)"""
    cases = []
    ns = [0, 1, 19, 20, 21, 254, 255, 256, 257, 258, 300, 511, 512, 513, 1000, 4095, 4096, 4097]
    ns += [8191, 8192, 8193, 16384]
    for n in ns:
        for mode in "sb":
            nm = rng.choice([b"a", b"ab", b"Item"]) if n < 5000 else b"a"
            cases.append(Case([f"xmlnest {n} {hx(nm)} {mode}"], dict(stream="wf", kind="deep-same-name")))
    if tier == "thorough":
        # a 16-bit counter: the search is quadratic in the nesting (about 75 s for this one case under ASan)
        cases.append(Case([f"xmlnest 65536 {hx(b'a')} s"], dict(stream="wf", kind="deep-same-name")))
    cases.append(Case(["xmlhuge 4"], dict(stream="wf", kind="huge")))
    cases.append(Case(["xmlhuge 2048"], dict(stream="wf", kind="huge")))
    return cases


def gen_cases(rng, tier):
    return big_cases(rng, tier) + gen_wf(rng, tier) + malformed_cases(rng, tier)


# ----------------------------------------------------------------------------- oracle
def _parse_op(line):
    t = line.split()
    if len(t) != 4 or t[0] != "xml":
        return None
    try:
        doc = b"" if t[2] == "-" else bytes.fromhex(t[2])
        return int(t[1]), doc, t[3]
    except ValueError:
        return None


def _op(case):
    """the single op of a generated case (corpus files and minimised replays may hold several)"""
    if len(case.ops) != 1:
        return None
    return _parse_op(case.ops[0])


def _segments(case, lines):
    """[(op, lines of that op)]: an op's output ends with its `P rc` line (two runs for an empty document)"""
    out, i = [], 0
    for o in case.ops:
        op = _parse_op(o)
        if op is None:
            i += 1          # `bad-op`
            continue
        want = 2 if len(op[1]) == 0 else 1
        j, seen = i, 0
        while j < len(lines) and seen < want:
            if lines[j].startswith("P rc "):
                seen += 1
            j += 1
        out.append((op, lines[i:j]))
        i = j
    if i < len(lines):
        out.append((None, lines[i:]))
    return out


def safety_errors(lines, doc_empty):
    """what C04 demands of any run, on the implementation's output alone"""
    errs = []
    for l in lines:
        if l.startswith("P MONITOR"):
            errs.append("harness monitor: " + l)
        elif not l.startswith(("P ", "W ")):
            errs.append("unexpected text in the implementation's output (sanitizer?): " + l[:200])
    rcs = [l for l in lines if l.startswith("P rc ")]
    want = 2 if doc_empty else 1
    if len(rcs) != want:
        errs.append(f"{len(rcs)} result lines, expected {want} (did not run to completion?)")
    for l in rcs:
        if l != "P rc OK" and not l.startswith("P rc ERR AWS_ERROR_") or l == "P rc ERR AWS_ERROR_SUCCESS":
            errs.append("failure without a registered error code: " + l)
    return errs


BIG_OPS = ("xmlnest", "xmlhuge")


def oracle(case, lines):
    if len(case.ops) == 1 and case.ops[0].split()[0] in BIG_OPS:
        # parametrised large documents: harness/xml.c compares the callbacks with the generating parameters itself
        op = case.ops[0].split()[0]
        errs = [f"{case.ops[0][:60]}: " + l for l in lines if l.startswith("P MONITOR") or not l.startswith(("P ", "W "))]
        if not errs and lines != [f"P {op} ok"]:
            errs.append(f"{case.ops[0][:60]}: unexpected output {lines[:3]}")
        return errs
    errs = []
    for op, seg in _segments(case, lines):
        if op is None:
            errs.append("output not attributable to an op: " + " | ".join(seg[:3]))
            continue
        errs += oracle_op(op, seg, case.tags or {})
    return errs


def oracle_op(op, lines, tags):
    md, doc, prog = op
    errs = safety_errors(lines, len(doc) == 0)
    if errs:
        return errs
    plines = [l for l in lines if l.startswith("P ")]
    if tags.get("kind") == "unclosed" and "closed" in tags:
        closed = bytes.fromhex(tags["closed"]) if tags["closed"] != "-" else b""
        root = parse_dialect(closed)
        if root is None:
            return ["props/c12.py: closed twin of an unclosed case does not parse"]
        x = all_nodes(root)[tags["unclosed_index"]]
        exp, reached = expected(root, prog, md, watch=x)
        if exp is None:
            return []
        ok = plines[-1] == "P rc OK"
        if (reached or exp[-1] != "P rc OK") and ok:
            return ["document lacking the closing tag of a reached element (or over a limit) was accepted: " + plines[-1]]
        if ok and plines != exp:
            return [_first_diff("unclosed element inside a skipped subtree, run accepted", plines, exp)]
        return []
    root = parse_dialect(doc)
    if root is None:
        if tags.get("stream") == "wf":
            return ["props/c12.py: well-formed case does not parse in the reference reader"]
        return []
    exp, _ = expected(root, prog, md)
    if exp is None:
        return []
    if plines != exp:
        return [_first_diff("well-formed document mis-reported", plines, exp)]
    return []


def _first_diff(what, got, exp):
    for i in range(max(len(got), len(exp))):
        g = got[i] if i < len(got) else "<missing>"
        e = exp[i] if i < len(exp) else "<missing>"
        if g != e:
            return f"{what}: line {i}: implementation `{g}` expected from the tree `{e}`"
    return what


def nontrivial(case):
    if case.ops and case.ops[0].split()[0] in BIG_OPS:
        return True
    op = _op(case)
    if op is None:
        return False
    return op[1].count(b"<") >= 2


def distribution(cases, c_out):
    d = {"wf": 0, "mal": 0, "corpus": 0, "rc_ok": 0, "rc_err": 0, "callbacks": 0, "bodies": 0, "max_depth_seen": 0,
         "kinds": {}, "errors": {}, "nulldoc_runs": 0, "doc_bytes_max": 0}
    for i, c in enumerate(cases):
        t = c.tags or {}
        d[t.get("stream", "corpus")] = d.get(t.get("stream", "corpus"), 0) + 1
        k = t.get("kind", "corpus")
        d["kinds"][k] = d["kinds"].get(k, 0) + 1
        op = _op(c)
        if op:
            d["doc_bytes_max"] = max(d["doc_bytes_max"], len(op[1]))
        for l in c_out.get(i, []):
            if l == "P rc OK":
                d["rc_ok"] += 1
            elif l.startswith("P rc ERR"):
                d["rc_err"] += 1
                e = l.split()[-1]
                d["errors"][e] = d["errors"].get(e, 0) + 1
            elif l.startswith("P node"):
                d["callbacks"] += 1
                d["max_depth_seen"] = max(d["max_depth_seen"], int(l.split()[2][2:]))
            elif l.startswith("P body"):
                d["bodies"] += 1
            elif l.startswith("W nulldoc"):
                d["nulldoc_runs"] += 1
    return d


def threads_stage(ctx):
    """4 threads parse independent documents concurrently; xml_parser.c and byte_buf.c are compiled with TSan for it"""
    import subprocess, time
    tsan = ["-fsanitize=thread", "-DUSE_SIMD_ENCODING"]
    try:
        exe = cbuild.build_harness(
            name="xml_threads", flavour="plain",
            extra_srcs=[(os.path.join(cbuild.REPO, "source", "xml_parser.c"), tsan, "xml_parser_tsan"),
                        (os.path.join(cbuild.REPO, "source", "byte_buf.c"), tsan, "byte_buf_tsan")],
            extra_cflags=["-fsanitize=thread"], ldflags=["-fsanitize=thread"])
    except cbuild.BuildError as e:
        ctx.machinery_broken("threads stage build: " + str(e)[:1500])
        return
    its = 10000 if ctx.tier == "quick" else 200000
    env = dict(os.environ, TSAN_OPTIONS="halt_on_error=1:exitcode=66:second_deadlock_stack=0")
    t0 = time.time()
    try:
        r = subprocess.run([exe, str(its)], stdout=subprocess.PIPE, stderr=subprocess.STDOUT, text=True, timeout=300, env=env)
        rc, out = r.returncode, r.stdout
    except subprocess.TimeoutExpired as e:
        rc, out = -999, (e.stdout or "") + "\n[timeout]"
    ctx.cov["threads_stage"] = {"threads": 4, "parses": 4 * its, "rc": rc, "wall_s": round(time.time() - t0, 2)}
    ctx.cov["evaluations"] += 1
    if "FATAL: ThreadSanitizer" in out:
        # the sanitizer runtime could not start in this environment (address-space layout): not a verdict about the code
        ctx.cov["threads_stage"]["skipped"] = "ThreadSanitizer runtime could not start: " + out.strip().splitlines()[0][:200]
        return
    if rc != 0 or f"P threads ok {4 * its}" not in out:
        what = "data race reported by ThreadSanitizer" if "ThreadSanitizer" in out else "mis-report / failure"
        ctx.violation(f"threads-{ctx.seed}", {"stage": "threads", "cmd": f"{exe} {its}", "rc": rc, "observed": out[-3000:]},
                      f"independent documents parsed concurrently on 4 threads: {what} ("
                      + next((l for l in out.splitlines() if "MONITOR" in l or "data race" in l), "rc=%d" % rc)[:200] + ")")


def extra_stages(ctx):
    """the threads stage; and make a failure of the Lean stage visible also when the oracle has already found concrete
    violations (core.finish only turns it into a VIOLATION line of its own when there is none)"""
    if not ctx.replay:
        threads_stage(ctx)
    if ctx.lean_ok is False and ctx.violations:
        first = (ctx.lean_err or "lean stage failed").strip().splitlines()[0]
        print("  lean stage: proof obligations no longer check against the current source: " + first[:300])


MANIFEST = dict(
    category="proof",
    design_ref="5.12",
    text=("Lean 4 model of xml_parser.c (+ the byte-cursor helpers it calls) over a checked memory: every ptr[i], *(p+1), "
          "memchr, memcmp and memcpy of the code is a read that faults outside the document block; callbacks are programs "
          "node path -> {descend, body, skip, abort}. Proved for all documents (<= SIZE_MAX/2 bytes) and all programs: no "
          "out-of-bounds read (c04_xml_no_oob), every loop ends within |doc|+1 iterations (c04_xml_total), every view handed "
          "to a callback lies inside the document (c04_xml_views_inside), depth / attribute / name-length limits and missing "
          "closing tags make the run fail (c12_limits_rejected). Proved for every element tree of the dialect (names that "
          "repeat, nest and extend one another, any depth, preamble, trailer) and every program: the parse of the rendered "
          "tree reports exactly the pre-order events of the reached elements with exact names, attributes and bodies and fails "
          "exactly at the limits (c12_events; heart: c12_closing_tag_search). Tied to /repo by running the compiled model "
          "against the parser rebuilt from the working tree under ASan/UBSan on rendered trees with every per-node action "
          "(direct oracle = the tree) and on mutated / random documents (views monitored, exact-size blocks, NULL/0)."),
    note=("Trusted: Lean kernel; hand-written model Model/Xml.lean (tied by correspondence only); harness/xml.c; Python reference "
          "reader of the dialect (props/c12.py). Callbacks propagate return codes. Attribute values may contain '=' (the parser "
          "splits a piece at its first '=' only, /repo 0df3cf8)."),
    technique="Lean 4 invariants and structural induction over a faulting-memory model + model/implementation differential run + tree oracle",
)
