"""C17 — memory tracer's byte and allocation counts equal what is live (source/memtrace.c)."""
import os, zlib
from lib.core import Case
from lib import cbuild, core

ID = "C17"
LEAN_MODULES = ["AwsVerif.Props.C17"]
COMPONENT = "memtrace"
_H = os.path.join(cbuild.VERIF, "harness")
HARNESS = dict(
    name="memtrace", flavour="asan",
    # memtrace.c compiled from /repo with every atomic access and every lock/unlock of the tracer's mutex a
    # schedule point, and its bookkeeping allocator (aws_default_allocator()) replaced by a counting pass-through
    extra_srcs=[(os.path.join(cbuild.REPO, "source", "memtrace.c"),
                 ["-include", os.path.join(_H, "memtrace_hooks.h")], "memtrace_hooked")],
)
# second flavour: the platform variant without <execinfo.h> (aws_backtrace() returns 0): source/posix/system_info.c
# compiled from /repo with AWS_HAVE_EXECINFO undefined takes the place of the library's object
HARNESS_NOBT = dict(HARNESS, extra_srcs=HARNESS["extra_srcs"] + [
    (os.path.join(cbuild.REPO, "source", "posix", "system_info.c"), ["-include", os.path.join(_H, "memtrace_nobt.h")], "system_info_nobt")])
TIMEOUT = 300
# aws_mem_realloc's emulation path calls memcpy(newptr, NULL, 0) for a NULL *ptr: a recoverable UBSan
# report (nonnull) that would otherwise be printed into the compared stream
C_ENV = {"UBSAN_OPTIONS": "print_stacktrace=1:suppressions=" + os.path.join(_H, "memtrace_ubsan.supp")}
CFGS = {"full": (True, True), "norealloc": (False, True), "nocalloc": (True, False), "minimal": (False, False)}
TRUSTED = ["gen/memtrace_gen.py: level / frames clamp of s_alloc_tracer_init and the enum values, regenerated from /repo each run",
           "hand model lean/AwsVerif/Model/MemTrace.lean (tied by this correspondence run only)",
           "harness/memtrace_hooks.h + verif_atomics.h: force-included macros turning the tracer's atomics and mutex calls into schedule points",
           "harness parent allocator (addresses on command, LIFO reuse, ASan poisoning of slack)",
           "hash table (C02), priority queue (C06), backtrace capture and log formatting are not modelled"]
ASSUMPTIONS = ["atomics sequentially consistent; the mutex excludes",
               "client contract: a block is released / reallocated only by the caller it was returned to, once, after the call that returned it completed",
               "wrapped allocator contract: returns a non-NULL address that is not live; realloc keeps min(old,new) bytes; calloc zeros",
               "sums are taken mod 2^64 (the counter is a size_t); with real memory the sum of live sizes is < 2^64",
               "realloc to size 0 never reaches the tracer (aws_mem_realloc turns it into a release)"]
RULE = ("op histories over one tracer (levels none/bytes/stacks, frames 0/1/8/128/200, wrapped allocator with/without mem_realloc and mem_calloc): acq/calloc/realloc(keep|move, grow|shrink|same|0|from NULL)/"
        "rel/fill/dump/bytes/count/destroy, some operations with another complete operation injected at a schedule point of the tracer; "
        "non-trivial = at least 3 tracked allocations and one realloc or release at a tracing level")
NOT_PROVED = []



def regen(ctx):
    """level / frames clamp of s_alloc_tracer_init and the enum values, regenerated from /repo on every run"""
    from gen import memtrace_gen
    try:
        text = memtrace_gen.generate(cbuild.REPO)
    except memtrace_gen.GenError as e:
        raise core.GenError(str(e))
    core.write_if_changed(os.path.join(core.LEAN, "AwsVerif", "Gen", "MemTraceInit.lean"), text)
    # a replay of a case written for the no-backtrace platform runs on that flavour of the harness
    if ctx.replay:
        try:
            import json
            if any(o.startswith("new ") and o.endswith(" nobt") for o in (json.load(open(ctx.replay)).get("ops") or [])):
                global HARNESS
                HARNESS = HARNESS_NOBT
        except (OSError, ValueError):
            pass


M64 = 1 << 64
BIG = 1048576
SMALL_CAP = 1024
JUNK = 0xCD


def _size_tok(s):
    if s.startswith("MAX"):
        base, r = M64 - 1, s[3:]
    elif s.startswith("HALF"):
        base, r = (M64 - 1) // 2, s[4:]
    else:
        return int(s)
    if not r:
        return base
    return base + int(r[1:]) if r[0] == "+" else base - int(r[1:])


def _rsize(rng):
    r = rng.random()
    if r < 0.12:
        return rng.choice([1, 2, 7, 8, 63, 64, 1023, 1024, 1025])
    if r < 0.6:
        return rng.randint(1, 96)
    if r < 0.9:
        return rng.randint(1, 1500)
    return rng.randint(1000, 5000)


class _Gen:
    def __init__(self, rng, boundary=False):
        self.rng, self.boundary = rng, boundary
        self.live = {}     # id -> size
        self.nfake = 0
        self.next_id = 0
        self.ops = []
        self.cfg = "full"
        self.nobt = False
        self.unbacked = set()
        self.tags = {"levels": [], "inject": 0, "realloc": 0, "cfgs": []}

    def fresh_id(self):
        rng = self.rng
        free = [i for i in range(self.next_id) if f"p{i}" not in self.live]
        if free and rng.random() < 0.5:
            return f"p{rng.choice(free)}"
        self.next_id += 1
        return f"p{self.next_id - 1}"

    def size(self):
        rng = self.rng
        if self.boundary and rng.random() < 0.35 and self.nfake < 40:
            return rng.choice(["1048576", "1048577", "HALF", "HALF+1", "HALF+2", "MAX", "MAX-1", "MAX-7", "2097152",
                               "4294967296", "4294967301", "8589934592", "4294967295"])
        return str(_rsize(rng))

    def alloc_op(self, exclude=()):
        """one random tracer call; returns (text, id-or-None) and updates the bookkeeping"""
        rng = self.rng
        live = [i for i in self.live if i not in exclude]
        r = rng.random()
        if r < 0.30 or not live:
            i = self.fresh_id()
            if i in exclude:
                return "count", None
            if rng.random() < 0.6:
                s = self.size()
                self._set(i, _size_tok(s))
                return f"acq {i} {s}", i
            n, s = rng.choice([1, 1, 2, 3, 4, 16]), _rsize(rng) % 700 + 1
            if self.boundary and CFGS[self.cfg][1] and self.nfake < 40 and rng.random() < 0.2:
                n, s = rng.choice([(65536, 65537), (3, 2147483648), (2, 4294967296), (4294967297, 3), (1, 4294967296), (1 << 20, 1 << 20)])
            self._set(i, n * s)
            return f"calloc {i} {n} {s}", i
        if r < 0.58:
            i = rng.choice(live) if rng.random() < 0.93 else self.fresh_id()
            if i in exclude:
                return "bytes", None
            old = self.live.get(i, 0)
            q = rng.random()
            if q < 0.08:
                s = "0"
            elif q < 0.2:
                s = str(old) if old else self.size()
            elif q < 0.55:
                s = str(old + rng.randint(1, 600)) if old < BIG else self.size()
            elif q < 0.85 and old > 1:
                s = str(rng.randint(1, old - 1)) if old < BIG else self.size()
            else:
                s = self.size()
            was_unbacked = i in self.unbacked
            if not CFGS[self.cfg][0]:
                # the emulation memcpy/memsets real memory: never grow from or into an unbacked block there
                # (a block shrunk in place by the emulation stays the unbacked block it was), and never ask
                # realloc for an unbacked size at all (the id may be NULL if an injection was not reached)
                if was_unbacked and _size_tok(s) > 0:
                    s = str(rng.randint(1, max(1, min(old, 3000))))     # shrink only
                elif _size_tok(s) > BIG:
                    s = str(old + rng.randint(1, 3000)) if old + 3000 <= BIG else str(max(1, old - 5))
            self._drop(i)
            if _size_tok(s) != 0:
                self._set(i, _size_tok(s))
                if was_unbacked and not CFGS[self.cfg][0]:
                    self.unbacked.add(i)
            self.tags["realloc"] += 1
            return f"realloc {i} {s} {rng.choice(['keep', 'move'])}", i
        if r < 0.86:
            i = rng.choice(live) if rng.random() < 0.95 else self.fresh_id()
            if i in exclude:
                return "count", None
            self._drop(i)
            return f"rel {i}", i
        return rng.choice(["dump", "bytes", "count", "dump"]), None

    def _set(self, i, sz):
        self.live[i] = sz
        if sz > BIG:
            self.nfake += 1
            self.unbacked.add(i)

    def _drop(self, i):
        self.unbacked.discard(i)
        if self.live.get(i, 0) > BIG:
            self.nfake -= 1
        self.live.pop(i, None)

    def tracer(self, nops):
        rng = self.rng
        lvl = rng.choice(["none", "bytes", "bytes", "bytes", "stacks", "stacks", "stacks"])
        frames = rng.choice([0, 1, 8, 128, 200])
        self.cfg = rng.choice(["full", "full", "full", "norealloc", "norealloc", "minimal", "minimal", "nocalloc"])
        self.tags["levels"].append(lvl)
        self.tags["cfgs"].append(self.cfg)
        self.ops.append(f"new {lvl} {frames}" + ("" if self.cfg == "full" and rng.random() < 0.5 and not self.nobt else f" {self.cfg}") +
                        (" nobt" if self.nobt else ""))
        if lvl == "stacks" and rng.random() < 0.3:
            self.ops.append(f"depth {rng.choice([1, 5, 140, 210])}")
        for _ in range(nops):
            if rng.random() < 0.18:
                # the next operation gets another complete operation injected at one of its schedule points
                save = (dict(self.live), self.nfake, self.next_id, set(self.unbacked))
                main, mid = self.alloc_op()
                self.live, self.nfake, self.next_id, self.unbacked = save
                # bookkeeping order: the injected operation completes first or in the middle; ids are disjoint,
                # so the final live set does not depend on where it lands
                excl = {mid} if mid else set()
                emu = not CFGS[self.cfg][0]
                if emu:     # an injection may stay unreached: on the emulated path it must not decide what is backed
                    excl |= self.unbacked
                savb, self.boundary = self.boundary, self.boundary and not emu
                inj, _ = self.alloc_op(exclude=excl | {f"p{self.next_id}"})
                self.boundary = savb
                # re-apply the main operation's effect
                self._apply(main)
                if mid:
                    self.next_id = max(self.next_id, int(mid[1:]) + 1)
                kind, n = self.point(main, lvl)
                self.ops.append(f"inject {kind} {n} {inj}")
                self.ops.append(main)
                self.tags["inject"] += 1
            else:
                op, i = self.alloc_op()
                if lvl != "none" and op.startswith(("acq", "calloc", "realloc")) and rng.random() < 0.07:
                    # the tracer's timestamp read fails for the next allocation(s): no reason to lose the record
                    self.ops.append(f"clock_fail {rng.choice([1, 1, 1, 2, 3])}")
                    self.tags["clock_fail"] = self.tags.get("clock_fail", 0) + 1
                self.ops.append(op)
                if i and i in self.live and self.live[i] <= 8192 and rng.random() < 0.5:
                    self.ops.append(f"fill {i} {rng.randint(0, 255)}")
        if rng.random() < 0.5:
            for i in list(self.live):
                if rng.random() < 0.8:
                    self.ops.append(f"rel {i}")
                    self._drop(i)
            self.ops.append(rng.choice(["dump", "bytes"]))
        if rng.random() < 0.9:
            self.ops.append("destroy")
            self.live.clear()
            self.nfake = 0
            return True
        return False

    def point(self, main, lvl):
        """a schedule point that exists inside `main` at this level (mostly), or any point"""
        rng = self.rng
        anyp = [("RMW", 1), ("RMW", 2), ("LOCK", 1), ("LOCK", 2), ("LOCK", 3), ("UNLOCK", 1), ("UNLOCK", 2), ("UNLOCK", 3),
                ("LOAD", 1), ("LOAD", 2)]
        if rng.random() < 0.12 or lvl == "none":
            return rng.choice(anyp)
        t = main.split()
        trk = [("RMW", 1), ("LOCK", 1), ("UNLOCK", 1)] + ([("LOCK", 2), ("UNLOCK", 2)] if lvl == "stacks" else [])
        if t[0] in ("acq", "calloc"):
            return rng.choice(trk)
        if t[0] == "rel" or (t[0] == "realloc" and t[2] == "0"):
            return rng.choice([("LOCK", 1), ("UNLOCK", 1)])
        if t[0] == "realloc":
            return rng.choice([("LOCK", 1), ("UNLOCK", 1), ("UNLOCK", 1), ("RMW", 1), ("LOCK", 2), ("UNLOCK", 2)] +
                              ([("LOCK", 3), ("UNLOCK", 3)] if lvl == "stacks" else []))
        if t[0] == "count":
            return rng.choice([("LOCK", 1), ("UNLOCK", 1)])
        if t[0] == "bytes":
            return ("LOAD", 1)
        return rng.choice([("LOAD", 1), ("LOCK", 1), ("UNLOCK", 1)])

    def _apply(self, op):
        t = op.split()
        if t[0] == "acq":
            self._set(t[1], _size_tok(t[2]))
        elif t[0] == "calloc":
            self._set(t[1], int(t[2]) * int(t[3]))
        elif t[0] == "realloc":
            was_unbacked = t[1] in self.unbacked
            self._drop(t[1])
            if _size_tok(t[2]) != 0:
                self._set(t[1], _size_tok(t[2]))
                if was_unbacked and not CFGS[self.cfg][0]:
                    self.unbacked.add(t[1])
        elif t[0] == "rel":
            self._drop(t[1])


def gen_case(rng, maxops, boundary=False, nobt=False):
    g = _Gen(rng, boundary)
    g.nobt = nobt
    if g.tracer(rng.randint(1, maxops)) and rng.random() < 0.25:
        g.next_id = 0
        g.tracer(rng.randint(1, maxops // 2 + 1))
    g.tags["boundary"] = boundary
    g.tags["nobt"] = nobt
    return Case(g.ops, g.tags)


def big_case(rng, lvl, cfg, n=1100):
    """more live allocations than the tracer's table has slots at first (1024): the table grows (rehash), probe
    sequences get long, removals shift entries back"""
    ops = [f"new {lvl} {rng.choice([0, 1, 8])} {cfg}"]
    live = {}
    for i in range(n):
        sz = rng.randint(1, 48)
        ops.append(f"acq p{i} {sz}" if rng.random() < 0.8 else f"calloc p{i} 1 {sz}")
        live[i] = sz
        if i in (900, 1000, n - 1):
            ops.append("dump")
        # around the table's growth threshold (0.95 x 1024, x 2048) and its exact capacity every population size sees a removal
        band = any(0.93 * c <= len(live) <= 1.02 * c for c in (1024, 2048))
        if live and (band or rng.random() < 0.1):
            k = rng.choice(list(live))
            if band:        # a removal at this population size, and the block comes straight back: the population keeps growing
                ops.append(f"rel p{k}")
                ops.append(f"acq p{k} {live[k]}")
            elif rng.random() < 0.5:
                ops.append(f"rel p{k}")
                del live[k]
            else:
                live[k] = rng.randint(1, 64)
                ops.append(f"realloc p{k} {live[k]} {rng.choice(['keep', 'move'])}")
    assert len(live) > (1030 if n < 2000 else 1950), "big_case must outgrow the tracer's table"
    ks = list(live)
    rng.shuffle(ks)
    for k in ks[:len(ks) // 2]:
        ops.append(f"rel p{k}")
        del live[k]
    ops.append("dump")
    for i in range(n, n + 200):
        ops.append(f"acq p{i} {rng.randint(1, 48)}")
        live[i] = 1
    ops.append("count")
    ks = list(live)
    rng.shuffle(ks)
    for k in ks:
        ops.append(f"rel p{k}")
    ops += ["dump", "destroy"]
    return Case(ops, {"levels": [lvl], "cfgs": [cfg], "big": True, "inject": 0, "realloc": 1})


def nobt_cases(rng, tier):
    """cases for the platform variant where aws_backtrace() is unavailable: the level matrix and random histories"""
    cases = []
    for lvl in ("none", "bytes", "stacks"):
        for frames in (0, 1, 8, 128, 200):
            for cfg in CFGS:
                cases.append(Case([f"new {lvl} {frames} {cfg} nobt", "acq p0 40", "calloc p1 3 5", "realloc p0 90 keep",
                                   "realloc p1 4 move", "dump", "count", "inject LOCK 1 acq p2 7", "realloc p0 10 move", "rel p1",
                                   "bytes", "rel p0", "rel p2", "dump", "destroy"],
                                  {"levels": [lvl], "cfgs": [cfg], "nobt": True, "inject": 1, "realloc": 3, "matrix": True}))
    cases.append(Case(["new bytes 8 full nobt", "new bytes 8 full nobt", "acq p0 3", "destroy", "new stacks 8 sideways nobt", "new none 200 minimal nobt",
                       "acq p0 3", "destroy"],
                      {"levels": ["bytes"], "nobt": True, "malformed": True, "inject": 0, "realloc": 0}))
    cases += [gen_case(rng, 35, nobt=True) for _ in range(250 if tier == "quick" else 4000)]
    return cases


MALFORMED = [
    ["clock_fail 2", "new bytes 8", "clock_fail 1", "acq p0 5", "clock_fail x", "calloc p1 2 2", "realloc p0 9 move", "rel p0", "rel p1", "bytes", "destroy"],
    ["new bytes 8 sideways", "new bytes 8 minimal extra", "new none 8 nocalloc", "calloc p0 2 2", "realloc p0 9 keep", "destroy"],
    ["acq p1 5"],                                    # no tracer
    ["new bytes 8", "new bytes 8", "destroy", "destroy"],
    ["new stacks 8", "acq p1 0", "calloc p2 0 4", "calloc p3 4 0", "calloc p4 MAX 2", "acq p5 9", "acq p5 9", "frob p1", "rel", "destroy"],
    ["new weird 8", "dump"],
    ["new bytes 8", "inject FOO 1 count", "inject LOCK 1 frob", "inject LOCK 1 acq p1 0", "acq p2 5", "fill p9 3", "destroy"],
]


def exhaustive_cases(level, cfg="full"):
    """every history of length 3 over two ids from a small alphabet (incl. NULL and zero-size reallocs)"""
    alpha = ["acq p0 5", "calloc p1 2 3", "realloc p0 9 keep", "realloc p0 2000 keep", "realloc p0 3 move", "realloc p1 0 move", "realloc p1 4 move",
             "rel p0", "rel p1", "dump"]
    out = []
    for a in alpha:
        for b in alpha:
            for c in alpha:
                out.append(Case([f"new {level} 8 {cfg}", a, b, c, "destroy"],
                                {"levels": [level], "cfgs": [cfg], "exhaustive": True, "inject": 0, "realloc": 1}))
    return out


def injection_sweep(level, cfg="full"):
    """every (main op, schedule point, injected op) over a fixed prefix"""
    mains = ["acq p5 40", "calloc p5 2 9", "realloc p0 300 keep", "realloc p0 3000 move", "realloc p0 60 keep", "realloc p0 0 keep", "realloc p7 12 move",
             "rel p0", "rel p7", "dump", "count", "bytes"]
    injs = ["acq p6 11", "rel p1", "realloc p1 77 move", "count", "dump", "calloc p6 3 3"]
    pts = [("RMW", 1), ("RMW", 2), ("LOCK", 1), ("LOCK", 2), ("LOCK", 3), ("UNLOCK", 1), ("UNLOCK", 2), ("UNLOCK", 3), ("LOAD", 1), ("LOAD", 2)]
    out = []
    for m in mains:
        for (k, n) in pts:
            ops = [f"new {level} 8 {cfg}", "acq p0 100", "fill p0 9", "acq p1 50"]
            for j in injs:
                ops += [f"inject {k} {n} {j}", m, "dump"]
                # restore the prefix state for the next triple
                ops += ["rel p5", "rel p6", "rel p7", "rel p0", "rel p1", "acq p0 100", "fill p0 9", "acq p1 50"]
            ops.append("destroy")
            out.append(Case(ops, {"levels": [level], "cfgs": [cfg], "inject": len(injs), "realloc": 1, "sweep": True}))
    return out


def gen_cases(rng, tier):
    n = 1200 if tier == "quick" else 30000
    cases = [Case(m, {"malformed": True, "levels": [], "inject": 0, "realloc": 0}) for m in MALFORMED]
    cases += [gen_case(rng, 45) for _ in range(n)]
    cases += [gen_case(rng, 30, boundary=True) for _ in range(n // 6)]
    for lvl in ("bytes", "stacks", "none"):
        cases += injection_sweep(lvl)
    cases += injection_sweep("bytes", "minimal") + injection_sweep("stacks", "norealloc")
    cases += exhaustive_cases("bytes") + exhaustive_cases("bytes", "minimal")
    # the second one also fills the once-grown table (2048 slots) up to its own threshold: long probe sequences there
    cases += [big_case(rng, "bytes", "full"), big_case(rng, "stacks", rng.choice(["full", "minimal"]), 2100)]
    if tier == "thorough":
        cases += [big_case(rng, rng.choice(["bytes", "stacks"]), rng.choice(list(CFGS)), rng.choice([1100, 2100])) for _ in range(10)]
    if tier == "thorough":
        for cfg in CFGS:
            cases += exhaustive_cases("stacks", cfg) + exhaustive_cases("none", cfg)
        cases += exhaustive_cases("bytes", "norealloc") + exhaustive_cases("bytes", "nocalloc")
    return cases


# ------------------------------------------------------------------ direct oracle (no model involved)
def _digest(bs):
    return zlib.adler32(bytes(bs)) & 0xffffffff


class _Ref:
    """reference bookkeeping: live set with requested sizes and the bytes the client must see"""

    def __init__(self, level, cfg="full"):
        self.level = level
        self.has_realloc, self.has_calloc = CFGS[cfg]
        self.live = {}   # id -> [size, data-bytearray | None]

    def total(self):
        return (0, 0) if self.level == "none" else (sum(v[0] for v in self.live.values()) % M64, len(self.live))

    @staticmethod
    def data(sz, pre, fillb):
        if sz > BIG:
            return None
        pre = pre or b""
        return bytearray(pre[:sz]) + bytearray([fillb]) * (sz - min(sz, len(pre)))

    def refused(self, t):
        if t[0] == "acq":
            return _size_tok(t[2]) == 0 or t[1] in self.live
        if t[0] == "calloc":
            n, s = _size_tok(t[2]), _size_tok(t[3])
            return n == 0 or s == 0 or n * s >= M64 or t[1] in self.live
        return False

    def apply(self, t):
        """returns the id whose block line follows (or None)"""
        if t[0] == "acq":
            sz = _size_tok(t[2])
            self.live[t[1]] = [sz, self.data(sz, b"", JUNK)]
            return t[1]
        if t[0] == "calloc":
            sz = _size_tok(t[2]) * _size_tok(t[3])
            self.live[t[1]] = [sz, self.data(sz, b"", 0)]
            return t[1]
        if t[0] == "realloc":
            new = _size_tok(t[2])
            old = self.live.pop(t[1], None)
            if new == 0:
                return t[1]
            if old is None:
                # realloc(NULL): a native realloc acquires (junk); the emulation zero-fills what it did not copy
                self.live[t[1]] = [new, self.data(new, b"", JUNK if self.has_realloc else 0)]
            else:
                # contents: first min(old,new) bytes kept whenever both blocks are backed.  A block that
                # stays in place keeps its (un)backed nature; that is the parent's business (not checked here)
                self.live[t[1]] = [new, ("same-or-moved", old)]
            return t[1]
        if t[0] == "rel":
            self.live.pop(t[1], None)
        return None


def _kv(line):
    d = {}
    for tok in line.split():
        if "=" in tok:
            k, v = tok.split("=", 1)
            d[k] = v
    return d


def oracle(case, lines):
    errs = []
    ref = None
    li = 0

    def nxt():
        nonlocal li
        l = lines[li] if li < len(lines) else None
        li += 1
        return l

    def peek():
        return lines[li] if li < len(lines) else None

    def check_stat(l, what, allowed=None):
        if l is None or " bytes=" not in l:
            errs.append(f"{what}: expected a bytes/count line, got {l!r}")
            return
        d = _kv(l)
        got = (int(d["bytes"]), int(d["count"]))
        want = allowed if allowed is not None else [ref.total()]
        if got not in want:
            errs.append(f"{what}: tracer reports bytes={got[0]} count={got[1]}, live set says {want}")

    def check_blk(l, i, what, keep_hint=None):
        if l is None or " blk " not in l:
            errs.append(f"{what}: expected a block line, got {l!r}")
            return
        ent = ref.live.get(i)
        if ent is None:
            if not l.endswith("blk null"):
                errs.append(f"{what}: block should be NULL: {l}")
            return
        d = _kv(l)
        if "size" not in d or int(d["size"]) != ent[0]:
            errs.append(f"{what}: block size {l} expected {ent[0]}")
            return
        exp = ent[1]
        if isinstance(exp, tuple):
            # after realloc: resolve contents from the old block; in-place/unbacked decided by the parent
            old = exp[1]
            if d["h"] == "-":
                ent[1] = None
                return
            if ref.has_realloc:
                exp = _Ref.data(ent[0], old[1] if old[1] is not None else b"", JUNK)
            else:   # emulation: old >= new leaves the block alone; otherwise copy + zero-fill
                exp = _Ref.data(ent[0], old[1] if old[1] is not None else b"", 0)
            if exp is None:    # new size is huge but the block is backed?  cannot be
                errs.append(f"{what}: backed block of {ent[0]} bytes")
                return
            ent[1] = exp
        if exp is None:
            if d["h"] != "-":
                # a kept unbacked block can only stay unbacked
                errs.append(f"{what}: contents reported for an unbacked block: {l}")
            return
        if d["h"] == "-":
            errs.append(f"{what}: no contents for a backed block: {l}")
            return
        if int(d["h"], 16) != _digest(exp):
            errs.append(f"{what}: block contents differ from what the wrapped allocator holds (size {ent[0]}): {l}")

    pending = None
    nobt = False
    for op in case.ops:
        t = op.split()
        if errs and len(errs) > 6:
            break
        if t[0] == "new":
            nobt = len(t) == 5 and t[4] == "nobt"
            if ref is not None or not (len(t) in (3, 4) or nobt) or t[1] not in ("none", "bytes", "stacks") or (len(t) >= 4 and t[3] not in CFGS):
                if nxt() != "bad-op":
                    errs.append(f"{op}: expected bad-op")
                continue
            # without backtrace the tracer runs at min(requested, bytes); a tracer requested off stays off
            ref = _Ref("bytes" if nobt and t[1] == "stacks" else t[1], t[3] if len(t) >= 4 else "full")
            pending = None
            while peek() is not None and peek().startswith("P MONITOR"):
                errs.append("harness monitor: " + nxt())
            check_stat(nxt(), op)
            continue
        if t[0] == "depth" or (t[0] == "clock_fail" and len(t) == 2 and t[1].isdigit()):
            continue
        if ref is None:
            if nxt() != "bad-op":
                errs.append(f"{op}: expected bad-op without a tracer")
            continue
        if t[0] == "destroy":
            l = nxt()
            d = _kv(l or "")
            if not l or not l.startswith("P destroy") or d.get("wrapped") != "ok" or d.get("bookkeeping") != "0" \
                    or d.get("parent_after") != "0" or int(d.get("client_blocks", -1)) != len(ref.live):
                errs.append(f"destroy: {l!r} with {len(ref.live)} client blocks live")
            ref = None
            pending = None
            continue
        valid = (t[0] == "acq" and len(t) == 3) or (t[0] == "calloc" and len(t) == 4) or \
                (t[0] == "realloc" and len(t) == 4 and t[3] in ("keep", "move")) or (t[0] == "rel" and len(t) == 2) or \
                (t[0] in ("bytes", "count", "dump") and len(t) == 1)
        if t[0] == "inject":
            it = t[3:]
            ivalid = len(t) >= 4 and t[1] in ("RMW", "LOCK", "UNLOCK", "LOAD") and (
                (it[0] == "acq" and len(it) == 3) or (it[0] == "calloc" and len(it) == 4) or
                (it[0] == "realloc" and len(it) == 4) or (it[0] == "rel" and len(it) == 2) or
                (it[0] in ("bytes", "count", "dump") and len(it) == 1))
            if not ivalid:
                if nxt() != "bad-op":
                    errs.append(f"{op}: expected bad-op")
            else:
                pending = it
            continue
        if t[0] == "fill":
            if t[1] not in ref.live:
                if nxt() != "bad-op":
                    errs.append(f"{op}: expected bad-op")
                continue
            ent = ref.live[t[1]]
            if ent[1] is not None:
                ent[1] = bytearray(((int(t[2]) + 7 * k) & 255) for k in range(ent[0]))
            check_blk(nxt(), t[1], op)
            continue
        if not valid or ref.refused(t):
            if valid:
                pending = None
            if nxt() != "bad-op":
                errs.append(f"{op}: expected bad-op")
            continue
        # ---- a tracer call, possibly with an injected one
        before = ref.total()
        if pending is not None:
            it, pending = pending, None
            l = peek()
            if l in ("P @inj unreached", "P @inj refused"):
                nxt()
            elif l is not None and l.startswith("P @inj"):
                # the injected operation ran to completion somewhere inside the main one
                main_id = t[1] if len(t) > 1 else None
                base_excl = ref.live.get(main_id)
                bi = ref.apply(it)
                tb, tc = ref.total()
                if ref.level == "none":
                    allowed = [(0, 0)]
                else:
                    s_old = base_excl[0] if base_excl else 0
                    has_old = 1 if base_excl else 0
                    b0, c0 = (tb - s_old) % M64, tc - has_old
                    if t[0] in ("acq", "calloc"):
                        sz = _size_tok(t[2]) if t[0] == "acq" else _size_tok(t[2]) * _size_tok(t[3])
                        allowed = [(b0, c0), ((b0 + sz) % M64, c0), ((b0 + sz) % M64, c0 + 1)]
                    elif t[0] == "rel":
                        allowed = [((b0 + s_old) % M64, c0 + has_old), (b0, c0)]
                    elif t[0] == "realloc":
                        nsz = _size_tok(t[2])
                        allowed = [((b0 + s_old) % M64, c0 + has_old), (b0, c0)]
                        if nsz:
                            allowed += [((b0 + nsz) % M64, c0), ((b0 + nsz) % M64, c0 + 1)]
                    else:
                        allowed = [(tb, tc)]
                if it[0] in ("acq", "calloc", "realloc"):
                    check_blk(nxt(), bi, op + " [injected " + " ".join(it) + "]")
                    if peek() is not None and peek().startswith("W @inj moved="):
                        nxt()
                if it[0] == "dump":
                    while peek() is not None and (peek().startswith("P @inj dump") or peek().startswith("W @inj dump")):
                        nxt()
                check_stat(nxt(), op + " [injected " + " ".join(it) + "]", allowed)
            else:
                errs.append(f"{op}: injected operation left no trace: {l!r}")
        bi = ref.apply(t)
        if t[0] in ("acq", "calloc", "realloc"):
            check_blk(nxt(), bi, op)
            if peek() is not None and peek().startswith("W moved="):
                nxt()
        if t[0] == "dump":
            l = nxt()
            tb, tc = ref.total()
            if l is None or not l.startswith("P dump"):
                errs.append(f"dump: {l!r}")
            elif l == "P dump none":
                if ref.level != "none" and tb != 0 and before[0] != 0:
                    errs.append(f"dump printed nothing with {tb} bytes live")
            else:
                d = _kv(l)
                hb, hc = d["hdr"].split("/")
                sizes = [] if d["sizes"] == "-" else [int(x) for x in d["sizes"].split(",")]
                # (an injected operation may land before or after the dump reads: both states are acceptable)
                want = sorted(v[0] for v in ref.live.values())
                if (int(hb), int(hc)) != (tb, tc) and (int(hb), int(hc)) != before:
                    errs.append(f"dump header {hb}/{hc} but live set is {tb}/{tc}")
                if len(sizes) != int(hc) or sum(sizes) % M64 != int(hb):
                    errs.append(f"dump lists {len(sizes)} allocations totalling {sum(sizes)} under header {hb}/{hc}")
                if (int(hb), int(hc)) == (tb, tc) and sizes != want:
                    errs.append(f"dump lists sizes {sizes[:8]}… but live sizes are {want[:8]}…")
            if peek() is not None and peek().startswith("W dump"):
                nxt()
        while peek() is not None and peek().startswith("P MONITOR"):
            errs.append("harness monitor: " + nxt())
        check_stat(nxt(), op)
        if t[0] == "dump" and ref.total() != before and not errs:
            pass
    if li < len(lines):
        errs.append(f"unexpected extra output: {lines[li]!r}")
    return errs


def nontrivial(case):
    tr = sum(1 for o in case.ops if o.startswith(("acq", "calloc")))
    ch = sum(1 for o in case.ops if o.startswith(("realloc", "rel")))
    return tr >= 3 and ch >= 1 and any(l != "none" for l in case.tags.get("levels", []))


def distribution(cases, c_out):
    d = {"levels": {}, "ops": {}, "injected": 0, "inject_point": {}, "realloc_keep": 0, "realloc_move": 0, "realloc_zero": 0,
         "huge_sizes": 0, "frames": {}, "inj_unreached": 0, "dump_nonempty": 0}
    d["clock_faults_armed"] = 0
    d["clock_faults_fired"] = 0
    for i, c in enumerate(cases):
        pend, tracing = 0, False
        for o in c.ops:
            t = o.split()
            d["ops"][t[0]] = d["ops"].get(t[0], 0) + 1
            if t[0] == "new" and len(t) >= 3:
                tracing = t[1] in ("bytes", "stacks")
            if t[0] == "clock_fail" and len(t) == 2 and t[1].isdigit():
                pend = int(t[1])
                d["clock_faults_armed"] += pend
            tt = t[3:] if t[0] == "inject" else t
            if tracing and pend and tt and tt[0] in ("acq", "calloc", "realloc") and not (tt[0] == "realloc" and tt[2] == "0"):
                pend -= 1
                d["clock_faults_fired"] += 1     # (upper bound: a refused call reads no clock)
            if t[0] == "new" and len(t) in (3, 4, 5):
                d["levels"][t[1]] = d["levels"].get(t[1], 0) + 1
                d["frames"][t[2]] = d["frames"].get(t[2], 0) + 1
                c_ = t[3] if len(t) >= 4 else "full"
                d.setdefault("parent_cfg", {})[c_] = d.setdefault("parent_cfg", {}).get(c_, 0) + 1
            if t[0] == "inject" and len(t) > 3:
                d["injected"] += 1
                k = t[1] + t[2]
                d["inject_point"][k] = d["inject_point"].get(k, 0) + 1
            if t[0] == "realloc" and len(t) == 4:
                d["realloc_" + ("zero" if t[2] == "0" else t[3])] += 1
            if any(x.startswith(("MAX", "HALF")) for x in t):
                d["huge_sizes"] += 1
        for l in c_out.get(i, []):
            if l == "P @inj unreached":
                d["inj_unreached"] += 1
            elif l.startswith("P dump hdr"):
                d["dump_nonempty"] += 1
    return d


# ------------------------------------------------------------------ real threads
def _threads_check(out):
    errs = []
    seen = 0
    fin = False
    for l in out.splitlines():
        if l.startswith("P quiescent"):
            seen += 1
            d = _kv(l)
            wb, wc = (0, 0) if d["level"] == "0" else (int(d["live_bytes"]), int(d["live_count"]))
            if (int(d["bytes"]), int(d["count"])) != (wb, wc):
                errs.append(f"at a quiescent point the tracer reports {d['bytes']}/{d['count']} but the threads hold {wb}/{wc}: {l}")
            if d["content_errors"] != "0":
                errs.append("block contents changed under a thread: " + l)
        elif l.startswith("P destroy"):
            fin = True
            d = _kv(l)
            if d["wrapped"] != "ok" or d["bookkeeping"] != "0" or d["parent_after"] != "0":
                errs.append("allocator balance at destroy: " + l)
    if not fin or seen == 0:
        errs.append("threads run did not finish: " + out[-600:])
    return errs


def _threads_run(ctx, exe, args):
    rc, out, _ = core.run_stream([exe, "threads"] + [str(a) for a in args], "", 120, C_ENV)
    errs = _threads_check(out) if rc == 0 else [f"threads run rc={rc}: " + out[-1500:]]
    ctx.cov["evaluations"] += 1
    ctx.cov["threads_runs"] = ctx.cov.get("threads_runs", 0) + 1
    if errs:
        ctx.violation(f"threads-{ctx.seed}-{'-'.join(str(a) for a in args)}", {"threads": list(args), "clause": errs[:4], "observed": out[-2500:]},
                      "threads: " + errs[0])
    return errs


def extra_stages(ctx):
    exe = cbuild.build_harness(**HARNESS)
    rng = ctx.rng
    for cfg in ("default", "aligned"):      # always: the two library allocators as the wrapped allocator
        if _threads_run(ctx, exe, (rng.randint(1, 10 ** 6), 3, 4, 300 if ctx.tier == "quick" else 1500, rng.choice(["bytes", "stacks"]), 8, cfg)):
            return
    reps = 3 if ctx.tier == "quick" else 40
    for _ in range(reps):
        for lvl, frames in (("bytes", 0), ("stacks", rng.choice([1, 8, 200])), ("none", 8)):
            nt = rng.choice([2, 3, 4])
            # the wrapped allocator: the harness's own (4 vtable shapes) or the library's default / aligned allocator
            cfg = rng.choice(["full", "norealloc", "minimal", "nocalloc", "default", "aligned"])
            args = (rng.randint(1, 10 ** 6), nt, 5, 250 if ctx.tier == "quick" else 1500, lvl, frames, cfg)
            if _threads_run(ctx, exe, args):
                return
    _nobt_stage(ctx)


def _nobt_stage(ctx):
    exe = cbuild.build_harness(**HARNESS_NOBT)
    keep = ctx.cov.get("distribution")
    core.correspondence_stage(ctx, nobt_cases(ctx.rng, ctx.tier), exe)
    ctx.cov["distribution_no_backtrace_platform"] = ctx.cov.get("distribution")
    if keep is not None:
        ctx.cov["distribution"] = keep


def replay(ctx, obj):
    if "threads" in obj:
        exe = cbuild.build_harness(**HARNESS)
        errs = _threads_run(ctx, exe, obj["threads"])
        print("threads replay:", errs or "clean (schedule dependent; re-run a few times)")
    else:
        print("replay file carries no op list")


MANIFEST = dict(
    category="proof",
    design_ref="5.17",
    text=("Lean 4 theorems over a model of memtrace.c: for every sequential history the reported bytes/count equal the sum of "
          "requested sizes / number of live allocations (0/0 at level none); for every interleaving of the tracer's "
          "atomic/lock/table actions of any number of threads the counter equals table bytes plus tracks in flight minus "
          "untracks in flight, hence the sequential statement at every quiescent state; the tracer is transparent to block "
          "contents; dump changes nothing. Tied to /repo by a correspondence run of the compiled model against memtrace.c rebuilt "
          "from the working tree on a parent allocator that keeps/moves on command, with complete operations injected at the "
          "tracer's schedule points, a Python live-set oracle, and 2-4 real threads checked at every quiescent point."),
    note=("Trusted: Lean kernel; hand-written model Model/MemTrace.lean (tied by correspondence only); harness and hooks header; "
          "sequentially consistent atomics; hash table / priority queue / backtrace / log formatting not modelled."),
    technique="Lean 4 inductive invariant over all interleavings + model/implementation differential run + real-thread stage",
)
