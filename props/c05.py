"""C05 — base64, hex and UTF-8 codecs are exact, canonical and CPU-path independent."""
import base64, binascii, itertools, os, re
from lib.core import Case
from lib import core, cbuild
from props import c05_gen

ID = "C05"
LEAN_MODULES = ["AwsVerif.Props.C05"]
COMPONENT = "codec"
TIMEOUT = 900

_ENC = os.path.join(cbuild.REPO, "source", "encoding.c")
_PUBLIC = ["aws_hex_compute_encoded_len", "aws_hex_encode", "aws_hex_encode_append_dynamic", "aws_hex_compute_decoded_len",
           "aws_hex_decode", "aws_base64_compute_encoded_len", "aws_base64_compute_decoded_len", "aws_base64_encode",
           "aws_base64_decode", "aws_utf8_decoder_new", "aws_utf8_decoder_destroy", "aws_utf8_decoder_reset",
           "aws_utf8_decoder_update", "aws_utf8_decoder_finalize", "aws_decode_utf8"]
HARNESS = dict(
    name="codec", flavour="asan",
    extra_srcs=[
        # the normal build: AVX2 code (encoding_avx2.c, from the library archive) chosen at run time through cpuid
        (_ENC, ["-DUSE_SIMD_ENCODING"], "encoding_vector"),
        # the portable build beside it: no USE_SIMD_ENCODING, every public symbol renamed portable_<name>
        (_ENC, [f"-D{s}=portable_{s}" for s in _PUBLIC], "encoding_portable"),
        # a third build: the AVX2 file in the configuration without _mm256_extract_epi64 (config.h's
        # AWS_HAVE_MM256_EXTRACT_EPI64 removed by the wrapper), and encoding.c dispatching to it; symbols renamed noext_<name>
        (os.path.join(cbuild.VERIF, "harness", "codec_avx2_noext.c"),
         ["-mavx", "-mavx2", '-DVERIF_AVX2_SRC="' + os.path.join(cbuild.REPO, "source", "arch", "intel", "encoding_avx2.c") + '"'],
         "encoding_avx2_noext"),
        (_ENC, ["-DUSE_SIMD_ENCODING"] + [f"-D{s}=noext_{s}" for s in _PUBLIC] +
         [f"-D{s}=noext_{s}" for s in ("aws_common_private_base64_decode_sse41", "aws_common_private_base64_encode_sse41")],
         "encoding_noext"),
    ],
)
TRUSTED = ["hand model lean/AwsVerif/Model/Codec.lean of the portable code paths: its length functions and every integer expression of "
           "the base64 / hex / UTF-8 loops are proved equal to the layer generated from the current encoding.c (c05_gen_* bridge "
           "theorems, translator gen/codec_gen.py + gen/cfun.py trusted); the loop / store structure around them is tied by this "
           "correspondence run",
           "generated tables lean/AwsVerif/Gen/CodecTables.lean (props/c05_gen.py: initialiser parser cross-checked against a compiled probe of the current encoding.c)",
           "hand model lean/AwsVerif/Model/CodecAvx2.lean of source/arch/intel/encoding_avx2.c: the documented meaning of the AVX2 intrinsics "
           "(listed in the file header) is trusted; range constants, shuffle tables, loop bounds, fill/padding characters are regenerated "
           "from the source (Gen/CodecAvx2Consts.lean), masks and shift counts of pack_vec/encode_stride are transcribed by hand; the model is "
           "tied to the vector build by this correspondence run (P lines and the W lines of partial stores)",
           "configurations: encoding_avx2.c is compiled twice for the harness — as configured (AWS_HAVE_MM256_EXTRACT_EPI64) and, through "
           "harness/codec_avx2_noext.c, without that macro (the #else extraction in decode()); base64 ops run through portable, vector and "
           "vector-noext builds; the generator additionally checks that both #ifdef branches read the packed vector",
           "Python stdlib base64/binascii and a 40-line RFC 3629 reference in the direct oracle"]
ASSUMPTIONS = ["byte buffers passed in are valid (len <= capacity); a caller stops feeding a decoder after an error (the decoder's or its callback's)",
               "UTF-8 validity is RFC 3629 *without* the U+10FFFF upper bound: the decoder accepts F4 90 80 80 .. F7 BF BF BF "
               "(c05_utf8_spec proves 'accepted = RFC 3629 grammar minus that bound'; c05_utf8_not_rfc3629 exhibits the witness; the "
               "property statement only demands chunking independence, so this is reported, not failed)",
               "aws_hex_compute_decoded_len(SIZE_MAX) reports overflow although the result 2^63 fits (no such input can exist)"]
RULE = ("structured op files: every length 0..200 round trip, every byte value at every position of the final quantum of valid "
        "encodings, padding variants, all capacities 0..need+1 with pre-existing out.len, size_t overflow boundaries, UTF-8 boundary "
        "code points / overlongs / surrogates / truncations and all chunkings of short texts, each with and without an on_codepoint "
        "callback (u8all: all chunkings of all strings of length <= 4 (thorough 5) over an alphabet of boundary bytes, and "
        "lead|ASCII|continuation texts cut at the boundary); non-trivial = case contains a "
        "codec call on non-empty input")
NOT_PROVED = []



def regen(ctx):
    """generated layer, rewritten from the tree under test (raises core.GenError):
    Gen/CodecTables.lean (tables, props/c05_gen.py), Gen/CodecAvx2Consts.lean (constants of encoding_avx2.c, props/c05_gen.py),
    Gen/CodecFns.lean (length functions and the integer expressions of the portable base64 / hex / UTF-8 code, cut out of
    encoding.c and translated through gen/cfun.py by gen/codec_gen.py; bridged to the model in Proofs/C05/GenBridge.lean)"""
    from gen import codec_gen, cfun
    t, _ = c05_gen.regen(ctx)
    try:
        txt = codec_gen.generate(cbuild.REPO, cbuild.config_include(), t["sentinel"])
    except cfun.GenError as e:
        raise core.GenError(str(e))
    core.write_if_changed(os.path.join(core.LEAN, "AwsVerif", "Gen", "CodecFns.lean"), txt)


B64 = b"ABCDEFGHIJKLMNOPQRSTUVWXYZabcdefghijklmnopqrstuvwxyz0123456789+/"
MAX = (1 << 64) - 1


def hx(b):
    return bytes(b).hex() if len(b) else "-"


def unhx(s):
    return b"" if s == "-" else bytes.fromhex(s)


def enc_len(n):
    return 4 * ((n + 2) // 3)


def rbytes(rng, n):
    r = rng.random()
    if r < 0.1:
        return bytes([rng.choice([0, 0xFF, 0x80, 0x7F])] * n)
    return bytes(rng.getrandbits(8) for _ in range(n))


def chunked(ops, tags, size=40):
    return [Case(ops[i:i + size], dict(tags)) for i in range(0, len(ops), size)]


# ------------------------------------------------------------------ generators
def gen_lengths(rng, tier):
    ops = []
    for n in range(0, 201):
        for rep in range(1 if tier == "quick" else 4):
            bs = rbytes(rng, n)
            e = base64.b64encode(bs)
            pre = rng.choice([0, 0, 1, 7])
            ops.append(f"b64enc {hx(bs)} {pre} {pre + len(e) + rng.choice([0, 0, 3])}")
            ops.append(f"b64dec {hx(e)} {rng.choice([0, 2])} {n + rng.choice([0, 0, 5])}")
            ops.append(f"hexenc {hx(bs)} {rng.choice([0, 3])} {2 * n + rng.choice([0, 0, 2])}")
            h = binascii.hexlify(bs)
            if rng.random() < 0.5:
                h = bytes(c ^ 0x20 if 97 <= c <= 102 and rng.random() < 0.5 else c for c in h)
            ops.append(f"hexdec {hx(h)} 0 {n + rng.choice([0, 1])}")
            if n > 0:
                ops.append(f"hexdec {hx(h[1:])} 0 {n}")          # odd length
            pre = rng.choice([0, 0, 4])
            ops.append(f"hexencdyn {hx(bs)} {pre} {pre + rng.choice([0, n, 2 * n, 2 * n + 3])}")
        ops.append(f"b64enclen {n}")
        ops.append(f"hexenclen {n}")
        ops.append(f"hexdeclen {n}")
        ops.append(f"b64declen {hx(base64.b64encode(bytes(n)))}")
    return chunked(ops, {"fam": "lengths"})


def final_quantum(rng, tier):
    """every byte value at every position of the final quantum (thorough: of the last 32 characters) of valid texts"""
    ops = []
    bases = [1, 2, 3, 22, 23, 24, 25, 26, 27, 49, 50, 51, 73, 74, 75] if tier == "thorough" else [1, 2, 3, 24, 25, 26, 27, 49, 50, 51]
    for n in bases:
        bs = rbytes(rng, n)
        e = bytearray(base64.b64encode(bs))
        span = min(len(e), 32) if (tier == "thorough" or n in (24, 26)) else 4
        for p in range(len(e) - span, len(e)):
            for v in range(256):
                t = bytearray(e)
                t[p] = v
                ops.append(f"b64dec {hx(t)} 0 {n + 2}")
    # pairs in the last two / middle two positions of the final quantum
    specials = sorted(set(b"AQgw/+=Zz09BCEI" + bytes([0, 0x0A, 0x20, 0x2D, 0x5F, 0x3C, 0x3E, 0x7F, 0x80, 0xBD, 0xFF])))
    vals = range(256) if tier == "thorough" else specials
    for n in ([1, 2, 3, 26, 50] if tier == "thorough" else [1, 2, 26]):
        e = bytearray(base64.b64encode(rbytes(rng, n)))
        for (p, q) in ((-2, -1), (-3, -2), (-4, -3)):
            for a in vals:
                for b in vals:
                    t = bytearray(e)
                    t[p], t[q] = a, b
                    ops.append(f"b64dec {hx(t)} 0 {n + 2}")
    return chunked(ops, {"fam": "final-quantum"}, 200)


PADDING_TEXTS = [b"", b"=", b"==", b"===", b"====", b"A", b"AA", b"AAA", b"AAAA", b"A===", b"AA==", b"AAA=", b"AA=A", b"AB==", b"AAB=",
                 b"A=AA", b"=AAA", b"AA==AAAA", b"AAAA====", b"AAAAAA==", b"AAAAAAA=", b"AAAA=AAA", b"AA=", b"AAAAA", b"AAAAAA",
                 b"AAAAAAA", b"\x00\x00\x00\x00", b"AAA\x00", b"AA\x00=", b"A\x00==", b"AA \n", b"AA-_", b"AA__", b"////", b"++++",
                 b"/w==", b"/x==", b"//8=", b"//9=", b"Zg==", b"Zh==", b"Zm8=", b"Zm9=", b"Zm9v", b"Zm9vYg==", b"Zm9vYmE=", b"Zm9vYmFy",
                 b"AAAA" * 8, b"AAAA" * 8 + b"AA==", b"AAAA" * 8 + b"A===", b"AAAA" * 7 + b"AA==" + b"AAAA", b"AAAA" * 9 + b"AB==",
                 b"AAAA" * 16, b"AAAA" * 15 + b"AA=A", b"=AAA" + b"AAAA" * 8, b"AAAA" * 8 + b"AAA\x00"]


def padding_variants(rng, tier):
    ops = []
    for t in PADDING_TEXTS:
        need = len(t) // 4 * 3
        for cap in sorted({0, max(0, need - 3), max(0, need - 2), max(0, need - 1), need, need + 1}):
            ops.append(f"b64dec {hx(t)} {min(cap, rng.choice([0, 1]))} {cap}")
        ops.append(f"b64declen {hx(t)}")
    # valid texts with the padding characters moved / doubled / removed
    for n in range(1, 40):
        e = base64.b64encode(rbytes(rng, n))
        vs = [e.rstrip(b"="), e + b"=", e + b"====", e[:-1], e[:-4] + b"====", b"=" + e[1:], e[:len(e) // 2] + b"=" + e[len(e) // 2 + 1:]]
        for t in vs:
            ops.append(f"b64dec {hx(t)} 0 {n + 3}")
    return chunked(ops, {"fam": "padding"})


def capacities(rng, tier):
    ops = []
    ns = list(range(0, 8)) + [23, 24, 25, 31, 32, 33, 47, 48, 49]
    if tier == "thorough":
        ns += list(range(8, 23)) + [95, 96, 97]
    for n in ns:
        bs = rbytes(rng, n)
        e = base64.b64encode(bs)
        for pre in (0, 1, 5):
            for cap in range(0, pre + len(e) + 2):
                if pre <= cap or cap in (0, pre - 1):
                    ops.append(f"b64enc {hx(bs)} {pre} {cap}")
        for cap in range(0, n + 2):
            for pre in {0, cap}:
                ops.append(f"b64dec {hx(e)} {pre} {cap}")
        for cap in range(0, 2 * n + 2):
            ops.append(f"hexenc {hx(bs)} {rng.choice([0, cap])} {cap}")
        h = binascii.hexlify(bs)
        for cap in range(0, n + 2):
            ops.append(f"hexdec {hx(h)} {rng.choice([0, cap])} {cap}")
            if n:
                ops.append(f"hexdec {hx(h[1:])} 0 {cap}")
        for pre in (0, 2):
            for cap in range(pre, pre + 2 * n + 2):
                ops.append(f"hexencdyn {hx(bs)} {pre} {cap}")
    return chunked(ops, {"fam": "capacities"}, 100)


def hex_bytes(rng, tier):
    ops = []
    for v in range(256):
        ops.append(f"hexenc {v:02x} 0 2")
        for t in (bytes([v]), bytes([v, 0x41]), bytes([0x37, v]), bytes([v, 0x30, 0x39]), bytes([0x62, v, 0x63]), bytes([0x31, 0x32, v]),
                  b"00112233445566" + bytes([v]) + b"7", b"ab" * 9 + bytes([v])):
            ops.append(f"hexdec {hx(t)} 0 {(len(t) + 1) // 2}")
    return chunked(ops, {"fam": "hex-bytes"}, 200)


def overflow_sizes(rng, tier):
    ops = []
    q = 3 * (1 << 62)
    sizes = ["MAX", "MAX-1", "MAX-2", "MAX-3", "MAX-4", "HALF", "HALF+1", "HALF+2", "HALF-1", str(q), str(q - 1), str(q - 2), str(q - 3),
             str(q + 1), str((1 << 62)), str((1 << 62) - 1), str((1 << 63)), str((1 << 63) + 1), "4294967295", "4294967296", "4294967297"]
    for s in sizes:
        ops += [f"b64enclen {s}", f"hexenclen {s}", f"hexdeclen {s}"]
    for _ in range(40):
        k = rng.choice([MAX - rng.randint(0, 9), (1 << rng.randint(33, 63)) + rng.randint(-2, 2), q + rng.randint(-6, 6), rng.getrandbits(64)])
        ops += [f"b64enclen {k}", f"hexenclen {k}", f"hexdeclen {k}"]
    # checks that precede any byte access (fake lengths over 1-byte blocks; only error outcomes are generated)
    for s in ["MAX", "MAX-1", "MAX-2", str(q - 2), str(q + 1), "HALF+1", "HALF+7"]:
        ops.append(f"b64enchuge {s} 0 0")
        ops.append(f"hexenchuge {s} 0 0")
    for s in ["HALF", "HALF-5", str(1 << 40), str(q - 3), str(q - 6)]:
        ops.append(f"b64enchuge {s} 0 1")             # fits size_t, exceeds capacity
        ops.append(f"b64enchuge {s} 3 1")
    ops += ["b64enchuge 3 MAX-3 MAX", "b64enchuge 3 MAX-2 MAX", "b64enchuge 1 MAX MAX", "b64enchuge 6 MAX-7 MAX"]     # len + encoded overflows
    for s in ["HALF", str(1 << 40), "HALF-9"]:
        ops.append(f"hexenchuge {s} 0 1")
    for s in ["MAX", "MAX-1", "MAX-2", "HALF", str(1 << 40), "3", "4"]:
        ops.append(f"hexdechuge {s} 0 {0 if s not in ('3', '4') else 1}")
    for s in ["MAX", "HALF+1", "HALF+2"]:
        ops.append(f"hexdynhuge {s} 0 0")
    ops += ["hexdynhuge 1 MAX-1 MAX", "hexdynhuge 2 MAX-3 MAX", "hexdynhuge HALF 2 2"]
    return chunked(ops, {"fam": "overflow"})


# ---- UTF-8
def u8enc(cp):
    """generalised UTF-8 encoder (no validity checks; up to 0x1FFFFF)"""
    if cp < 0x80:
        return bytes([cp])
    if cp < 0x800:
        return bytes([0xC0 | cp >> 6, 0x80 | cp & 0x3F])
    if cp < 0x10000:
        return bytes([0xE0 | cp >> 12, 0x80 | cp >> 6 & 0x3F, 0x80 | cp & 0x3F])
    return bytes([0xF0 | cp >> 18, 0x80 | cp >> 12 & 0x3F, 0x80 | cp >> 6 & 0x3F, 0x80 | cp & 0x3F])


BOUNDARY_CPS = [0, 1, 0x7F, 0x80, 0x7FF, 0x800, 0xFFF, 0x1000, 0xD7FF, 0xD800, 0xDBFF, 0xDC00, 0xDFFF, 0xE000, 0xFFFD, 0xFFFF, 0x10000, 0x3FFFF,
                0x40000, 0xFFFFF, 0x100000, 0x10FFFF, 0x110000, 0x13FFFF, 0x140000, 0x1FFFFF]
BAD_SEQS = [b"\xc0\x80", b"\xc0\xaf", b"\xc1\xbf", b"\xc2", b"\xc2\x7f", b"\xc2\xc0", b"\xdf\xbf", b"\xe0\x80\x80", b"\xe0\x9f\xbf", b"\xe0\xa0\x80",
            b"\xe0\xa0", b"\xe0", b"\xed\x9f\xbf", b"\xed\xa0\x80", b"\xed\xbf\xbf", b"\xee\x80\x80", b"\xef\xbf\xbf", b"\xf0\x80\x80\x80",
            b"\xf0\x8f\xbf\xbf", b"\xf0\x90\x80\x80", b"\xf0\x90\x80", b"\xf0\x90", b"\xf0", b"\xf4\x8f\xbf\xbf", b"\xf4\x90\x80\x80",
            b"\xf5\x80\x80\x80", b"\xf7\xbf\xbf\xbf", b"\xf8\x88\x80\x80\x80", b"\xfc\x84\x80\x80\x80\x80", b"\xfe", b"\xff", b"\x80", b"\xbf",
            b"\xe2\x82\xac", b"\xe2\x28\xa1", b"\xe2\x82\x28", b"\xf0\x28\x8c\xbc", b"\xf0\x90\x28\xbc", b"\xf0\x28\x8c\x28", b"\xef\xbb\xbf"]


def rand_text(rng, maxlen):
    out = b""
    while len(out) < maxlen:
        r = rng.random()
        if r < 0.3:
            out += bytes([rng.randint(0, 0x7F)])
        elif r < 0.5:
            out += u8enc(rng.randint(0x80, 0x7FF))
        elif r < 0.7:
            cp = rng.randint(0x800, 0xFFFF)
            out += u8enc(cp if not 0xD800 <= cp <= 0xDFFF else 0xE000)
        elif r < 0.85:
            out += u8enc(rng.randint(0x10000, 0x10FFFF))
        elif r < 0.93:
            out += u8enc(rng.choice(BOUNDARY_CPS))
        elif r < 0.97:
            out += rng.choice(BAD_SEQS)
        else:
            out += bytes([rng.getrandbits(8)])
    return out[:maxlen] if rng.random() < 0.2 else out


def compositions(bs):
    """all ways of cutting bs into non-empty consecutive chunks"""
    n = len(bs)
    if n == 0:
        yield []
        return
    for mask in range(1 << (n - 1)):
        parts, start = [], 0
        for i in range(n - 1):
            if mask >> i & 1:
                parts.append(bs[start:i + 1])
                start = i + 1
        parts.append(bs[start:])
        yield parts


def rand_chunks(rng, bs):
    parts, i = [], 0
    while i < len(bs):
        k = rng.choice([0, 1, 1, 1, 2, 2, 3, 4, 7])
        parts.append(bs[i:i + k])
        i += k
    if rng.random() < 0.3:
        parts.append(b"")
    return parts


def utf8_cases(rng, tier):
    ops = []
    singles = [u8enc(cp) for cp in BOUNDARY_CPS] + BAD_SEQS
    for s in singles:
        ops.append(f"u8one {hx(s)}")
        for parts in compositions(s):
            ops.append("u8 " + " ".join(hx(p) for p in parts))
        # truncations
        for k in range(len(s)):
            ops.append(f"u8one {hx(s[:k])}")
    # every lead byte followed by boundary continuation bytes
    for lead in range(0x80, 0x100):
        for second in (0x7F, 0x80, 0x8F, 0x90, 0x9F, 0xA0, 0xBF, 0xC0):
            t = bytes([lead, second, 0x80, 0x80])
            ops.append(f"u8one {hx(t)}")
            ops.append(f"u8 {hx(t[:1])} {hx(t[1:2])} {hx(t[2:])}")
    # all chunkings of short texts
    maxlen = 8 if tier == "thorough" else 6
    for _ in range(300 if tier == "thorough" else 30):
        pre = rng.choice(singles + [b"a", b"\xc3\xa9", b"\xe2\x82\xac", b"\xf0\x9f\x98\x80"])
        t = (pre + rand_text(rng, maxlen))[:rng.randint(2, maxlen)]
        ops.append(f"u8one {hx(t)}")
        for parts in compositions(t):
            ops.append("u8 " + " ".join(hx(p) for p in parts))
    # longer texts, random chunkings (with empty chunks)
    for _ in range(1500 if tier == "quick" else 20000):
        t = rand_text(rng, rng.choice([3, 9, 17, 40, 120]))
        ops.append(f"u8one {hx(t)}")
        for _ in range(3):
            parts = rand_chunks(rng, t)
            ops.append(("u8 " + " ".join(hx(p) for p in parts)).strip())
    # on_codepoint returning an error on its k-th call (callback installed with and without user_data)
    for _ in range(150 if tier == "quick" else 2000):
        t = rand_text(rng, rng.choice([2, 4, 9, 17])) if rng.random() < 0.7 else rng.choice(singles) + b"z" + rng.choice(singles)
        k = rng.choice([0, 0, 1, 2, 3, 7])
        ops.append(("u8f %d " % k + " ".join(hx(p) for p in rand_chunks(rng, t))).strip())
        ops.append(f"u8f {k} {hx(t)}")
    cases = chunked(ops, {"fam": "utf8"}, 60)
    # one decoder reused across texts: finalize / reset give a fresh decoder, also after an error
    for _ in range(200 if tier == "quick" else 2000):
        seq = ["u8new"]
        for _ in range(rng.randint(2, 8)):
            t = rand_text(rng, rng.choice([2, 5, 12]))
            for p in rand_chunks(rng, t):
                seq.append(f"u8upd {hx(p)}")
            seq.append(rng.choice(["u8fin", "u8fin", "u8reset"]))
        cases.append(Case(seq, {"fam": "utf8-reuse"}))
    return cases


SMALL_ALPHABET = [0x00, 0x41, 0x7F, 0x80, 0xBF, 0xC2, 0xE0, 0xED, 0xF0, 0xF4]
MORE_ALPHABET = [0x8F, 0x90, 0x9F, 0xA0, 0xC0, 0xF5]
PARTIALS = [b"\xc2", b"\xdf", b"\xe0", b"\xe0\xa0", b"\xe1\x80", b"\xed", b"\xed\x9f", b"\xef\xbf", b"\xf0", b"\xf0\x90", b"\xf0\x90\x80",
            b"\xf4", b"\xf4\x8f", b"\xf4\x8f\xbf", b"\xf1\x80\x80"]


def utf8_boundary_cases(rng, tier):
    """texts whose (in)validity spans a chunk boundary, and small-scope exhaustive enumeration: `u8all x` makes the harness run
    EVERY chunking of x, with and without an on_codepoint callback, and compare each run with the one-piece result"""
    ops = []
    # all byte strings over a small alphabet of interesting bytes
    alpha, maxlen = (SMALL_ALPHABET, 4) if tier == "quick" else (SMALL_ALPHABET + MORE_ALPHABET, 5)
    for n in range(0, maxlen + 1):
        for t in itertools.product(alpha, repeat=n):
            ops.append(f"u8all {hx(bytes(t))}")
    if tier == "quick":      # a slice of the next length / wider alphabet
        for _ in range(3000):
            ops.append(f"u8all {hx(bytes(rng.choice(SMALL_ALPHABET + MORE_ALPHABET) for _ in range(rng.choice([5, 5, 6, 7]))))}")
    # lead byte(s) | ASCII | continuation(s): invalid in one piece, and must be in every chunking
    seqs = []
    for part in PARTIALS:
        need = {0xC: 1, 0xD: 1, 0xE: 2, 0xF: 3}[part[0] >> 4] - (len(part) - 1)
        for asc in (b"A", b"\x00", b"\x7f", b"AB", b"A\x7f\x00"):
            for conts in (bytes([0x80 + rng.randrange(64) for _ in range(need)]), b"\xa3" * need, b"\xbf" * (need + 1), b""):
                for tail in (b"", b"z", b"\xc3\xa9"):
                    seqs.append((part, asc, conts, tail))
    if tier == "quick":
        seqs = rng.sample(seqs, 400)
    for part, asc, conts, tail in seqs:
        t = part + asc + conts + tail
        if len(t) <= 12:
            ops.append(f"u8all {hx(t)}")
        ops.append(f"u8one {hx(t)}")
        ops.append(f"u8 {hx(part)} {hx(asc + conts + tail)}")
        ops.append(f"u8 {hx(part)} {hx(asc)} {hx(conts + tail)}")
        ops.append(f"u8 {hx(part[:1])} {hx(part[1:])} - {hx(asc[:1])} {hx(asc[1:] + conts)} {hx(tail)}")
        ops.append(f"u8 {hx(part)} {hx(conts + asc + tail)}")          # the valid order, cut at the same place
    cases = chunked(ops, {"fam": "utf8-boundary"}, 150)
    # the same through persistent decoders (both modes), finalize between texts
    for _ in range(100 if tier == "quick" else 1500):
        seq = ["u8new"]
        for _ in range(rng.randint(2, 6)):
            part, asc = rng.choice(PARTIALS), rng.choice([b"A", b"\x00", b"\x7f~"])
            need = {0xC: 1, 0xD: 1, 0xE: 2, 0xF: 3}[part[0] >> 4] - (len(part) - 1)
            conts = bytes([0x80 + rng.randrange(64) for _ in range(need)])
            order = rng.choice([(part, asc + conts), (part, asc, conts), (part, conts + asc), (part, conts, asc), (asc, part, conts)])
            for c in order:
                seq.append(f"u8upd {hx(c)}")
            seq.append(rng.choice(["u8fin", "u8fin", "u8fin", "u8reset"]))
        cases.append(Case(seq, {"fam": "utf8-boundary-reuse"}))
    return cases


def random_mix(rng, tier):
    """random valid / near-valid base64 and hex texts of random length"""
    ops = []
    for _ in range(8000 if tier == "quick" else 200000):
        n = rng.choice([rng.randint(0, 12), rng.randint(13, 100), rng.randint(0, 200)])
        e = bytearray(base64.b64encode(rbytes(rng, n)))
        r = rng.random()
        if e and r < 0.6:
            for _ in range(rng.choice([1, 1, 2])):
                p = rng.choice([rng.randrange(len(e)), len(e) - 1 - rng.randrange(min(4, len(e)))])
                e[p] = rng.choice([rng.getrandbits(8), rng.choice(B64), 0x3D, rng.choice(B64)])
        elif r < 0.7:
            e = e[:rng.randrange(len(e) + 1)]
        ops.append(f"b64dec {hx(e)} 0 {len(e) // 4 * 3 + rng.choice([0, 0, 1]) - (rng.choice([0, 1, 3]) if rng.random() < 0.1 else 0) if len(e) >= 4 else rng.choice([0, 3])}")
        if rng.random() < 0.3:
            h = bytearray(binascii.hexlify(rbytes(rng, rng.randint(0, 40))))
            if h and rng.random() < 0.5:
                h[rng.randrange(len(h))] = rng.choice([rng.getrandbits(8), 0x47, 0x67, 0x2F, 0x3A, 0x40, 0x60, 0x46, 0x66])
            if rng.random() < 0.4:
                h = h[1:]
            ops.append(f"hexdec {hx(h)} 0 {(len(h) + 1) // 2}")
    return chunked(ops, {"fam": "random"}, 100)


def gen_cases(rng, tier):
    cases = []
    cases += padding_variants(rng, tier)
    cases += overflow_sizes(rng, tier)
    cases += gen_lengths(rng, tier)
    cases += capacities(rng, tier)
    cases += hex_bytes(rng, tier)
    cases += final_quantum(rng, tier)
    cases += utf8_cases(rng, tier)
    cases += utf8_boundary_cases(rng, tier)
    cases += random_mix(rng, tier)
    return cases


# ------------------------------------------------------------------ direct oracle (implementation output only)
def b64_canonical(t):
    """decoded bytes if t is the RFC 4648 §4 encoding of some byte string (reference: Python stdlib), else None"""
    if len(t) % 4:
        return None
    try:
        d = base64.b64decode(bytes(t), validate=True)
    except (binascii.Error, ValueError):
        return None
    return d if base64.b64encode(d) == bytes(t) else None


def hex_ref(t):
    if any(c not in b"0123456789abcdefABCDEF" for c in t):
        return None
    s = bytes(t)
    if len(s) % 2:
        s = b"0" + s
    return binascii.unhexlify(s)


def utf8_ref(bs):
    """(valid, code points reported before the first offending byte): RFC 3629 §4 ABNF without the U+10FFFF bound"""
    cps, i, n = [], 0, len(bs)
    tail = lambda x: 0x80 <= x <= 0xBF
    while i < n:
        a = bs[i]
        if a <= 0x7F:
            cps.append(a); i += 1; continue
        if 0xC2 <= a <= 0xDF:
            need, lo, hi, cp = 1, 0x80, 0xBF, a - 0xC0
        elif 0xE0 <= a <= 0xEF:
            need, cp = 2, a - 0xE0
            lo, hi = (0xA0, 0xBF) if a == 0xE0 else (0x80, 0x9F) if a == 0xED else (0x80, 0xBF)
        elif 0xF0 <= a <= 0xF7:
            need, cp = 3, a - 0xF0
            lo, hi = (0x90, 0xBF) if a == 0xF0 else (0x80, 0xBF)
        elif a in (0xC0, 0xC1):
            # the decoder notices an overlong 2-byte form only at its second byte; either way nothing is reported
            return False, cps
        else:
            return False, cps
        for k in range(need):
            if i + 1 + k >= n:
                return False, cps            # truncated: verdict comes from finalize
            x = bs[i + 1 + k]
            if not tail(x):
                return False, cps
            cp = cp * 64 + (x - 0x80)
        x = bs[i + 1]
        if not lo <= x <= hi:
            return False, cps
        cps.append(cp)
        i += 1 + need
    return True, cps


_kv = re.compile(r"(\w+)=(\S+)")


def _fields(line):
    return dict(_kv.findall(line))


def _expect_w(f, off, n, errs, ctxs):
    want = "none" if n == 0 else f"{off}+{n}"
    if f.get("w") != want:
        errs.append(f"{ctxs}: bytes actually stored {f.get('w')} but the call reported [{off},{off + n})")


def oracle(case, lines):
    errs = []
    li = 0
    poisoned = False
    pending = b""
    have_dec = False

    def take(prefix):
        nonlocal li
        got = []
        done = False
        while li < len(lines) and (lines[li].startswith("P " + prefix + " ") or lines[li].startswith("W " + prefix + " ")):
            if done and " cap=" not in lines[li]:
                break
            got.append(lines[li]); li += 1
            if " same=" in got[-1]:
                done = True
        return got

    for op in case.ops:
        t = op.split()
        name = t[0]
        if name == "u8new" or (name == "u8reset" and have_dec):
            have_dec = True
            poisoned, pending = False, b""
            continue
        if li < len(lines) and lines[li] == "bad-op":
            li += 1          # malformed / out-of-context op (only arises in minimised candidates): nothing to judge
            continue
        got = take(name)
        P = [l for l in got if l.startswith("P ")]
        if not P:
            errs.append(f"{op[:80]}: no output")
            break
        same = [l for l in P if " same=" in l]
        if not same or not same[0].endswith("same=1"):
            errs.append(f"{op[:80]}: portable and vector builds differ: " + " | ".join(P)[:300])
        if any("MONITOR" in l for l in P):
            errs.insert(0, f"{op[:80]}: " + [l for l in P if "MONITOR" in l][0])
        per = [l for l in P if " same=" not in l and "MONITOR" not in l]
        for l in per:
            f = _fields(l)
            who = l.split()[2]
            c = f"{op[:80]} [{who}]"
            rc = f.get("rc")
            if name in ("b64enc", "hexenc", "hexencdyn", "b64dec", "hexdec"):
                x, pre, cap = unhx(t[1]), int(t[2]), int(t[3])
                if name == "b64enc":
                    want, off, need = base64.b64encode(x), pre, pre + enc_len(len(x))
                elif name == "hexenc":
                    want, off, need = binascii.hexlify(x), 0, 2 * len(x)
                elif name == "hexencdyn":
                    want, off, need = binascii.hexlify(x), pre, 0
                elif name == "b64dec":
                    want, off = b64_canonical(x), 0
                    need = len(want) if want is not None else None
                else:
                    want, off = hex_ref(x), 0
                    need = len(want) if want is not None else None
                if rc == "OK":
                    if want is None:
                        errs.append(f"{c}: accepted text that is not a canonical encoding")
                        continue
                    if cap < need:
                        errs.append(f"{c}: success although capacity {cap} < {need}")
                    outs = f.get("out", "!")
                    if outs.startswith("!") or unhx(outs) != want:
                        errs.append(f"{c}: output {f.get('out')} is not the reference {hx(want)}")
                    if int(f["len"]) != off + len(want):
                        errs.append(f"{c}: reported len {f['len']} but {off + len(want)} expected")
                    _expect_w(f, off, len(want), errs, c)
                else:
                    if int(f["len"]) != pre:
                        errs.append(f"{c}: failed call changed out.len {pre} -> {f['len']}")
                    if want is not None and cap >= need:
                        errs.append(f"{c}: refused a canonical input with sufficient capacity ({rc})")
                    if want is not None and cap < need and rc != "AWS_ERROR_SHORT_BUFFER":
                        errs.append(f"{c}: short buffer reported as {rc}")
                    if want is None and rc not in ("AWS_ERROR_SHORT_BUFFER", "AWS_ERROR_INVALID_BASE64_STR", "AWS_ERROR_INVALID_HEX_STR"):
                        errs.append(f"{c}: unexpected error {rc}")
            elif name in ("b64enclen", "hexenclen", "hexdeclen"):
                n = _size(t[1])
                v = {"b64enclen": enc_len(n), "hexenclen": 2 * n, "hexdeclen": (n + 1) // 2}[name]
                if name == "hexdeclen" and n == MAX:
                    v = MAX + 1     # n + 1 itself does not fit
                if v <= MAX:
                    if rc != "OK" or f.get("v") != str(v):
                        errs.append(f"{c}: expected {v}, got {rc} {f.get('v')}")
                elif rc != "AWS_ERROR_OVERFLOW_DETECTED":
                    errs.append(f"{c}: result does not fit size_t but got {rc} {f.get('v')}")
            elif name == "b64declen":
                x = unhx(t[1])
                if len(x) % 4:
                    if rc != "AWS_ERROR_INVALID_BASE64_STR":
                        errs.append(f"{c}: length not a multiple of 4 but {rc}")
                else:
                    d = b64_canonical(x)
                    if d is not None and (rc != "OK" or f.get("v") != str(len(d))):
                        errs.append(f"{c}: decoded length of canonical text is {len(d)}, got {rc} {f.get('v')}")
            elif name.endswith("huge"):
                if rc == "OK-unexpected":
                    errs.append(f"{c}: call with impossible sizes succeeded")
                if f.get("len") != str(_size(t[2])):
                    errs.append(f"{c}: failed call changed out.len")
            elif name in ("u8", "u8one", "u8all", "u8f"):
                bs = b"".join(unhx(p) for p in t[(2 if name == "u8f" else 1):])
                ok, cps = utf8_ref(bs)
                if "failcb" in f:
                    # the callback fails on its k-th call: everything stops there with the callback's error
                    k = int(f["failcb"])
                    want_rc = "AWS_ERROR_INVALID_ARGUMENT" if len(cps) > k else ("OK" if ok else "AWS_ERROR_INVALID_UTF8")
                    wantcps = ",".join("%x" % cp for cp in cps[:k + 1]) or "-"
                    if rc != want_rc or f.get("cps") != wantcps:
                        errs.append(f"{c}: callback failing on call {k}: got {rc} cps={f.get('cps')}, expected {want_rc} cps={wantcps}")
                    if name == "u8all" and f.get("chunkdep") != "0":
                        errs.append(f"{c}: result with a callback failing on call {k} depends on how the text is chunked")
                    continue
                wantcps = ",".join("%x" % cp for cp in cps) or "-"
                mode = "without callback" if "nocb" in f else "with callback"
                if (rc == "OK") != ok:
                    errs.append(f"{c}: verdict {rc} ({mode}) but reference validity of the whole text is {ok}")
                if "nocb" not in f and f.get("cps") != wantcps:
                    errs.append(f"{c}: code points {f.get('cps')} vs reference {wantcps}")
                if name == "u8all" and f.get("chunkdep") != "0":
                    errs.append(f"{c}: result ({mode}) depends on how the text is chunked")
            elif name == "u8upd":
                pass
        # reuse sequences: verdict at finalize must be that of the bytes since the last finalize/reset
        if name == "u8upd" and have_dec:
            pending += unhx(t[1])
            if any("rc=OK" not in l for l in per):
                poisoned = True
        if name == "u8fin" and have_dec:
            if not poisoned:
                ok, _ = utf8_ref(pending)
                for l in per:
                    if ("rc=OK" in l) != ok:
                        errs.append(f"u8fin after {hx(pending)[:60]}: verdict {l} but reference validity is {ok}")
            poisoned, pending = False, b""
    return errs[:8]


def _size(s):
    if s.startswith("MAX"):
        return MAX + int(s[3:] or 0)
    if s.startswith("HALF"):
        return MAX // 2 + int(s[4:] or 0)
    return int(s)


def nontrivial(case):
    return any(len(o.split()) > 1 and o.split()[1] not in ("-", "0") for o in case.ops)


def distribution(cases, c_out):
    d = {}
    for i, c in enumerate(cases):
        fam = c.tags.get("fam", "corpus")
        d.setdefault("cases:" + fam, 0)
        d["cases:" + fam] += 1
        for o in c.ops:
            k = "op:" + o.split()[0]
            d[k] = d.get(k, 0) + 1
        for l in c_out.get(i, []):
            if l.startswith("P ") and " portable rc=" in l:
                k = "rc:" + l.split()[1] + ":" + l.split("rc=")[1].split()[0]
                d[k] = d.get(k, 0) + 1
    return d


def extra_stages(ctx):
    """dispatch: "both CPU code paths" means the vector build really takes the AVX2 path wherever the CPU (per gcc's own
    cpuid/XGETBV probe, __builtin_cpu_supports) can run it, and keeps saying so"""
    try:
        exe = cbuild.build_harness(**HARNESS)
    except cbuild.BuildError:
        return
    env = {k: v for k, v in os.environ.items() if k != "AWS_COMMON_AVX2"}
    rc, out = core.sh([exe], input="", env=env)
    m = re.search(r"I avx2=(\d) avx2_again=(\d) host_avx2=(\d)", out)
    if not m:
        ctx.machinery_broken("codec harness printed no dispatch probe line: " + out[-300:])
        return
    lib, again, host = (int(x) for x in m.groups())
    if lib != again or lib != host:
        ctx.violation(f"dispatch-{ctx.seed}", {"probe": m.group(0), "stream": "run-time dispatch (aws_common_private_has_avx2 / aws_cpu_has_feature)"},
                      f"aws_common_private_has_avx2() answered {lib} then {again} on a CPU whose AVX2 usability (gcc __builtin_cpu_supports) is {host}: "
                      + ("the vector code path is never taken here, so the two CPU paths are not both exercised" if host and not (lib and again)
                         else "the dispatcher would run AVX2 code on a CPU without it" if not host else "the cached answer changes between calls"),
                      no_input=True)
    elif host:
        ctx.notes.append("vector build used the AVX2 code path on this host (aws_common_private_has_avx2() = 1 = gcc's cpuid probe)")
    else:
        ctx.notes.append("this host has no AVX2 (library and gcc probe agree): the 'vector' build fell back to the portable path, "
                         "the differential comparison was vacuous; the model-level theorems c05_b64_avx2_* still hold")


MANIFEST = dict(
    category="proof",
    design_ref="5.5",
    text=("Lean 4 theorems over a model of the portable base64 / hex / UTF-8 code of source/encoding.c whose tables are "
          "regenerated from the source on every run: encode = RFC 4648 reference encoder (alphabet as a literal), decode∘encode = id, "
          "decode accepts exactly the canonical encodings and reports exactly the bytes it stored, the AVX2 code path (hand model of "
          "encoding_avx2.c, lane by lane) returns the same verdict / bytes / len as the portable one, length functions exact or "
          "overflow, hex lower-case / odd-length rule / round trip, UTF-8 verdict and code points independent of chunking, with and "
          "without an on_codepoint callback "
          "(and equal to RFC 3629 minus the U+10FFFF bound). Tied to /repo by a correspondence run of the compiled model against "
          "two builds of encoding.c in one binary (portable, and vector = AVX2 via cpuid) with canary-measured writes, "
          "plus a direct oracle using Python's base64/binascii."),
    note=("Trusted: Lean kernel; hand-written models Model/Codec.lean and Model/CodecAvx2.lean (tied by correspondence only); the "
          "documented semantics of the AVX2 intrinsics; table / constant extractor; harness. CPU-path independence = theorems "
          "c05_b64_avx2_decode_eq_portable / c05_b64_avx2_encode_eq_portable between the two models + three-way differential run "
          "(every length 0..200, every byte value at every position of the final quantum, capacities)."),
    technique="Lean 4 proofs by induction over byte lists + exhaustive `decide` over the generated 256-entry tables + three-way differential run",
)
