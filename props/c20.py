"""C20 — threads run once, run their exit callbacks, managed threads all get joined."""
import os, re
from lib.core import Case, GenError, write_if_changed, LEAN
from lib import cbuild, detsched, core
from gen import threads_gen, cfun

ID = "C20"
LEAN_MODULES = ["AwsVerif.Props.C20"]
COMPONENT = "threads"
# The P log depends on the schedule taken; a model/implementation difference is conformance drift
# unless the direct oracle below finds a property clause violated on the implementation's own log.
P_DIFF_CONCRETE = False
HARNESS = dict(name="threads", flavour="asan", extra_srcs=[detsched.SRC], ldflags=detsched.LDFLAGS)
TIMEOUT = 600
_HANG_FILE = os.path.join(cbuild.CACHE, f"c20-hangs-{os.getpid()}")   # harness watchdog: hangs on record (see threads.c)
C_ENV = {"C20_HANG_FILE": _HANG_FILE}
TRUSTED = ["hand model lean/AwsVerif/Model/Threads.lean (tied by this correspondence run only)",
           "harness/detsched.c: simulated pthread mutex/condvar/create/join semantics, serialised execution, virtual time",
           "lean/Driver/Threads.lean: re-implementation of detsched's pick rule (enabled set, choice list, fair default policy, time jumps)"]
ASSUMPTIONS = ["sequentially consistent interleavings that switch only at pthread lock/unlock/cond/create/join/detach/nanosleep calls",
               "pthread_cond_signal wakes the longest-waiting thread; spurious wake-ups are included",
               "one thread per slot; join_all_managed is called from the main thread only (as aws_common_library_clean_up does)",
               "c20_no_deadlock: WFProgress programs (each slot launched from one place; a manual thread is joined at most once and "
               "only by the thread that launches it - a pthread_join cycle among user threads deadlocks in plain pthreads too); "
               "deadlock freedom = some thread can always step; termination of the busy join-all loop additionally needs a fair scheduler",
               "thread-local storage (tl_wrapper) and real stacks are not modelled; thread functions terminate",
               "now + timeout < 2^64 (the deadline of aws_thread_join_all_managed does not wrap)",
               "handle reuse: the model has one thread per slot, so every launch/join cycle of a reused handle is a slot of its own "
               "(`U@h`) and the handle state is carried by the implementation only (c20_launch_marks_joinable states that a "
               "successful launch sets it whatever it was); reuse after a MANAGED launch is excluded: /repo leaves MANAGED in the handle",
               "library re-initialisation with an empty pending-join list: /repo drops wrappers parked there (never joined, "
               "count stuck); the model counts them (`dropped`, reported by the driver) and the generator keeps that window closed"]
RULE = ("programs of 1..6 thread slots (manual/managed, nested launches, 0..4 at-exit registrations, joins, count reads, "
        "join-all racing completions, timeouts with virtual time, injected pthread_create failures, launches with a "
        "cpu_id (valid / not honourable: first create fails with EINVAL and the library retries unpinned / retry fails too), "
        "named threads, pthread_create as two schedule points (create / return to the creator), aws_thread_call_once on "
        "shared flags whose callbacks register at-exit callbacks, repeated aws_common_library_init, launches in which "
        "pthread_attr_init / setstacksize / getstacksize fails (launch fails) or pthread_attr_setaffinity_np fails (retried "
        "unpinned), managed-join timeouts at the type limits (2^31-1 .. 2^63-1, 2^63, 2^63+1, 0xC000.., 2^64-1-now) with the "
        "virtual clock started near 0 / at 2^40 / 2^62 / above 2^63, aws_common_library_clean_up + init cycles whose "
        "internal join-all runs into the timeout while a managed thread sleeps, one aws_thread handle going through 2..4 "
        "manual launch/join cycles without re-initialisation) x schedules "
        "(choice lists from the PRNG, spurious wake-ups, and every schedule of small programs up to a preemption bound, "
        "enumerated on the model); non-trivial = at least two threads of which one is managed")
NOT_PROVED = []

ACT = re.compile(r"^([LPQREFGHJDACWTYSOINX])(\d*)(n?)$")   # trailing n on a launch: the thread gets a name
# L: cpu_id -1; P: cpu 0; Q: cpu 1000, first pthread_create fails EINVAL, retried unpinned; R: retry fails too;
# E / F / G: pthread_attr_init / pthread_attr_setstacksize / pthread_attr_getstacksize fails, the launch fails;
# H: cpu 0, pthread_attr_setaffinity_np fails, retried unpinned
LAUNCH = "LPQREFGH"
U64 = 1 << 64
# managed-join timeouts at the limits of the types involved (uint64_t timeout, int64_t wait duration, uint32/int32)
BIG_TIMEOUTS = [(1 << 31) - 1, 1 << 31, 1 << 32, (1 << 63) - 1, 1 << 63, (1 << 63) + 1, 0xC000000000000000, U64 - 1]
CLOCKS = [1, 999, 1 << 40, 1 << 62, (1 << 63) + 12345, 0xE000000000000000]
MARGIN = 10 ** 9   # more virtual time than any generated run consumes (sleeps, clock ticks)


def regen(ctx):
    """timeout arithmetic of aws_thread_join_all_managed / aws_condition_variable_wait_for, translated from /repo"""
    try:
        text = threads_gen.generate(cbuild.REPO, cbuild.config_include())
    except cfun.GenError as e:
        raise GenError(str(e))
    write_if_changed(os.path.join(LEAN, "AwsVerif", "Gen", "ThreadsTime.lean"), text)


def legal_timeout(rng, start):
    """a timeout from BIG_TIMEOUTS that keeps now + timeout below 2^64 for the whole run"""
    now = start or 10 ** 9
    ok = [t for t in BIG_TIMEOUTS if now + t + MARGIN < U64]
    ok.append(U64 - 1 - now - MARGIN)
    return rng.choice(ok)


def gen_reuse(rng):
    """one aws_thread handle goes through 2..4 manual launch / join cycles without being re-initialised (legal: after a
    completed join the handle is JOIN_COMPLETED and aws_thread_launch marks it JOINABLE again), mixed with other
    threads.  Every cycle is a slot of its own (`U@h`: launched on the handle of slot h); the owner of the handle runs the
    cycles in order.  Reuse after a MANAGED launch is not generated: the unchanged library leaves MANAGED in the handle
    (after a failed as well as after a successful launch), so a later manual launch... is never joinable from outside and
    a managed relaunch double-counts (recorded observation) - `aws_thread_init` before each launch is the implied contract
    there."""
    cycles = rng.randint(2, 4)
    nother = rng.randint(0, min(3, 7 - cycles - 1))
    owner_is_thread = nother < 3 and rng.random() < 0.4
    chain = list(range(1, cycles + 1))
    nxt = cycles + 1
    owner = 0
    ops = []

    def quick():
        acts = [f"A{c}" for c in rng.sample(range(1, 10), rng.choice([0, 1, 1, 2]))]
        acts += ["Y"] * rng.choice([0, 1, 2]) + ["N"] * rng.choice([0, 0, 1]) + ["C"] * rng.choice([0, 0, 1])
        rng.shuffle(acts)
        return acts
    seq = []
    for i, c in enumerate(chain):
        kind = "U" if i == 0 else f"U@{chain[0]}"
        ops.append((f"slot {c} {kind} " + " ".join(quick())).rstrip())
        seq.append(rng.choice(["L", "L", "L", "P", "H", "Q"]) + str(c) + ("n" if rng.random() < 0.3 else ""))
        seq += ["Y"] * rng.choice([0, 0, 1])
        seq.append(f"J{c}")
        if rng.random() < 0.2:
            seq.append(rng.choice([f"J{c}", f"D{c}"]))    # on the JOIN_COMPLETED handle: no-ops
    if owner_is_thread:
        owner = nxt
        nxt += 1
    main, managed = [], 0
    for _ in range(nother):
        k = nxt
        nxt += 1
        m = rng.random() < 0.6
        managed += m
        ops.append((f"slot {k} {'M' if m else 'U'} " + " ".join(quick())).rstrip())
        main.append(f"L{k}" + ("n" if rng.random() < 0.3 else ""))
        if not m:
            main.append(f"J{k}")

    def weave(base, extra):
        out = list(base)
        for e in extra:
            # an item keeps its order relative to the items of `extra` placed before it only when it is a join
            lo = out.index("L" + e[1:]) + 1 if e[0] == "J" and ("L" + e[1:]) in out else 0
            lo = max([lo] + [i + 1 for i, x in enumerate(out) if e[0] == "J" and x.rstrip("n")[1:] == e[1:] and x[0] in LAUNCH])
            out.insert(rng.randint(lo, len(out)), e)
        return out
    if owner:
        ops.append(f"slot {owner} U " + " ".join(weave(seq, quick())))
        main = weave(main, [f"L{owner}"])
        main.insert(rng.randint(main.index(f"L{owner}") + 1, len(main)), f"J{owner}")
    else:
        main = weave(seq, main)
    main.append("W")
    if rng.random() < 0.3:
        main.append("C")
    ops.append("main " + " ".join(main))
    return ops, {"n": nxt - 1, "managed": managed, "time": False, "reuse": cycles}


def gen_timed_cleanup(rng):
    """aws_common_library_clean_up whose internal join-all runs into the configured timeout while a managed thread is
    still asleep; the library is initialised again, the sleeper is then joined by an untimed join-all.  Every managed
    thread is either a sleeper or cannot block, so nothing hands itself over between the clean-up's last list swap
    and the re-initialisation (that window loses the parked thread on /repo: see DESIGN observations)."""
    to = rng.choice([120, 600, 3000, 5 * 10 ** 9])   # the last one does not fit 32 bits and really expires
    n = rng.randint(1, 4)
    sleepers = {1} | {k for k in range(2, n + 1) if rng.random() < 0.3}
    if to > 10 ** 6:
        # a single sleeper would leave main polling the clock (50 ns per read) for the whole sleep
        n = max(n, 2)
        sleepers |= {2}
    ops, launches = [], []
    for k in range(1, n + 1):
        acts = [f"A{c}" for c in rng.sample(range(1, 10), rng.choice([0, 1, 2]))]
        acts += ["Y"] * rng.choice([0, 1]) + ["N"] * rng.choice([0, 0, 1]) + ["C"] * rng.choice([0, 0, 1])
        rng.shuffle(acts)
        if k in sleepers:
            acts = [f"S{to * rng.choice([20, 50])}"] + acts
        ops.append((f"slot {k} M " + " ".join(acts)).rstrip())
        launches.append(f"L{k}" + ("n" if rng.random() < 0.3 else ""))
    main = launches + ["C"] * rng.choice([0, 1])
    main.insert(rng.randint(0, len(main)), f"T{to}")
    main += [rng.choice("XXW"), "T0"] + ["C"] * rng.choice([0, 1]) + ["W"] + ["C"] * rng.choice([0, 1])
    ops.append("main " + " ".join(main))
    ops.append("tick 50")
    if rng.random() < 0.3:
        ops.append(f"clock {rng.choice(CLOCKS[:5])}")
    return ops, {"n": n, "managed": n, "time": True, "timed_cleanup": True}


# ------------------------------------------------------------------ generator
def gen_program(rng, nmax=6, allow_time=True):
    if allow_time and rng.random() < 0.05:
        return gen_timed_cleanup(rng)
    if allow_time and rng.random() < 0.06:
        return gen_reuse(rng)
    n = rng.randint(1, nmax) if rng.random() < 0.8 else rng.randint(1, 3)
    use_time = allow_time and rng.random() < 0.2
    start = rng.choice(CLOCKS) if rng.random() < 0.3 else 0
    # a "practically forever" timeout: never expires, join-all must behave as without one
    forever = allow_time and not use_time and rng.random() < 0.15
    parent = {}
    managed = {}
    children = {k: [] for k in range(0, n + 1)}
    detached = set()
    for k in range(1, n + 1):
        managed[k] = rng.random() < 0.65
        cands = [p for p in range(0, k) if p not in detached]
        p = 0 if rng.random() < 0.5 else rng.choice(cands)
        parent[k] = p
        children[p].append(k)
        if not managed[k] and rng.random() < 0.12:
            detached.add(k)
    bodies = {}
    once_flags = {}
    if rng.random() < 0.4:
        for fid in rng.sample(range(0, 4), rng.choice([1, 1, 2])):
            once_flags[fid] = rng.sample(range(10, 20), rng.choice([0, 1, 1, 2]))
            if len(once_flags[fid]) == 2 and rng.random() < 0.25:
                once_flags[fid][1] = once_flags[fid][0]      # the once-callback registers the same at-exit id twice
    for k in range(0, n + 1):
        acts = []
        ncb = rng.choice([0, 0, 1, 1, 2, 3, 4]) if k else (1 if rng.random() < 0.1 else 0)
        cbs = rng.sample(range(1, 10), ncb)
        lop = {c: ("L" if rng.random() < 0.62 else rng.choice("PQQQRHHEFG")) for c in children[k]}
        ltok = {c: f"{lop[c]}{c}" + ("n" if rng.random() < 0.35 else "") for c in children[k]}
        items = [f"A{c}" for c in cbs] + [ltok[c] for c in children[k]]
        items += ["Y"] * rng.choice([0, 0, 1, 1, 2, 3])
        # the same at-exit id (same callback and user_data) registered again on the thread: every registration runs
        adjacent = []
        if cbs and k and rng.random() < 0.25:
            for _ in range(rng.choice([1, 1, 2])):
                c = rng.choice(cbs)
                (adjacent if rng.random() < 0.35 else items).append(f"A{c}")
        if k and rng.random() < 0.1:
            mine = [c for fid in once_flags for c in once_flags[fid]]
            if mine:
                items.append(f"A{rng.choice(mine)}")          # an id that a once-callback may register on this thread too
        # aws_thread_call_once on shared flags (flags whose callback registers at-exit callbacks are only used
        # by aws threads: on a non-aws thread the library's temporary wrapper is uninitialised there) and
        # repeated aws_common_library_init
        for fid in once_flags:
            if (k != 0 or not once_flags[fid]) and rng.random() < 0.45:
                items += [f"O{fid}"] * rng.choice([1, 1, 2])
        if rng.random() < 0.3:
            items += ["I"] * rng.choice([1, 1, 2])
        if rng.random() < 0.25:
            items += ["N"]                                           # aws_thread_current_name
        items += ["C"] * rng.choice([0, 0, 0, 1, 2])
        if use_time and k and rng.random() < 0.5:
            items.append(f"S{rng.choice([1, 100, 400, 1500])}")
        rng.shuffle(items)
        for a in adjacent:                                        # immediately repeated registration
            items.insert(items.index(a) + 1, a)
        # launches keep child order irrelevant; joins of manual children come after their launch
        if k and rng.random() < 0.15:
            items.insert(rng.randint(0, len(items)), f"J{k}")       # self-join: refused with EDEADLK, state unchanged
        for c in children[k]:
            if not managed[c]:
                if rng.random() < 0.1:
                    # join of a handle that has not been launched yet (no-op)
                    items.insert(rng.randint(0, items.index(ltok[c])), f"J{c}")
                pos = items.index(ltok[c])
                at = rng.randint(pos + 1, len(items))
                items.insert(at, f"D{c}" if c in detached else f"J{c}")
                if c in detached and rng.random() < 0.25:
                    items.insert(items.index(f"D{c}") + 1, f"J{c}")   # join after detach: refused with NOT_JOINABLE
                if c not in detached and rng.random() < 0.3:
                    jpos = len(items) - 1 - items[::-1].index(f"J{c}")
                    items.insert(jpos + 1, f"D{c}")
                if c not in detached and rng.random() < 0.2:
                    jpos = len(items) - 1 - items[::-1].index(f"J{c}")
                    items.insert(jpos + 1, f"J{c}")                 # second join: the handle is JOIN_COMPLETED
        if k == 0:
            timed = False
            extra = []
            if use_time and rng.random() < 0.7:
                extra.append(f"T{rng.choice([1, 120, 600, 3000])}")
                timed = True
            if forever:
                extra.append(f"T{legal_timeout(rng, start)}")
            for _ in range(rng.choice([0, 0, 1, 2])):
                extra.append("W")
            for e in extra:
                items.insert(rng.randint(0, len(items)), e)
            if timed or (any(i.startswith("T") for i in items) and not (forever and rng.random() < 0.5)):
                items.append("T0")
            # the final join-all is issued either directly or through aws_common_library_clean_up (no timeout that
            # can expire then)
            items.append("X" if (not timed and not use_time and rng.random() < 0.3) else "W")
            if rng.random() < 0.3 and items[-1] == "W":
                items.append("C")
        acts = items
        bodies[k] = acts
    if bodies[0] and bodies[0][-1] == "X":
        # aws_common_library_init racing with the clean-up is the caller's error: keep re-inits out of the other threads
        for k in range(1, n + 1):
            bodies[k] = [a for a in bodies[k] if a != "I"]
    ops = [("once %d " % fid + " ".join(map(str, regs))).rstrip() for fid, regs in sorted(once_flags.items())]
    ops += [f"slot {k} {'M' if managed[k] else 'U'} " + " ".join(bodies[k]) for k in range(1, n + 1)]
    ops = [o.rstrip() for o in ops]
    ops.append(("main " + " ".join(bodies[0])).rstrip())
    nl = sum(1 for k in bodies for a in bodies[k] if a[0] in LAUNCH)
    tags = {"n": n, "managed": sum(managed.values()), "time": use_time}
    if nl and rng.random() < 0.12:
        ops.append(f"fail {rng.randrange(nl)} {rng.choice([11, 11, 12, 1])}")
        tags["fail"] = True
    if use_time:
        ops.append("tick 50")
    elif forever and rng.random() < 0.3:
        ops.append("tick 7")
    if start and (use_time or forever):
        ops.append(f"clock {start}")
        tags["clock"] = True
    tags["forever"] = forever
    return ops, tags


def gen_choices(rng):
    r = rng.random()
    ln = rng.choice([0, 5, 20, 60, 120, 200])
    if r < 0.1:
        return []
    if r < 0.45:
        lst = [rng.randint(1, 7) for _ in range(ln)]
    elif r < 0.8:
        lst = [rng.randint(1, 7) if rng.random() < 0.15 else 0 for _ in range(ln)]
    else:
        lst = [rng.choice([1, 2]) if rng.random() < 0.7 else rng.randint(0, 7) for _ in range(ln)]
    if rng.random() < 0.25:
        lst = [(-rng.randint(1, 3)) if rng.random() < 0.08 else x for x in lst]
    return lst


def gen_case(rng):
    ops, tags = gen_program(rng)
    ch = gen_choices(rng)
    ops.append(("run choices " + " ".join(map(str, ch))).rstrip())
    tags["sched"] = "choices"
    return Case(ops, tags)


# small programs whose schedules are enumerated on the model (all schedules with <= pb preemptions; prefixes
# cut at `depth` picks are completed by the fair default policy) and replayed on the implementation
SMALL = [
    # (name, program lines, quick (pb, depth, cap), thorough (pb, depth, cap))
    ("two-managed", ["slot 1 M", "slot 2 M", "main L1 L2 W"], (2, 60, 400), (3, 70, 20000)),
    ("nested-managed", ["slot 1 M L2 A1", "slot 2 M A2 A3", "main L1 W"], (2, 60, 400), (3, 70, 20000)),
    ("three-managed", ["slot 1 M", "slot 2 M", "slot 3 M", "main L1 L2 L3 W"], (1, 80, 300), (2, 90, 20000)),
    ("manual-and-managed", ["slot 1 M A1 A2", "slot 2 U A3 L3", "slot 3 M", "main L1 L2 J2 W C"], (1, 80, 300), (2, 90, 6000)),
    ("create-fails", ["slot 1 M", "slot 2 M", "main L1 L2 W", "fail 1 11"], (2, 60, 300), (3, 70, 4000)),
    ("first-create-fails", ["slot 1 M", "main L1 C W", "fail 0 12"], (2, 40, 200), (4, 50, 2000)),
    ("count-reader", ["slot 1 M C", "slot 2 M", "main L1 L2 C W C"], (1, 80, 300), (2, 90, 5000)),
    ("timeout", ["slot 1 M S400", "main T120 L1 W T0 W", "tick 50"], (1, 120, 200), (2, 160, 3000)),
    ("early-joinall", ["slot 1 M Y Y", "main W L1 W W"], (2, 60, 300), (3, 80, 4000)),
    # cpu pinning that cannot be honoured: first pthread_create fails with EINVAL, the library retries unpinned
    ("pinned-retry", ["slot 1 M A1", "slot 2 U", "main Q1 Q2 J2 W C"], (2, 70, 400), (3, 90, 8000)),
    ("pinned-retry-nested", ["slot 1 M Q2", "slot 2 M", "main P1 W"], (2, 70, 300), (3, 90, 6000)),
    ("pinned-retry-timeout", ["slot 1 M", "main T200 Q1 W T0 W", "tick 50"], (1, 120, 200), (2, 160, 3000)),
    ("pinned-retry-fails", ["slot 1 M", "slot 2 M", "main R1 C L2 W"], (2, 70, 300), (3, 90, 5000)),
    # named threads x failing create (the name string must be released by the failed-launch cleanup)
    ("named-create-fails", ["slot 1 M", "slot 2 U", "slot 3 M", "main R1n Q2n J2 L3n W C"], (1, 90, 300), (2, 110, 6000)),
    ("named-fail-unpinned", ["slot 1 M", "slot 2 M A1", "main L1n L2n W", "fail 0 11"], (2, 70, 300), (3, 90, 5000)),
    # the creator is preempted between pthread_create and its return while the new thread finishes and is
    # joined by its own child (thread-id hand-over window)
    ("create-window", ["slot 1 M L2", "slot 2 M", "main L1 W"], (2, 70, 500), (3, 90, 8000)),
    # at-exit registrations made inside a call_once callback; the flag is shared by two threads
    ("once-atexit", ["once 1 11", "slot 1 M A1 O1 A2", "slot 2 U O1 O1 A3", "main L1 L2 J2 W"], (1, 90, 300), (2, 110, 5000)),
    ("once-two-regs", ["once 0 12 13", "slot 1 M O0 A1", "slot 2 M A2 O0", "main L1 L2 W"], (1, 90, 300), (2, 110, 5000)),
    # the library is initialised again (as every dependent library does) while a finished managed thread's wrapper
    # is parked in the pending-join list
    ("reinit-main", ["slot 1 M", "slot 2 M Y", "main L1 L2 I W C"], (2, 80, 500), (3, 100, 8000)),
    ("reinit-thread", ["slot 1 M", "slot 2 M Y I Y", "slot 3 U I", "main L1 L2 L3 J3 W"], (1, 100, 400), (2, 120, 8000)),
    # refused joins: a self-join (EDEADLK) must leave the handle JOINABLE so that the owner's join still waits
    ("self-join", ["slot 1 U Y J1 A1 Y", "main L1 Y J1 J1"], (2, 60, 400), (3, 80, 6000)),
    ("self-join-managed-mix", ["slot 1 U J1 L2 A1", "slot 2 M J2", "main J1 L1 J1 W"], (1, 90, 400), (2, 110, 6000)),
    # shut-down through aws_common_library_clean_up (which must join all managed threads), thread names
    ("lib-cleanup", ["slot 1 M N", "slot 2 M Y", "main L1n L2 N X"], (2, 80, 400), (3, 100, 6000)),
    # a pthread_attr_* step of the launch fails: nothing may stay counted (managed) or allocated
    ("attr-fails", ["slot 1 M", "slot 2 M A1", "slot 3 U", "main E1 C L2 G3 J3 W C"], (2, 70, 300), (3, 90, 5000)),
    ("attr-fails-stack-affinity", ["slot 1 M F2n A1", "slot 2 M", "slot 3 M", "main L1 H3n W C"], (2, 70, 300), (3, 90, 5000)),
    # managed-join timeouts at the type limits: never expire, join-all behaves as without a timeout
    ("timeout-2^63", ["slot 1 M Y", "slot 2 M", f"main T{1 << 63} L1 L2 W C"], (2, 70, 300), (3, 90, 5000)),
    ("timeout-max-legal", ["slot 1 M Y", "slot 2 M", f"main L1 L2 T{U64 - 1 - 1000} W C", "clock 1000"], (2, 70, 300), (3, 90, 5000)),
    ("timeout-c000-ticks", ["slot 1 M S400", "slot 2 M", f"main T{0xC000000000000000} L1 L2 W C", "tick 50", "clock 1"], (1, 100, 300), (2, 120, 4000)),
    # the clean-up's internal join-all times out while a managed thread sleeps; the library is initialised again
    ("timeout-above-2^32-expires", ["slot 1 M S20000000000", "slot 2 M S20000000000 A1", "main T5000000000 L1 L2 W T0 W C", "tick 50"],
     (1, 110, 300), (2, 130, 4000)),
    # one handle, several manual launch/join cycles without re-initialisation (slot 2 and 3 run on slot 1's handle)
    ("handle-reuse", ["slot 1 U A1", "slot 2 U@1 A2 Y", "slot 3 U@1 A3", "slot 4 M Y", "main L1 L4 J1 L2n J2 J2 P3 J3 W"], (2, 80, 400), (3, 100, 8000)),
    ("handle-reuse-nested", ["slot 1 U Y", "slot 2 U@1 A1 A2", "slot 3 U L1 J1 H2 J2 D2", "main L3 J3 W"], (2, 80, 400), (3, 100, 6000)),
    # the same at-exit id registered repeatedly (A,B,A and A,A) and again from a once-callback: all run, LIFO
    ("atexit-repeats", ["once 0 2 2", "slot 1 M A1 A2 A1 O0 A1", "slot 2 U A3 A3 O0", "main L1 L2 J2 W"], (1, 90, 300), (2, 110, 5000)),
    ("cleanup-timeout", ["slot 1 M S20000 A1", "slot 2 M", "main L1 L2 T600 X T0 W C", "tick 50"], (1, 110, 300), (2, 130, 4000)),
    ("create-window-3", ["slot 1 M L2n", "slot 2 M L3", "slot 3 M", "main L1n W"], (1, 100, 400), (2, 120, 8000)),
]


def model_bin():
    return os.path.join(core.LEAN, ".lake", "build", "bin", "awsmodel")


def explore_cases(tier):
    out = []
    if not os.path.exists(model_bin()):
        return out
    for name, prog, q, th in SMALL:
        pb, depth, cap = q if tier == "quick" else th
        txt = "case 0\n" + "\n".join(prog) + f"\nexplore {pb} {depth} {cap}\n"
        rc, o = core.sh([model_bin(), "threads"], input=txt, timeout=300)
        nslots = sum(1 for l in prog if l.startswith("slot"))
        nman = sum(1 for l in prog if l.startswith("slot") and l.split()[2] == "M")
        for l in o.splitlines():
            if l.startswith("X"):
                out.append(Case(prog + ["run sched" + l[1:]],
                                {"n": nslots, "managed": nman, "exhaustive": True, "small": name, "pb": pb}))
    return out


def gen_cases(rng, tier):
    os.makedirs(cbuild.CACHE, exist_ok=True)
    if os.path.exists(_HANG_FILE):
        os.remove(_HANG_FILE)
    n = 3000 if tier == "quick" else 250000
    return explore_cases(tier) + [gen_case(rng) for _ in range(n)]


# ------------------------------------------------------------------ direct oracle (implementation output only)
def parse_program(case):
    prog = {"slots": {}, "main": [], "fail": None}
    for op in case.ops:
        t = op.split()
        if t[0] == "slot" and len(t) >= 3:
            prog["slots"][int(t[1])] = (t[2] == "M", t[3:])
            if "@" in t[2]:
                prog.setdefault("alias", {})[int(t[1])] = int(t[2].split("@")[1])
        elif t[0] == "main":
            prog["main"] = t[1:]
        elif t[0] == "fail":
            prog["fail"] = (int(t[1]), int(t[2]))
    return prog


def oracle(case, lines):
    errs = []
    P = [l for l in lines if l.startswith("P ")]
    if any(l == "bad-op" for l in lines):
        return ["harness rejected the op file (bad-op)"]
    if any(l.startswith("P MONITOR not run") for l in lines):
        return []
    if any(l.startswith("P MONITOR wall-clock") for l in lines):
        return ["the case hung outside any schedule point (wall-clock watchdog)"]
    if not P:
        return []
    prog = parse_program(case)
    managed = {k: v[0] for k, v in prog["slots"].items()}
    idx = {}
    launch_ok, launch_line, runs, dones, regs, cbs, joins = {}, {}, {}, {}, {}, {}, {}
    real_joins, user_join_errors = {}, 0
    for i, l in enumerate(P):
        t = l.split()
        if t[1] == "launch":
            k = int(t[2][1:])
            if k in launch_line:
                errs.append(f"slot {k} launched twice (generator fault)")
            launch_line[k] = i
            launch_ok[k] = t[4] == "rc=OK"
        elif t[1] == "run":
            k = int(t[2][1:])
            runs.setdefault(k, []).append(i)
            if t[3] != f"arg={k}":
                errs.append(f"thread of slot {k} ran with the wrong argument: {l}")
        elif t[1] == "done":
            dones.setdefault(int(t[2][1:]), []).append(i)
        elif t[1] == "reg":
            k = int(t[2][1:])
            ok = t[4] == "rc=OK"
            if k == 0 and ok:
                errs.append("at-exit registration accepted on a non-aws thread")
            if k != 0 and not ok:
                errs.append(f"at-exit registration refused on aws thread s{k}: {l}")
            if ok:
                regs.setdefault(k, []).append((i, t[3]))
        elif t[1] == "cb":
            k = int(t[2][1:])
            cbs.setdefault(k, []).append((i, t[3], t[4]))
        elif t[1] == "join":
            k = int(t[2][1:])
            kv = dict(x.split("=", 1) for x in t[3:] if "=" in x)
            if not all("=" in x for x in t[3:]):
                errs.append(f"aws_thread_join returned an error code that has no registered name: {l}")
            rc, pre, post, by = kv.get("rc"), kv.get("pre"), kv.get("post"), kv.get("by")
            if rc != "OK":
                user_join_errors += 1
                if post != pre:
                    errs.append(f"a refused aws_thread_join on slot {k} ({rc}) changed the handle state {pre} -> {post}")
                if rc == "AWS_ERROR_THREAD_DEADLOCK_DETECTED" and by != f"s{k}":
                    errs.append(f"aws_thread_join reported a deadlock for a join that is not a self-join: {l}")
            elif pre == "JOINABLE":
                if post != "JOIN_COMPLETED":
                    errs.append(f"successful join on slot {k} left the handle in state {post}")
                real_joins.setdefault(k, []).append(i)
            elif post != pre:
                errs.append(f"aws_thread_join on a non-joinable handle of slot {k} changed its state {pre} -> {post}")
            if kv.get("id") == "BAD":
                errs.append(f"aws_thread_get_id of slot {k}'s handle is not the id the thread saw itself: {l}")
            if by == f"s{k}" and pre == "JOINABLE" and rc != "AWS_ERROR_THREAD_DEADLOCK_DETECTED":
                errs.append(f"self-join on slot {k} was not refused: {l}")
            joins.setdefault(k, []).append(i)
    # a successful manual launch leaves the handle JOINABLE (whatever state it was in before, e.g. JOIN_COMPLETED on a
    # reused handle): the launcher's first join after it must be a real join
    allacts = [a for v in prog["slots"].values() for a in v[1]] + list(prog["main"])
    for k, ok in launch_ok.items():
        if not ok or managed.get(k, False) or f"D{k}" in allacts:
            continue
        after = [i for i in joins.get(k, []) if i > launch_line[k] and f"by=s{k} " not in P[i]]
        if after and "pre=JOINABLE" not in P[after[0]]:
            errs.append(f"slot {k}: the handle of a successfully launched manual thread was not JOINABLE at its first join: {P[after[0]]}")
    # thread names: a thread launched with options->name sees that name, others do not
    named_slot, launcher = {}, {}
    bodies = {k: v[1] for k, v in prog["slots"].items()}
    bodies[0] = prog["main"]
    for j, body in bodies.items():
        for a in body:
            if a[0] in LAUNCH and a[1:].rstrip("n").isdigit():
                named_slot[int(a[1:].rstrip("n"))] = a.endswith("n")
                launcher[int(a[1:].rstrip("n"))] = j

    def has_name(k, depth=0):   # a pthread inherits its creator's name until it sets its own
        if k == 0 or depth > 8 or k not in launcher:
            return False
        return named_slot.get(k, False) or has_name(launcher[k], depth + 1)
    for l in P:
        t = l.split()
        if t[1] == "name":
            k = int(t[2][1:])
            want = "c20-thread" if has_name(k) else "other"
            if t[3] != want:
                errs.append(f"aws_thread_current_name on slot {k} gave {t[3]}, expected {want}")
    # run-once
    for k, ok in launch_ok.items():
        r = runs.get(k, [])
        if ok and len(r) != 1:
            errs.append(f"slot {k}: launched OK but its function ran {len(r)} times")
        if not ok and r:
            errs.append(f"slot {k}: launch failed but its function ran")
    for k in runs:
        if k not in launch_ok:
            errs.append(f"slot {k} ran without a launch")
        d = dones.get(k, [])
        if len(d) != 1 or d[0] < runs[k][0]:
            errs.append(f"slot {k}: function end seen {len(d)} times")
    # at-exit: on that thread, once each, reverse order, after the function, before join returns
    for k in set(list(regs) + list(cbs)):
        want = [c for _, c in reversed(regs.get(k, []))]
        got = [c for _, c, _ in cbs.get(k, [])]
        if dones.get(k) and got != want:
            errs.append(f"slot {k}: at-exit callbacks ran as {got}, registered (reversed) {want}")
        for i, c, on in cbs.get(k, []):
            if on != f"on=s{k}":
                errs.append(f"slot {k}: callback {c} ran on another thread ({on})")
            if dones.get(k) and i < dones[k][0]:
                errs.append(f"slot {k}: callback {c} ran before the function returned")
    for k, js in real_joins.items():
        if len(js) > 1:
            errs.append(f"slot {k} was really joined {len(js)} times")
        if launch_ok.get(k) and not managed.get(k, False):
            last = max([dones.get(k, [10**9])[0]] + [i for i, _, _ in cbs.get(k, [])])
            if not dones.get(k) or js[0] < last:
                errs.append(f"join on slot {k} returned before its function and at-exit callbacks completed")
            if len(cbs.get(k, [])) != len(regs.get(k, [])):
                errs.append(f"join on slot {k} returned with at-exit callbacks outstanding")
    # join-all.  Main's join-all calls in program order with the timeout configured at that point (only main sets it)
    calls, cur = [], 0
    for a in prog["main"]:
        if a.startswith("T") and a[1:].isdigit():
            cur = int(a[1:])
        elif a in ("W", "X"):
            calls.append((a, cur))
    any_timed = any(a.startswith("T") and a != "T0" for a in prog["main"])
    begin, ncall, void = None, 0, None

    def kvs(l):
        return dict(x.split("=", 1) for x in l.split()[2:] if "=" in x)

    def finished_check(i, what):
        for k, li in launch_line.items():
            if managed.get(k) and launch_ok[k] and li < begin[0]:
                fin = dones.get(k, [])
                if not fin or fin[0] > i:
                    errs.append(f"{what} but managed slot {k} (launched before the call) had not finished")
                elif any(ci > i for ci, _, _ in cbs.get(k, [])) or len(cbs.get(k, [])) != len(regs.get(k, [])):
                    errs.append(f"{what} before the at-exit callbacks of managed slot {k}")

    def timeout_check(l, what):
        t_end = int(kvs(l).get("t", "0"))
        by, to, t0 = begin[1], begin[2], begin[3]
        if by != 0:
            if not any_timed:
                errs.append(f"{what} although no timeout was configured")
        elif to == 0:
            errs.append(f"{what} although no timeout was configured")
        elif t_end - t0 < to:
            errs.append(f"{what} after {t_end - t0} ns of virtual time, before the configured timeout of {to} ns had passed")

    for i, l in enumerate(P):
        if l.startswith("P joinall begin"):
            by = int(l.split()[3][1:])
            to = 0
            if by == 0:
                if ncall < len(calls):
                    to = calls[ncall][1]
                ncall += 1
            begin = (i, by, to, int(kvs(l).get("t", "0")))
            void = None
        elif l.startswith("P joinall rc="):
            if begin is None:
                errs.append("joinall return without begin")
                continue
            rc = kvs(l)["rc"]
            if rc == "OK":
                finished_check(i, "join_all_managed returned OK")
            elif rc == "VOID":
                void = (i, l, begin)   # aws_common_library_clean_up: judged by the managed count printed next
                continue
            else:
                timeout_check(l, "join_all_managed failed")
            begin = None
        elif l.startswith("P count") and void is not None and l.split()[2] == f"s{void[2][1]}":
            vi, vl, begin = void
            void = None
            if int(l.split()[3]) == 0:
                finished_check(vi, "aws_common_library_clean_up + init left a managed count of 0")
            else:
                timeout_check(vl, f"aws_common_library_clean_up left {l.split()[3]} managed thread(s) unjoined")
            begin = None
        if l.startswith("P count"):
            nmax = sum(1 for v in managed.values() if v)
            if int(l.split()[3]) > nmax:
                errs.append(f"managed thread count {l.split()[3]} exceeds the number of managed threads {nmax}")
    end = [l for l in P if l.startswith("P end")]
    if end:
        kv = dict(x.split("=") for x in end[0].split()[2:])
        if kv["deadlock"] != "0":
            errs.append("deadlock: " + " / ".join(l for l in P if l.startswith("P blocked")))
        if kv["livelock"] != "0":
            errs.append("no progress within the step bound (livelock)")
        # a join the library refused with NOT_JOINABLE (join after detach) is the user's error and counted by the scheduler
        not_joinable = sum(1 for l in P if l.startswith("P join") and "rc=AWS_ERROR_THREAD_NOT_JOINABLE" in l)
        if int(kv["misuse"]) > not_joinable:
            errs.append("pthread misuse reported by the scheduler (unlock by non-owner / join of a joined thread)")
        if kv["rerun"] != "0":
            errs.append("a thread function ran more than once")
        if kv.get("unjoined", "0") != "0" and kv["deadlock"] == "0" and kv["livelock"] == "0":
            errs.append(f"{kv['unjoined']} managed thread(s) ran but were never joined (pthread_join on their id never happened)")
        if kv["deadlock"] == "0" and kv["livelock"] == "0" and case.tags.get("clean", True):
            if kv["count"] != "0":
                errs.append(f"managed thread count is {kv['count']} after the final join_all_managed")
            if kv["live"] != "0":
                errs.append(f"{kv['live']} allocator block(s) still live at the end (leaked thread wrapper / at-exit record)")
    return errs


def nontrivial(case):
    return case.tags.get("n", 0) >= 2 and case.tags.get("managed", 0) >= 1


def distribution(cases, c_out):
    d = {"threads": {}, "managed_slots": 0, "manual_slots": 0, "atexit_regs": 0, "joinall_calls": 0, "timeouts_cfg": 0,
         "create_fail": 0, "current_name": 0, "lib_cleanup": 0, "call_once": 0, "once_flags_with_atexit": 0, "lib_reinit": 0, "named_launch": 0, "pinned_launch": 0, "pinned_retry": 0, "pinned_retry_fails": 0, "joinall_ok": 0, "joinall_err": 0, "cleanup_joinall": 0, "timed_cleanup": 0, "handle_reuse_programs": 0, "handle_reuse_cycles": 0, "attr_fault_launch": 0, "attr_fault_retry": 0, "timeout_ge_2_63": 0, "timeout_ge_2_31": 0, "clock_start_set": 0, "sync_events": 0, "spurious": 0, "waits": 0, "exhaustive_scheds": 0}
    for i, c in enumerate(cases):
        n = c.tags.get("n", 0)
        d["threads"][str(n)] = d["threads"].get(str(n), 0) + 1
        if c.tags.get("exhaustive"):
            d["exhaustive_scheds"] += 1
        if c.tags.get("timed_cleanup"):
            d["timed_cleanup"] += 1
        if c.tags.get("reuse"):
            d["handle_reuse_programs"] += 1
            d["handle_reuse_cycles"] += c.tags["reuse"]
        for o in c.ops:
            t = o.split()
            if t[0] == "slot":
                d["managed_slots" if t[2] == "M" else "manual_slots"] += 1
            if t[0] in ("slot", "main"):
                d["atexit_regs"] += sum(1 for a in t if a.startswith("A"))
                d["joinall_calls"] += sum(1 for a in t if a in ("W", "X"))
                d["timeouts_cfg"] += sum(1 for a in t if a.startswith("T") and a != "T0")
                d["named_launch"] += sum(1 for a in t[1:] if a[0] in LAUNCH and a.endswith("n"))
                d["call_once"] += sum(1 for a in t[1:] if a[0] == "O" and a[1:].isdigit())
                d["lib_reinit"] += sum(1 for a in t[1:] if a == "I")
                d["current_name"] += sum(1 for a in t[1:] if a == "N")
                d["lib_cleanup"] += sum(1 for a in t[1:] if a == "X")
                d["pinned_launch"] += sum(1 for a in t[1:] if a[0] in "PQR" and a[1:].rstrip("n").isdigit())
                d["pinned_retry"] += sum(1 for a in t[1:] if a[0] in "QR" and a[1:].rstrip("n").isdigit())
                d["pinned_retry_fails"] += sum(1 for a in t[1:] if a[0] == "R" and a[1:].rstrip("n").isdigit())
                d["attr_fault_launch"] += sum(1 for a in t[1:] if a[0] in "EFG" and a[1:].rstrip("n").isdigit())
                d["attr_fault_retry"] += sum(1 for a in t[1:] if a[0] == "H" and a[1:].rstrip("n").isdigit())
                d["timeout_ge_2_63"] += sum(1 for a in t[1:] if a[0] == "T" and a[1:].isdigit() and int(a[1:]) >= 1 << 63)
                d["timeout_ge_2_31"] += sum(1 for a in t[1:] if a[0] == "T" and a[1:].isdigit() and int(a[1:]) >= (1 << 31) - 1)
            if t[0] == "clock":
                d["clock_start_set"] += 1
            if t[0] == "once" and len(t) > 2:
                d["once_flags_with_atexit"] += 1
            if t[0] == "fail":
                d["create_fail"] += 1
        for l in c_out.get(i, []):
            if l.startswith("W ev"):
                d["sync_events"] += 1
                if " spurious " in l:
                    d["spurious"] += 1
                elif " wait " in l:
                    d["waits"] += 1
            elif l.startswith("P joinall rc=OK"):
                d["joinall_ok"] += 1
            elif l.startswith("P joinall rc=ERR"):
                d["joinall_err"] += 1
            elif l.startswith("P joinall rc=VOID"):
                d["cleanup_joinall"] += 1
    return d


def extra_stages(ctx):
    try:
        os.remove(_HANG_FILE)
    except OSError:
        pass
    """the scheduler's own self-test (determinism, replay, deadlock detection, wrap of archive members)"""
    try:
        ok, out = detsched.selftest("asan")
    except Exception as e:  # build failure etc.
        ctx.machinery_broken("detsched self-test could not run: " + str(e)[:500])
        return
    ctx.notes.append("detsched self-test: " + ("pass" if ok else "FAIL"))
    if not ok:
        ctx.machinery_broken("detsched self-test failed:\n" + out[-1500:])


MANIFEST = dict(
    category="proof",
    design_ref="5.20",
    text=("Lean 4 theorems over a transition system transcribing thread.c / thread_shared.c (launch with count-before-create "
          "and roll-back, thread wrapper function, LIFO at-exit chain, pending-join hand-off, join-and-free with "
          "decrement+notify, join_all_managed loop with and without timeout, condition-variable predicate loops), for ALL "
          "interleavings of its micro-steps incl. spurious wake-ups and arbitrary time advance. Tied to /repo by running "
          "the same thread programs on the real library under a deterministic scheduler (link-time --wrap of pthread_*, "
          "clock_gettime, nanosleep; virtual time) and on the compiled model under the same schedule: observable log "
          "(P) and sync-event sequence (W) are compared line by line; a direct oracle checks run-once / at-exit order / "
          "join-all completeness / no deadlock / no leak on the implementation log alone."),
    note=("Trusted: Lean kernel; hand model Model/Threads.lean and the scheduler re-implementation in Driver/Threads.lean "
          "(tied by correspondence only); harness/detsched.c's simulated pthread semantics. Only sequentially consistent "
          "interleavings that switch at lock/condvar/create/join points are explored; thread-local storage and real "
          "stacks are not modelled; join_all_managed only from the main thread."),
    technique="Lean 4 inductive invariants over all interleavings + deterministic-scheduler differential run + direct log oracle",
)
