"""C03 — small-block allocator hands out disjoint, intact, fully accounted memory."""
import os, re, subprocess, json
from lib.core import Case, GenError, write_if_changed, LEAN
from lib import cbuild, core, detsched

ID = "C03"
LEAN_MODULES = ["AwsVerif.Props.C03"]
COMPONENT = "sba"
DRIVER_EXE = "awssba"   # own executable: the model imports the generated math layer
P_DIFF_CONCRETE = False   # what is served by a bin vs the parent is conformance; the oracle (identity-based accounting, monitors) decides violations
WRAPS = ["-Wl,--wrap=posix_memalign", "-Wl,--wrap=free", "-Wl,--wrap=malloc", "-Wl,--wrap=calloc", "-Wl,--wrap=realloc"]
HARNESS = dict(name="sba", flavour="asan", ldflags=WRAPS)
TIMEOUT = 300
# hangs (an allocator that dead-locks itself) must not cost more than seconds: harness/sba.c has a per-op wall-clock
# watchdog (8 s; 20 s for the long ops) and stops running cases after 3 recorded hangs; core's stall detection is the backstop
_HANG_FILE = os.path.join(cbuild.CACHE, f"c03-hangs-{os.getpid()}")
C_ENV = {"SBA_HANG_FILE": _HANG_FILE}
STALL_S = 30
RERUN_STALL_S = 15
STAGE_MAX_HUNG = 2


def _stage_env(ctx):
    return {"SBA_WATCHDOG_LONG": "20" if ctx.tier == "quick" else "90"}


def _stage_timeout(ctx):
    return 25 if ctx.tier == "quick" else 120


class _Budget:
    """stage-level budget: after STAGE_MAX_HUNG hung runs the remaining runs of the stage are not started"""
    def __init__(self):
        self.hung = 0

    def spent(self):
        return self.hung >= STAGE_MAX_HUNG

    def note(self, rc, out):
        if rc in (-998, -999) or "wall-clock watchdog" in out:
            self.hung += 1
            return True
        return False


def _clear_hangs():
    try:
        os.remove(_HANG_FILE)
    except OSError:
        pass


_clear_hangs()
SCHED_HARNESS = dict(name="sba", flavour="asan", extra_cflags=["-DSBA_SCHED"], extra_srcs=[detsched.SRC],
                     ldflags=WRAPS + detsched.LDFLAGS)
TRUSTED = ["hand model lean/AwsVerif/Model/Sba.lean (tied by this correspondence run only)",
           "generated constants lean/AwsVerif/Gen/SbaConsts.lean (compiled sizeof/offsetof probe of allocator_sba.c, cross-checked against the source text)",
           "generated aws_round_up_to_power_of_two / aws_clz_i32 / aws_sub_size_saturating (gen/math_gen.py, shared with C16)",
           "harness/sba.c: link-time wrapping of posix_memalign/free (page numbering), recording parent allocator, per-block fill patterns, "
           "real-address overlap / ownership monitors; harness/detsched.c (serialising scheduler) for the scheduled stage"]
ASSUMPTIONS = ["posix_memalign returns a page not currently held; the parent allocator returns fresh, disjoint, 16-byte aligned blocks",
               "PARENT CONTRACT (model assumption): the parent's acquire/calloc return a block disjoint from every live block; its realloc(p, old, new) "
               "returns a block of `new` bytes whose first min(old,new) bytes are those of p, writes to no other live block and invalidates p only "
               "(modelled as: acquire new, copy min(old,new), release p — the both-sizes-above-512 case of s_sba_mem_realloc is forwarded to it). "
               "c03_realloc_contents is proved under this contract; the correspondence run checks the REAL parents against it: the SBA is run over "
               "aws_default_allocator(), aws_aligned_allocator(), plain malloc and the harness allocator with and without mem_realloc / mem_calloc, "
               "sizes at 512+-1 and 4096+-1, with the fill patterns of all live blocks re-checked after every op under ASan",
               "MODEL ASSUMPTION: the words at the page base of a parent block never equal AWS_SBA_TAG_VALUE (s_sba_free's unlocked tag test is "
               "not in the Lean model). It is no longer unchecked: the -O2 history stage (malloc as the parent, which recycles the memory of "
               "returned pages) exercises exactly this test and found the stale-tag defect repaired by /repo bdb9b25; user data that happens "
               "to carry the tag value is still outside everything",
               "MODEL ASSUMPTION: each bin operation, INCLUDING the working-page test of the free path, is one atomic action. True of the source "
               "while all bin state is read between sba->lock and sba->unlock: checked on the source text at regeneration "
               "(check_critical_sections) and tied by the detsched stage (every single preemption at the library's lock/unlock points); "
               "weak-memory effects not modelled",
               "API contract: sizes >= 1, release/realloc only of live blocks with their true size"]
RULE = ("op sequences new/acq/calloc/realloc/rel/destroy over one allocator; sizes from {1,8,16,31,32,33,...,511,512,513,4000} plus random; "
        "release orders LIFO/FIFO/random/page-draining/striped; for EVERY size class whole pages filled and released last-carved-first / first / "
        "random, drained and re-acquired; non-trivial = at least one page fully drained or a realloc crossing the "
        "512-byte boundary; distinct by op-file hash")
NOT_PROVED = []

SIZES = [1, 8, 16, 31, 32, 33, 63, 64, 65, 127, 128, 129, 255, 256, 257, 511, 512, 513, 4000]
# boundaries of the parents as well: 4096 = PAGE_SIZE of aws_aligned_allocator() (alignment class, realloc shortcut)
BIG_SIZES = [513, 514, 600, 1024, 4000, 4095, 4096, 4097, 5000, 8191, 8192, 8193]
PARENTS = ["hc", "default", "aligned", "norealloc", "nocalloc", "bare", "malloc"]
_consts = {}


# ------------------------------------------------------------------ generated constants
PROBE = r'''
#include "%(src)s"
#include <stdio.h>
#include <stddef.h>
int main(void) {
    printf("PAGE_SIZE %%llu\n", (unsigned long long)AWS_SBA_PAGE_SIZE);
    printf("PAGE_MASK %%llu\n", (unsigned long long)AWS_SBA_PAGE_MASK);
    printf("BIN_COUNT %%llu\n", (unsigned long long)AWS_SBA_BIN_COUNT);
    printf("TAG_VALUE %%llu\n", (unsigned long long)AWS_SBA_TAG_VALUE);
    printf("HDR_SIZE %%llu\n", (unsigned long long)sizeof(struct page_header));
    printf("MAX_BIN %%llu\n", (unsigned long long)s_max_bin_size);
    printf("COUNT_BITS %%llu\n", (unsigned long long)(8 * sizeof(((struct page_header *)0)->alloc_count)));
    printf("OFF_TAG %%llu\n", (unsigned long long)offsetof(struct page_header, tag));
    printf("BINS");
    for (size_t i = 0; i < sizeof(s_bin_sizes) / sizeof(s_bin_sizes[0]); ++i) printf(" %%llu", (unsigned long long)s_bin_sizes[i]);
    printf("\n");
    return 0;
}
'''


def probe_consts():
    src = os.path.join(cbuild.REPO, "source", "allocator_sba.c")
    if not os.path.exists(src):
        raise GenError("source/allocator_sba.c not found")
    d = os.path.join(cbuild.CACHE, "gen", "sba-probe")
    os.makedirs(d, exist_ok=True)
    pc = os.path.join(d, "probe.c")
    write_if_changed(pc, PROBE % {"src": src})
    exe = os.path.join(d, "probe")
    cmd = (["gcc", "-std=gnu99", "-w", "-O1", "-ffunction-sections", "-fdata-sections"] + cbuild.DEFINES + cbuild.includes() +
           [pc, "-Wl,--gc-sections", "-o", exe, "-lpthread"])
    r = subprocess.run(cmd, stdout=subprocess.PIPE, stderr=subprocess.STDOUT, text=True)
    if r.returncode != 0:
        raise GenError("constant probe of allocator_sba.c does not compile: " + r.stdout[-1500:])
    r = subprocess.run([exe], stdout=subprocess.PIPE, stderr=subprocess.STDOUT, text=True, timeout=20)
    if r.returncode != 0:
        raise GenError("constant probe failed: " + r.stdout[-500:])
    c = {}
    for line in r.stdout.splitlines():
        t = line.split()
        if not t:
            continue
        c[t[0]] = [int(x) for x in t[1:]] if t[0] == "BINS" else int(t[1])
    need = ["PAGE_SIZE", "BIN_COUNT", "TAG_VALUE", "HDR_SIZE", "MAX_BIN", "COUNT_BITS", "BINS"]
    if any(k not in c for k in need):
        raise GenError("constant probe output incomplete: " + r.stdout[:300])
    # cross-check against the source text
    txt = open(src).read()
    m = re.search(r"s_bin_sizes\s*\[\s*AWS_SBA_BIN_COUNT\s*\]\s*=\s*\{([^}]*)\}", txt)
    if not m:
        raise GenError("s_bin_sizes table not recognised in allocator_sba.c")
    try:
        table = [int(x.strip().rstrip("uUlL"), 0) for x in m.group(1).split(",") if x.strip()]
    except ValueError:
        raise GenError("s_bin_sizes table not a list of integer literals: " + m.group(1)[:200])
    if table != c["BINS"][:len(table)] or len(c["BINS"]) != c["BIN_COUNT"]:
        raise GenError(f"s_bin_sizes in the source text {table} disagrees with the compiled table {c['BINS']} / BIN_COUNT {c['BIN_COUNT']}")
    m = re.search(r"#\s*define\s+AWS_SBA_TAG_VALUE\s+(0x[0-9a-fA-F]+|\d+)", txt)
    if not m or int(m.group(1), 0) != c["TAG_VALUE"]:
        raise GenError("AWS_SBA_TAG_VALUE not recognised / disagrees with the compiled value")
    if c["PAGE_MASK"] != (2 ** 64 - 1) & ~(c["PAGE_SIZE"] - 1) or c["OFF_TAG"] != 0:
        raise GenError("page mask / header layout not of the modelled shape")
    return c


# ---- the purge bounds of s_sba_free_to_bin, translated from the source text (pointer expressions over uint8_t*)
_TOK = re.compile(r"\s*(sizeof\s*\(\s*struct\s+page_header\s*\)|\(\s*uint8_t\s*\*\s*\)|bin\s*->\s*size|[A-Za-z_]\w*|\d+[uUlL]*|[-+*/()])")


def _c_expr_to_lean(expr, env):
    """tiny translator: + - * / parentheses, integer literals and the names in env; anything else is rejected"""
    toks, pos = [], 0
    expr = expr.strip()
    while pos < len(expr):
        m = _TOK.match(expr, pos)
        if not m:
            raise GenError(f"purge bound: cannot tokenise `{expr[pos:]}`")
        toks.append(re.sub(r"\s+", "", m.group(1)))
        pos = m.end()
    i = 0

    def atom():
        nonlocal i
        if i >= len(toks):
            raise GenError(f"purge bound: unexpected end of `{expr}`")
        tk = toks[i]
        i += 1
        if tk == "(uint8_t*)":           # cast of a pointer to a byte pointer: no scaling
            return atom()
        if tk == "(":
            v = add()
            if i >= len(toks) or toks[i] != ")":
                raise GenError(f"purge bound: missing ) in `{expr}`")
            i += 1
            return f"({v})"
        if tk.startswith("sizeof(structpage_header"):
            return "hdrSize"
        if tk in env:
            return env[tk]
        if re.fullmatch(r"\d+[uUlL]*", tk):
            return tk.rstrip("uUlL")
        raise GenError(f"purge bound: `{tk}` in `{expr}` is outside the translated subset")

    def mul():
        nonlocal i
        v = atom()
        while i < len(toks) and toks[i] in "*/":
            op = toks[i]
            i += 1
            v = f"({v} {op} {atom()})"
        return v

    def add():
        nonlocal i
        v = mul()
        while i < len(toks) and toks[i] in "+-":
            op = toks[i]
            i += 1
            v = f"({v} {op} {mul()})"
        return v
    v = add()
    if i != len(toks):
        raise GenError(f"purge bound: trailing `{' '.join(toks[i:])}` in `{expr}`")
    return v


def check_critical_sections():
    """The model treats s_sba_alloc_from_bin / s_sba_free_to_bin (including the working-page test of the free path) as
    ATOMIC actions.  That is what the source does only while every read of bin state happens between sba->lock and
    sba->unlock; this is checked on the source text, so that a change which reads bin state outside the lock no longer
    regenerates (the scheduled run then looks for a failing schedule)."""
    src = open(os.path.join(cbuild.REPO, "source", "allocator_sba.c")).read()
    src = re.sub(r"/\*.*?\*/", " ", src, flags=re.S)

    def body(sig):
        m = re.search(sig + r"\s*\{(.*?)\n\}\n", src, re.S)
        if not m:
            raise GenError("critical sections: function not recognised: " + sig)
        return m.group(1)
    free_b = body(r"static\s+void\s+s_sba_free\s*\(\s*struct\s+small_block_allocator\s*\*sba,\s*void\s*\*addr\)")
    alloc_b = body(r"static\s+void\s*\*s_sba_alloc\s*\(\s*struct\s+small_block_allocator\s*\*sba,\s*size_t\s+size\)")
    ftb_b = body(r"static\s+void\s+s_sba_free_to_bin\s*\(\s*struct\s+sba_bin\s*\*bin,\s*void\s*\*addr\)")
    body(r"static\s+void\s*\*s_sba_alloc_from_bin\s*\(\s*struct\s+sba_bin\s*\*bin\)")
    cs_free = re.search(r"sba->lock\(&bin->mutex\);\s*s_sba_free_to_bin\(bin,\s*addr\);\s*sba->unlock\(&bin->mutex\);", free_b)
    cs_alloc = re.search(r"sba->lock\(&bin->mutex\);\s*void\s*\*mem\s*=\s*s_sba_alloc_from_bin\(bin\);\s*sba->unlock\(&bin->mutex\);", alloc_b)
    if not cs_free or not cs_alloc:
        raise GenError("critical sections of s_sba_alloc / s_sba_free are not `lock; <bin operation>; unlock` any more: "
                       "the model's atomic bin actions are not what the source does")
    for name, b, cs in (("s_sba_free", free_b, cs_free), ("s_sba_alloc", alloc_b, cs_alloc)):
        rest = b[:cs.start()] + b[cs.end():]
        for fld in ("page_cursor", "free_chunks", "active_pages", "alloc_count"):
            if fld in rest:
                raise GenError(f"{name} reads bin state ({fld}) outside the bin lock: the model's atomic bin actions "
                               "(working-page test inside the locked part) are not what the source does")
    if not re.search(r"if\s*\(\s*page->alloc_count\s*==\s*0\s*&&\s*page\s*!=\s*s_page_base\(bin->page_cursor\)\s*\)", ftb_b):
        raise GenError("s_sba_free_to_bin: the drained-page test `alloc_count == 0 && page != s_page_base(bin->page_cursor)` is not of the modelled shape")
    for fn in ("aws_small_block_allocator_bytes_active", "aws_small_block_allocator_bytes_reserved"):
        mb = body(r"size_t\s+" + fn + r"\s*\(\s*struct\s+aws_allocator\s*\*sba_allocator\)")
        if len(re.findall(r"sba->lock\(&bin->mutex\);", mb)) != 1 or len(re.findall(r"sba->unlock\(&bin->mutex\);", mb)) != 1 \
                or re.search(r"\bcontinue\b|\bbreak\b|\bgoto\b", mb):
            raise GenError(f"{fn}: each bin is no longer read between one blocking sba->lock and sba->unlock "
                           "(the model reads every bin; a try-lock / skipped bin leaves live blocks out of the sum)")
    members = set(re.findall(r"\bsba->(\w+)", src))
    if members - {"allocator", "bins", "lock", "unlock"}:
        raise GenError("small_block_allocator has members the model does not know: " + ", ".join(sorted(members - {"allocator", "bins", "lock", "unlock"})))
    n_calls = len(re.findall(r"\bs_sba_free_to_bin\s*\(", src)) + len(re.findall(r"\bs_sba_alloc_from_bin\s*\(", src))
    if n_calls != 5:     # 2 definitions, 2 locked call sites, 1 recursive call inside s_sba_alloc_from_bin
        raise GenError("bin operations are called from a place other than the two locked call sites")


def find_bin_consts():
    """s_sba_find_bin is transcribed by hand over the generated math functions; its statement shapes are checked on the
    source text and its two literals (31 - lz, saturating minus 5) are generated, so that findBin_spec / findBin_min
    (decide over all sizes <= 512) are re-proved against what the source says now"""
    src = open(os.path.join(cbuild.REPO, "source", "allocator_sba.c")).read()
    src = re.sub(r"/\*.*?\*/", " ", src, flags=re.S)
    m = re.search(r"static\s+struct\s+sba_bin\s*\*s_sba_find_bin\s*\([^)]*\)\s*\{(.*?)\n\}\n", src, re.S)
    if not m:
        raise GenError("s_sba_find_bin not recognised")
    stm = [re.sub(r"\s+", " ", s).strip() for s in m.group(1).split(";") if s.strip() and "AWS_PRECONDITION" not in s and "AWS_ASSERT" not in s]
    pat = [r"size_t next_pow2 = 0", r"aws_round_up_to_power_of_two\(size, &next_pow2\)", r"size_t lz = aws_clz_i32\(\(int32_t\)next_pow2\)",
           r"size_t idx = aws_sub_size_saturating\((\d+) - lz, (\d+)\)", r"struct sba_bin \*bin = &sba->bins\[idx\]", r"return bin"]
    if len(stm) != len(pat):
        raise GenError(f"s_sba_find_bin: {len(stm)} statements, the model transcribes {len(pat)}: {stm}")
    top = low = None
    for s, pt in zip(stm, pat):
        mm = re.fullmatch(pt, s)
        if not mm:
            raise GenError(f"s_sba_find_bin: statement `{s}` is not of the modelled shape `{pt}`")
        if mm.groups():
            top, low = int(mm.group(1)), int(mm.group(2))
    return top, low


# narrowing integer conversions of 64-bit values that the current source contains: (function, from type, to type)
NARROWING_ALLOWED = {("s_sba_find_bin", "size_t", "int32_t")}   # aws_clz_i32((int32_t)next_pow2), next_pow2 <= 512


def narrowing_casts():
    """obligation on source/allocator_sba.c (typed AST, clang): no 64-bit value (a size, a product of sizes, a pointer
    difference) is converted to a narrower integer type, explicitly or implicitly, except at the sites listed above.
    The model's sizes are unbounded naturals below 2^64: a request truncated to 32 bits (4 GiB + 40 -> 40) would be served
    from a bin, and the harness cannot back a >= 4 GiB calloc with real memory to show it at run time."""
    from gen import cfun
    repo = cbuild.REPO
    src = os.path.join(repo, "source", "allocator_sba.c")
    inc = ["-I" + os.path.join(repo, "include"), "-I" + cbuild.config_include(), "-I" + os.path.join(repo, "source")]
    text = open(src).read()
    fns = {}
    try:
        for pre in ("s_", "aws_small_block", "sba_"):
            fns.update(cfun.dump_functions(f'#include "{src}"\n', pre, inc))
    except cfun.GenError as e:
        raise GenError("allocator_sba.c: " + str(e))

    def walk(n):
        yield n
        for c in n.get("inner", []) or []:
            if isinstance(c, dict):
                yield from walk(c)
    for name, fn in sorted(fns.items()):
        if not re.search(r"\b" + re.escape(name) + r"\s*\(", text):
            continue
        for node in walk(fn):
            if node.get("kind") in ("ImplicitCastExpr", "CStyleCastExpr") and node.get("castKind") == "IntegralCast":
                try:
                    to, fr = cfun.ctype_of(node), cfun.ctype_of(node["inner"][0])
                except cfun.GenError:
                    continue
                if isinstance(to, tuple) and isinstance(fr, tuple) and to[0] != "ptr" and fr[0] == 64 and to[0] < 64:
                    ft, tt = node["inner"][0].get("type", {}).get("qualType", "?"), node.get("type", {}).get("qualType", "?")
                    if (name, ft, tt) not in NARROWING_ALLOWED:
                        raise GenError(f"{name}() in allocator_sba.c converts a 64-bit `{ft}` value to the {to[0]}-bit type `{tt}`: "
                                       "a size of 4 GiB or more is truncated (the model's sizes are not)")


def dispatch_tests():
    """the size tests that decide between bins and parent, from the source text:
    s_sba_alloc `if (size <op> s_max_bin_size)` (generated as servedByBin), the three tests of s_sba_mem_realloc and
    the position of the overflow check of aws_mem_calloc (before the dispatch to the allocator's mem_calloc)"""
    src = re.sub(r"/\*.*?\*/", " ", open(os.path.join(cbuild.REPO, "source", "allocator_sba.c")).read(), flags=re.S)
    m = re.search(r"static\s+void\s*\*s_sba_alloc\s*\([^)]*\)\s*\{\s*if\s*\(\s*size\s*(<=|<)\s*s_max_bin_size\s*\)\s*\{\s*"
                  r"struct\s+sba_bin\s*\*bin\s*=\s*s_sba_find_bin\(sba,\s*size\);", src)
    if not m:
        raise GenError("s_sba_alloc no longer starts with `if (size <= s_max_bin_size) { bin = s_sba_find_bin(sba, size); ...`: "
                       "which requests are served by a bin is not what the model says")
    if not re.search(r"\}\s*return\s+aws_mem_acquire\(sba->allocator,\s*size\);\s*\}", src):
        raise GenError("s_sba_alloc: requests not served by a bin no longer go to aws_mem_acquire(sba->allocator, size)")
    rm = re.search(r"static\s+void\s*\*s_sba_mem_realloc\s*\([^)]*\)\s*\{(.*?)\n\}\n", src, re.S)
    need = [r"if\s*\(\s*old_size\s*>\s*s_max_bin_size\s*&&\s*new_size\s*>\s*s_max_bin_size\s*\)", r"if\s*\(\s*new_size\s*==\s*0\s*\)",
            r"if\s*\(\s*old_size\s*>\s*new_size\s*\)\s*\{\s*return\s+old_ptr;", r"memcpy\(new_mem,\s*old_ptr,\s*old_size\);"]
    pos = 0
    for pt in need:
        mm = rm and re.compile(pt).search(rm.group(1), pos)
        if not mm:
            raise GenError("s_sba_mem_realloc: the modelled case analysis is not in the source any more (missing / out of order: " + pt + ")")
        pos = mm.end()
    asrc = re.sub(r"/\*.*?\*/", " ", open(os.path.join(cbuild.REPO, "source", "allocator.c")).read(), flags=re.S)
    cm = re.search(r"void\s*\*aws_mem_calloc\s*\([^)]*\)\s*\{(.*?)\n\}\n", asrc, re.S)
    if not cm:
        raise GenError("aws_mem_calloc not recognised")
    chk = re.search(r"AWS_FATAL_POSTCONDITION\(\s*!aws_mul_size_checked\(num,\s*size,\s*&required_bytes\)", cm.group(1))
    disp = re.search(r"if\s*\(\s*allocator->mem_calloc\s*\)", cm.group(1))
    if not chk or not disp or chk.start() > disp.start():
        raise GenError("aws_mem_calloc: the checked multiplication num*size no longer precedes the dispatch to mem_calloc "
                       "(s_sba_mem_calloc multiplies unchecked): the model's calloc (total = checked product) is not what the source does")
    return {"<=": "size ≤ maxBinSize", "<": "size < maxBinSize"}[m.group(1)]


def purge_bounds():
    """(lean text, C text) of page_start, page_end and the range test of the purge loop, from the source"""
    src = open(os.path.join(cbuild.REPO, "source", "allocator_sba.c")).read()
    m = re.search(r"static\s+void\s+s_sba_free_to_bin\s*\([^)]*\)\s*\{(.*?)\n\}\n", src, re.S)
    if not m:
        raise GenError("s_sba_free_to_bin not recognised")
    body = re.sub(r"/\*.*?\*/", " ", m.group(1), flags=re.S)
    ms = re.search(r"uint8_t\s*\*\s*page_start\s*=\s*([^;]+);", body)
    me = re.search(r"uint8_t\s*\*\s*page_end\s*=\s*([^;]+);", body)
    mc = re.search(r"if\s*\(\s*chunk\s*(>=|>)\s*page_start\s*&&\s*chunk\s*(<=|<)\s*page_end\s*\)", body)
    mi = re.search(r"intptr_t\s+chunk_idx\s*=\s*\(intptr_t\)\s*bin->free_chunks\.length\s*;\s*for\s*\(\s*;\s*chunk_idx\s*>=\s*0\s*;\s*--chunk_idx\s*\)", body)
    if not (ms and me and mc and mi):
        raise GenError("purge loop of s_sba_free_to_bin not of the modelled shape (page_start / page_end / range test / index range)")
    env0 = {"page": "page", "AWS_SBA_PAGE_SIZE": "pageSize", "bin->size": "binSz"}
    start = _c_expr_to_lean(ms.group(1), env0)
    end = _c_expr_to_lean(me.group(1), dict(env0, page_start="(purgeStart page binSz)"))
    lo = {">=": "pageStart ≤ chunk", ">": "pageStart < chunk"}[mc.group(1)]
    hi = {"<": "chunk < pageEnd", "<=": "chunk ≤ pageEnd"}[mc.group(2)]
    return dict(start=start, end=end, lo=lo, hi=hi, c_start=" ".join(ms.group(1).split()), c_end=" ".join(me.group(1).split()),
                c_test=" ".join(mc.group(0).split()))


def regen(ctx):
    c = probe_consts()
    _consts.update(c)
    # everything that feeds the generated file first; if one of these translators rejects the source, the file of an
    # earlier (different) tree must not stay behind as if it were current: it is replaced by a stub that does not build
    try:
        pb = purge_bounds()
        fb_top, fb_low = find_bin_consts()
        served = dispatch_tests()
        narrowing_casts()
    except GenError as e:
        write_if_changed(os.path.join(LEAN, "AwsVerif", "Gen", "SbaConsts.lean"),
                         "/-! GENERATED by props/c03.py: the translator rejected the current source -/\n#check (translator_rejected_the_source : Nat)\n")
        raise
    lean = f"""/-! GENERATED by props/c03.py from /repo's source/allocator_sba.c (compiled sizeof/offsetof probe + source text) — do not edit. -/
namespace AwsVerif.Gen.SbaConsts

/-- AWS_SBA_PAGE_SIZE -/
def pageSize : Nat := {c['PAGE_SIZE']}
/-- AWS_SBA_BIN_COUNT -/
def binCount : Nat := {c['BIN_COUNT']}
/-- s_bin_sizes -/
def binSizes : List Nat := [{', '.join(str(x) for x in c['BINS'])}]
/-- s_max_bin_size -/
def maxBinSize : Nat := {c['MAX_BIN']}
/-- AWS_SBA_TAG_VALUE -/
def tagValue : Nat := {c['TAG_VALUE']}
/-- sizeof(struct page_header) -/
def hdrSize : Nat := {c['HDR_SIZE']}
/-- width in bits of page_header.alloc_count -/
def countBits : Nat := {c['COUNT_BITS']}

/-- s_sba_alloc: the request is served by a bin iff this holds (test as written in the source), otherwise by the parent -/
def servedByBin (size : Nat) : Prop := {served}
instance (size : Nat) : Decidable (servedByBin size) := by unfold servedByBin; exact inferInstance

/-- s_sba_find_bin: `aws_sub_size_saturating(<findBinTop> - lz, <findBinLow>)` -/
def findBinTop : Nat := {fb_top}
def findBinLow : Nat := {fb_low}

/-! Purge loop of `s_sba_free_to_bin`, translated from the source text; `page` is the numeric address of the
page base, `binSz` is `bin->size`. -/
set_option linter.unusedVariables false in
/-- `uint8_t *page_start = {pb['c_start']};` -/
def purgeStart (page binSz : Nat) : Nat := {pb['start']}
set_option linter.unusedVariables false in
/-- `uint8_t *page_end = {pb['c_end']};` -/
def purgeEnd (page binSz : Nat) : Nat := {pb['end']}
/-- `{pb['c_test']}` -/
def purgeHit (chunk pageStart pageEnd : Nat) : Prop := {pb['lo']} ∧ {pb['hi']}
instance (chunk pageStart pageEnd : Nat) : Decidable (purgeHit chunk pageStart pageEnd) := by
  unfold purgeHit; exact inferInstance

end AwsVerif.Gen.SbaConsts
"""
    write_if_changed(os.path.join(LEAN, "AwsVerif", "Gen", "SbaConsts.lean"), lean)
    check_critical_sections()     # a pure shape check: after the file is written, so that the file is always current
    # findBin is written over the generated math functions (shared with C16): regenerate them too
    from gen import math_gen, cfun
    try:
        lean_math, lean_disp, _ = math_gen.generate(cbuild.REPO, cbuild.config_include())
    except cfun.GenError as e:
        raise GenError(str(e))
    write_if_changed(os.path.join(LEAN, "AwsVerif", "Gen", "Math.lean"), lean_math)
    write_if_changed(os.path.join(LEAN, "AwsVerif", "Gen", "MathDispatch.lean"), lean_disp)


def consts():
    if not _consts:
        try:
            _consts.update(probe_consts())
        except GenError:
            _consts.update({"PAGE_SIZE": 4096, "HDR_SIZE": 32, "BIN_COUNT": 5, "MAX_BIN": 512, "BINS": [32, 64, 128, 256, 512]})
    return _consts


# ------------------------------------------------------------------ case generation
def cls_of(size):
    c = 32
    while c < size:
        c *= 2
    return c


def per_page(cls):
    return (4096 - 32) // cls


class Builder:
    """op list builder tracking the live names and their sizes (the generator's own bookkeeping)"""
    def __init__(self, rng, mt=None, parent=None):
        self.rng = rng
        if parent is None:
            parent = "hc" if rng.random() < 0.4 else rng.choice(PARENTS)
        self.parent = parent
        self.ops = ["new mt=%d%s" % (rng.randint(0, 1) if mt is None else mt, "" if parent == "hc" else " " + parent)]
        self.live = []          # [name, size] in allocation order
        self.n = 0
        self.tags = {"cross": 0, "drain": 0, "parent": parent, "cross4096": 0}

    def size(self):
        r = self.rng.random()
        if r < 0.62:
            return self.rng.choice(SIZES)
        if r < 0.72:
            return self.rng.choice(BIG_SIZES)
        if r < 0.95:
            return self.rng.randint(1, 600)
        return self.rng.randint(513, 9000)

    def acq(self, size=None):
        size = size or self.size()
        self.n += 1
        name = f"p{self.n}"
        self.ops.append(f"acq {name} {size}")
        self.live.append([name, size])
        return name

    def calloc(self, size=None):
        size = size or self.size()
        num = self.rng.choice([1, 1, 2, 3, 4, 8])
        each = max(1, size // num)
        self.n += 1
        name = f"p{self.n}"
        self.ops.append(f"calloc {name} {num} {each}")
        self.live.append([name, num * each])
        return name

    def realloc(self, idx=None, new=None):
        if not self.live:
            return
        e = self.live[self.rng.randrange(len(self.live)) if idx is None else idx]
        if new is None:
            r = self.rng.random()
            if r < 0.5:
                new = self.rng.choice(SIZES)
            elif r < 0.7:
                new = self.rng.choice([512, 513, 511, 514, 600, 1024, 256, 64])
            elif r < 0.8:
                new = self.rng.choice(BIG_SIZES)
            elif r < 0.84:
                new = 0
            else:
                new = max(1, e[1] + self.rng.choice([-1, 1, -17, 17, 100, -100]))
        self.ops.append(f"realloc {e[0]} {e[1]} {new}")
        if (e[1] <= 512) != (new <= 512) and new:
            self.tags["cross"] += 1
        if (e[1] <= 4096) != (new <= 4096) and new and min(e[1], new) > 512:
            self.tags["cross4096"] += 1
        if new == 0:
            self.live.remove(e)
        else:
            e[1] = new

    def rel(self, idx):
        e = self.live.pop(idx)
        self.ops.append(f"rel {e[0]}")

    def rel_name(self, name):
        for i, e in enumerate(self.live):
            if e[0] == name:
                self.rel(i)
                return

    def release_all(self, order):
        names = [e[0] for e in self.live]
        for nm in ordered(self.rng, names, order):
            self.rel_name(nm)

    def finish(self, destroy=True):
        if self.rng.random() < 0.3:
            self.ops.append("active")
            self.ops.append("reserved")
        if self.rng.random() < 0.5:
            self.ops.append("pagesize")
        if destroy:
            self.ops.append("destroy")
        return Case(self.ops, dict(self.tags))


def ordered(rng, names, order, stride=None):
    names = list(names)
    if order == "lifo":
        return names[::-1]
    if order == "fifo":
        return names
    if order == "random":
        rng.shuffle(names)
        return names
    if order == "striped":      # round-robin over pages: every page drains at about the same time
        st = stride or 7
        return [names[i] for k in range(st) for i in range(k, len(names), st)]
    if order == "evens-odds":
        return names[::2] + names[1::2]
    if order == "inside-out":
        mid = len(names) // 2
        out = []
        for d in range(len(names)):
            for i in (mid - d - 1, mid + d):
                if 0 <= i < len(names) and names[i] not in out:
                    out.append(names[i])
        return out
    return names


ORDERS = ["lifo", "fifo", "random", "striped", "evens-odds", "inside-out"]


def case_random(rng, nops):
    b = Builder(rng)
    for _ in range(nops):
        r = rng.random()
        if r < 0.42 or not b.live:
            b.acq()
        elif r < 0.50:
            b.calloc()
        elif r < 0.68:
            b.realloc()
        else:
            b.rel(rng.choice([0, len(b.live) - 1, rng.randrange(len(b.live))]))
        if len(b.live) > 90:
            b.rel(rng.randrange(len(b.live)))
    b.release_all(rng.choice(ORDERS))
    return b.finish()


def case_drain(rng):
    """fill several pages of one size class, drain them in a chosen order, allocate again"""
    b = Builder(rng)
    cls = rng.choice([512, 512, 512, 256, 256, 256, 128, 128, 64, 64, 32])
    pp = per_page(cls)
    npages = rng.choice([2, 3]) if cls >= 256 else (2 if cls == 128 else 1)
    extra = rng.randint(0, max(1, pp // 2))
    sizes_in = [s for s in range(cls // 2 + 1, cls + 1)] if cls > 32 else list(range(1, 33))
    names = [b.acq(rng.choice([cls, cls, rng.choice(sizes_in)])) for _ in range(npages * pp + extra)]
    # a few blocks of other classes in between so that several bins are in use
    for _ in range(rng.randint(0, 4)):
        b.acq()
    order = rng.choice(ORDERS)
    keep = rng.randint(0, 3)
    victims = ordered(rng, names, order, stride=pp)
    if keep:
        victims = victims[:-keep]
    # optionally free only part, allocate again (reuse from the free list after a purge), then the rest
    cut = rng.randint(len(victims) // 2, len(victims))
    for nm in victims[:cut]:
        b.rel_name(nm)
    for _ in range(rng.randint(0, pp + 2)):
        b.acq(rng.choice([cls, rng.choice(sizes_in)]))
    for nm in victims[cut:]:
        b.rel_name(nm)
    b.tags["drain"] = 1
    b.release_all(rng.choice(ORDERS))
    return b.finish()


FULL_ORDERS = ["last-first/fifo", "last-first/lifo", "last-first/random", "last2-first/fifo", "fifo", "lifo", "random",
               "first-last-alternating"]


def case_fullpage(rng, cls, order, extra, pages=1):
    """fill whole page(s) of one size class (every chunk carved, including the one that ends exactly at the
    page boundary in the 32-byte class), release in the chosen order (last-carved first / first / random) so
    that the page drains while its other chunks sit on the free list, then re-acquire until the free list is
    exhausted and a new page is carved"""
    b = Builder(rng)
    pp = per_page(cls)
    lo = cls // 2 + 1 if cls > 32 else 1
    page_names = [[b.acq(cls if rng.random() < 0.6 else rng.randint(lo, cls)) for _ in range(pp)] for _ in range(pages)]
    others = [b.acq(rng.randint(lo, cls)) for _ in range(extra)]       # open the next page: the bin has a cursor page
    for names in page_names:
        head, rest = [], list(names)
        if order.startswith("last-first"):
            head, rest = [names[-1]], names[:-1]
        elif order.startswith("last2-first"):
            head, rest = [names[-1], names[-2]], names[:-2]
        sub = order.split("/")[-1]
        if sub == "lifo":
            rest = rest[::-1]
        elif sub == "random":
            rng.shuffle(rest)
        elif sub == "first-last-alternating":
            r2, i, j = [], 0, len(rest) - 1
            while i <= j:
                r2.append(rest[j])
                if i < j:
                    r2.append(rest[i])
                i, j = i + 1, j - 1
            rest = r2
        for nm in head + rest:
            b.rel_name(nm)
    for _ in range(pp + 2):                                            # drains the free list, then carves a fresh page
        b.acq(rng.randint(lo, cls))
    b.tags["drain"] = 1
    b.tags["fullpage"] = cls
    b.release_all(rng.choice(ORDERS))
    return b.finish()


def fullpage_cases(rng, tier):
    out = []
    for cls in (32, 64, 128, 256, 512):
        for order in FULL_ORDERS:
            for extra in (0, 1):
                out.append(case_fullpage(rng, cls, order, extra))
        out.append(case_fullpage(rng, cls, "last-first/random", 1, pages=2))
        if tier != "quick":
            for _ in range(20):
                out.append(case_fullpage(rng, cls, rng.choice(FULL_ORDERS), rng.randint(0, 3), pages=rng.choice([1, 2, 3])))
    return out


def case_cross(rng):
    """reallocations crossing the small/large boundary in both directions"""
    b = Builder(rng)
    for _ in range(rng.randint(1, 6)):
        b.acq(rng.choice([500, 511, 512, 513, 514, 600, 4000, 16, 33]))
    for _ in range(rng.randint(4, 24)):
        r = rng.random()
        if r < 0.75 and b.live:
            b.realloc(new=rng.choice([1, 31, 32, 33, 256, 511, 512, 513, 514, 600, 1000, 4000]))
        elif r < 0.9:
            b.acq()
        elif b.live:
            b.rel(rng.randrange(len(b.live)))
    b.release_all(rng.choice(ORDERS))
    return b.finish()


def case_parents(rng, parent):
    """parent-served blocks on every parent configuration: sizes at 512+-1 and at the parent's own boundary 4096+-1,
    reallocs crossing each boundary in both directions (the both-sizes->512 case is forwarded to the PARENT's realloc),
    calloc, a few small blocks in between as witnesses whose patterns must survive"""
    b = Builder(rng, parent=parent)
    for _ in range(rng.randint(2, 5)):
        b.acq(rng.choice(BIG_SIZES + [512, 511, 32]))
    for _ in range(rng.randint(6, 30)):
        r = rng.random()
        if r < 0.62 and b.live:
            b.realloc(new=rng.choice(BIG_SIZES + BIG_SIZES + [1, 16, 32, 511, 512]))
        elif r < 0.72:
            b.calloc(rng.choice(BIG_SIZES + [512, 64]))
        elif r < 0.86:
            b.acq(rng.choice(BIG_SIZES + SIZES))
        elif b.live:
            b.rel(rng.randrange(len(b.live)))
    b.release_all(rng.choice(ORDERS))
    return b.finish()


HUGE = [2**31 - 1, 2**31, 2**31 + 1, 2**32 - 1, 2**32, 2**32 + 5, 2**32 + 33, 2**33 + 512, 2**40, 2**40 + 31, 2**41]
UNBACKED = [2**41 + 1, 2**48, 2**63, "HALF", "HALF+1", "MAX-4096"]


def _val(x):
    return {"HALF": (2**64 - 1) // 2, "HALF+1": (2**64 - 1) // 2 + 1, "MAX-4096": 2**64 - 1 - 4096}.get(x, x)


def case_huge(rng):
    """requests far above the largest bin (2^31+1, 2^32, 2^32+5, 2^40, SIZE_MAX/2 ...) on the `fake` parent, which serves
    them without real memory: they must go to the parent (never a chunk: a size truncated to 32 bits would look small),
    bytes_active unchanged; calloc products that do not fit a size_t must be refused; small witnesses in between"""
    b = Builder(rng, parent="fake")
    for _ in range(rng.randint(1, 4)):
        b.acq(rng.choice([1, 32, 33, 512, 513, 4000]))
    for _ in range(rng.randint(4, 14)):
        r = rng.random()
        if r < 0.35:
            sz = rng.choice(HUGE + UNBACKED)
            b.n += 1
            b.ops.append(f"acq p{b.n} {sz}")
            b.live.append([f"p{b.n}", _val(sz)])
        elif r < 0.6 and b.live:
            e = rng.choice(b.live)
            if e[1] <= 2**41:                     # an unbacked block can only be released
                new = rng.choice(HUGE + HUGE + [1, 32, 512, 513, 4096])
                b.ops.append(f"realloc {e[0]} {e[1]} {new}")
                e[1] = new
        elif r < 0.8:
            # a product that wraps: (2^61+1)*8 = 8 mod 2^64, 2^32 * 2^32 = 0, ...
            num, size = rng.choice([(2**61 + 1, 8), (2**32, 2**32), (2**63, 2), (2**62 + 3, 4), (2**64 - 1, 2), (3, "HALF"),
                                    (2**33 + 1, 2**31), (2**60 + 4, 16)])
            b.n += 1
            b.ops.append(f"calloc p{b.n} {num} {size}")
        elif r < 0.9:
            b.acq(rng.choice(SIZES))
        elif b.live:
            b.rel(rng.randrange(len(b.live)))
    # page-aligned parent blocks whose own data carries ONE tag word at the place of a page header: still the parent's
    for e in [e for e in b.live if 2**20 < e[1] <= 2**41]:
        if rng.random() < 0.7:
            b.live.remove(e)
            b.ops.append(f"reltag {e[0]} {rng.choice([1, 2])}")
    b.tags["huge"] = 1
    b.release_all(rng.choice(ORDERS))
    return b.finish()


def exhaustive_cases(depth, cls=512):
    """small scope: a page of the given class one chunk short of exhaustion, then every sequence of
    the given length over {acquire, release oldest / newest / middle, realloc newest across the boundary}"""
    pp = per_page(cls)
    out = []
    alphabet = ["A", "Ro", "Rn", "Rm", "X"]

    def build(seq):
        ops = ["new mt=0"]
        live = []
        n = 0
        for _ in range(pp - 1):
            n += 1
            ops.append(f"acq p{n} {cls}")
            live.append([f"p{n}", cls])
        for a in seq:
            if a == "A":
                n += 1
                ops.append(f"acq p{n} {cls}")
                live.append([f"p{n}", cls])
            elif a == "X":
                if not live:
                    return None
                e = live[-1]
                new = 600 if e[1] <= 512 else cls
                ops.append(f"realloc {e[0]} {e[1]} {new}")
                e[1] = new
            else:
                if not live:
                    return None
                i = 0 if a == "Ro" else len(live) - 1 if a == "Rn" else len(live) // 2
                ops.append(f"rel {live.pop(i)[0]}")
        for e in live:
            ops.append(f"rel {e[0]}")
        ops.append("destroy")
        return Case(ops, {"exhaustive": True, "drain": 1})

    def rec(prefix, d):
        if d == 0:
            c = build(prefix)
            if c:
                out.append(c)
            return
        for a in alphabet:
            rec(prefix + [a], d - 1)
    rec([], depth)
    return out


def gen_cases(rng, tier):
    quick = tier == "quick"
    cases = []
    for _ in range(220 if quick else 4000):
        cases.append(case_random(rng, rng.randint(5, 70)))
    for _ in range(140 if quick else 2500):
        cases.append(case_drain(rng))
    for _ in range(120 if quick else 2000):
        cases.append(case_cross(rng))
    for par in PARENTS:
        for _ in range(25 if quick else 400):
            cases.append(case_parents(rng, par))
    # hand-written: shrink from above the aligned allocator's PAGE_SIZE class to below it, neighbours as witnesses
    for par in PARENTS:
        cases.append(Case([f"new mt=0 {par}", "acq p1 5000", "acq p2 600", "acq p3 5000", "acq p4 48", "realloc p1 5000 600",
                           "realloc p3 5000 4096", "realloc p3 4096 4097", "realloc p3 4097 513", "realloc p2 600 5000",
                           "realloc p2 5000 4095", "rel p4", "rel p1", "rel p2", "rel p3", "destroy"], {"parent": par, "cross4096": 4}))
    for _ in range(60 if quick else 1500):
        cases.append(case_huge(rng))
    cases.append(Case(["new mt=0 fake", "acq p1 32", "acq p2 4294967301", "acq p3 2147483649", "realloc p1 32 4294967296",
                       "realloc p1 4294967296 4294967328", "calloc p9 2305843009213693953 8", "calloc p8 4294967296 4294967296",
                       "acq p4 HALF", "active", "rel p4", "reltag p2 1", "reltag p3 2", "realloc p1 4294967328 16", "rel p1", "destroy"], {"huge": 1}))
    cases += fullpage_cases(rng, tier)
    cases += exhaustive_cases(4 if quick else 6)
    if not quick:
        cases += exhaustive_cases(5, cls=256)
    return cases


# ------------------------------------------------------------------ direct oracle
_kv = re.compile(r"(\w+)=(-?\d+)")


def psize(tok):
    """sizes of the op language: decimal, MAX, MAX-k, HALF, HALF+k, HALF-k"""
    M = 2 ** 64 - 1
    for name, base in (("MAX", M), ("HALF", M // 2)):
        if tok.startswith(name):
            r = tok[len(name):]
            return base + int(r) if r else base
    return int(tok)


def oracle(case, lines):
    """Python bookkeeping from the op list and the implementation's printed chunk identities:
    overlap inside pages, accounting, contents clauses, quiescence, destroy."""
    c = consts()
    PS, HDR, NB = c["PAGE_SIZE"], c["HDR_SIZE"], c["BIN_COUNT"]
    if lines and lines[0].startswith("P MONITOR not run"):
        return []          # skipped after earlier hangs of this run: no verdict for this case
    wd = [l for l in lines if l.startswith("P MONITOR wall-clock watchdog")]
    if wd:
        return ["an operation of the allocator never returned (self-deadlock / endless loop): " + wd[0]]
    errs = []
    live = {}      # name -> dict(size, ident, cls)
    li = 0
    have = False

    def nxt():
        nonlocal li
        l = lines[li] if li < len(lines) else None
        li += 1
        return l

    def status(op):
        l = nxt()
        if l is None or not l.startswith("P ok "):
            errs.append(f"{op}: status line missing: {l}")
            return
        kv = dict((k, int(v)) for k, v in _kv.findall(l))
        for k in ("disjoint", "align", "intact", "owned"):
            if kv.get(k) != 1:
                errs.append(f"{op}: harness monitor reports {k}={kv.get(k)} " +
                            ("(a live block lies neither in a page the allocator currently holds nor in a block of the parent: "
                             "memory of a page already returned to the OS)" if k == "owned" else
                             "(real addresses / fill patterns of all live blocks)"))
        exp = sum(b["cls"] for b in live.values())
        if kv.get("active") != exp:
            errs.append(f"{op}: bytes_active={kv.get('active')} but the live small blocks' size classes sum to {exp}")
        # overlap from printed identities
        bypage = {}
        for nm, b in live.items():
            if b["ident"]:
                pg, off = b["ident"]
                if off < HDR or off + b["size"] > PS:
                    errs.append(f"{op}: {nm} at page {pg} offset {off} size {b['size']} reaches outside the page body")
                bypage.setdefault(pg, []).append((off, b["size"], nm))
        for pg, l2 in bypage.items():
            l2.sort()
            for (o1, s1, n1), (o2, s2, n2) in zip(l2, l2[1:]):
                if o1 + s1 > o2:
                    errs.append(f"{op}: live blocks {n1} [{o1},{o1+s1}) and {n2} [{o2},{o2+s2}) overlap in page {pg}")
        w = nxt()
        if w is None or not w.startswith("W reserved="):
            errs.append(f"{op}: reserved line missing: {w}")
            return
        res = int(w.split("=")[1])
        if not live:
            q = nxt()
            qb = nxt()
            if q != "P quiescent ok=1":
                errs.append(f"{op}: nothing live but the allocator keeps more than one page in some size class: {q} / {qb}")
            if res > NB * PS:
                errs.append(f"{op}: nothing live but bytes_reserved={res} > {NB} pages")
        if res < exp:
            errs.append(f"{op}: bytes_reserved={res} < bytes_active={exp}")

    def ident(op, name):
        l = nxt()
        if l is None or not l.startswith(f"W {name} "):
            errs.append(f"{op}: identity line missing: {l}")
            return None, True
        if l.endswith(" stray"):
            errs.append(f"{op}: returned pointer is neither inside a page the allocator holds nor a block of the parent "
                        "(e.g. a stale chunk of a page already returned to the OS)")
            return None, False
        if l.endswith(" big"):
            return None, False
        if l.endswith(" gone"):
            return "gone", False
        kv = dict((k, int(v)) for k, v in _kv.findall(l))
        return (kv["page"], kv["off"]), False

    for op in case.ops:
        if errs:
            break
        t = op.split()
        if t[0] == "new":
            if nxt() != "P new ok":
                errs.append("new: no allocator")
                break
            have = True
            live = {}
            status(op)
        elif not have:
            nxt()
        elif t[0] == "acq":
            idn, bad = ident(op, t[1])
            if bad:
                break
            size = psize(t[2])
            if idn and size > c["MAX_BIN"]:
                errs.append(f"{op}: a request of {size} bytes (> largest bin {c['MAX_BIN']}) was served from a bin page {idn} instead of the parent")
                break
            live[t[1]] = dict(size=size, ident=idn, cls=cls_of(size) if idn else 0)
            status(op)
        elif t[0] == "calloc" and psize(t[2]) * psize(t[3]) >= 2 ** 64:
            l = nxt()
            if l != "P calloc refused":
                errs.append(f"{op}: num*size does not fit a size_t, the library must refuse (fatal assert) and return no block: {l}")
        elif t[0] == "calloc":
            idn, bad = ident(op, t[1])
            if bad:
                break
            size = psize(t[2]) * psize(t[3])
            z = nxt()
            if z != f"P zero={size}":
                errs.append(f"{op}: calloc block not all zero: {z}")
            live[t[1]] = dict(size=size, ident=idn, cls=cls_of(size) if idn else 0)
            status(op)
        elif t[0] == "realloc":
            old, new = psize(t[2]), psize(t[3])
            b = live.get(t[1])
            if b is None or b["size"] != old or (old > 2 ** 41 and new != 0):      # the harness answers bad-op
                nxt()
                continue
            idn, bad = ident(op, t[1])
            if bad:
                break
            if new == 0:
                if idn != "gone":
                    errs.append(f"{op}: realloc to 0 did not release")
                del live[t[1]]
            else:
                k = nxt()
                if idn and new > c["MAX_BIN"] and idn != b["ident"]:
                    errs.append(f"{op}: a request of {new} bytes (> largest bin) was served from a bin page {idn} instead of the parent")
                    break
                tch = lambda n: n if n <= 2 ** 20 else 256 if n <= 2 ** 41 else 0
                if k != f"P kept={min(tch(old), tch(new))}":
                    errs.append(f"{op}: realloc did not preserve the first min(old,new)={min(old, new)} bytes: {k}")
                if idn and idn == b["ident"]:
                    cls = b["cls"]       # same chunk
                else:
                    cls = cls_of(new) if idn else 0
                live[t[1]] = dict(size=new, ident=idn, cls=cls)
            status(op)
        elif t[0] in ("rel", "reltag"):
            if t[1] not in live:
                nxt()
                continue
            del live[t[1]]
            status(op)
        elif t[0] == "active":
            l = nxt()
            exp = sum(b["cls"] for b in live.values())
            if l != f"P active={exp}":
                errs.append(f"active: {l} expected {exp}")
        elif t[0] == "pagesize":
            l = nxt()
            if l != f"P pagesize={PS} avail={PS - HDR}":
                errs.append(f"page_size / page_size_available getters: {l} (page size {PS}, header {HDR})")
        elif t[0] == "reserved":
            nxt()
        elif t[0] == "destroy":
            l = nxt()
            if live:
                continue
            if l != "P destroyed pages_left=0 parent_left=0 backend_left=0":
                errs.append(f"destroy did not return everything: {l}")
            have = False
        else:
            nxt()
    return errs


def nontrivial(case):
    return bool(case.tags.get("drain") or case.tags.get("cross") or case.tags.get("cross4096"))


def distribution(cases, c_out):
    d = {"acq": 0, "calloc": 0, "realloc": 0, "rel": 0, "destroy": 0, "mt1": 0, "cross_boundary_reallocs": 0, "drain_cases": 0,
         "exhaustive_cases": 0, "fullpage_cases": 0, "parents": {}, "reallocs_across_4096": 0, "huge_cases": 0, "small_results": 0, "big_results": 0, "pages_obtained_max": 0, "quiescent_points": 0}
    for i, c in enumerate(cases):
        for o in c.ops:
            k = o.split()[0]
            if k in d:
                d[k] += 1
            if o == "new mt=1":
                d["mt1"] += 1
        d["cross_boundary_reallocs"] += c.tags.get("cross", 0)
        d["reallocs_across_4096"] += c.tags.get("cross4096", 0)
        d["huge_cases"] += 1 if c.tags.get("huge") else 0
        if c.tags.get("parent"):
            d["parents"][c.tags["parent"]] = d["parents"].get(c.tags["parent"], 0) + 1
        d["drain_cases"] += 1 if c.tags.get("drain") else 0
        d["exhaustive_cases"] += 1 if c.tags.get("exhaustive") else 0
        d["fullpage_cases"] += 1 if c.tags.get("fullpage") else 0
        for l in c_out.get(i, []):
            if l.startswith("W p"):
                if " page=" in l:
                    d["small_results"] += 1
                    pg = int(l.split("page=")[1].split()[0])
                    d["pages_obtained_max"] = max(d["pages_obtained_max"], pg + 1)
                elif l.endswith("big"):
                    d["big_results"] += 1
            elif l.startswith("P quiescent"):
                d["quiescent_points"] += 1
    return d


# ------------------------------------------------------------------ threaded supporting run
def extra_stages(ctx):
    """OS-scheduled stress on a multi-threaded allocator (a TEST, one schedule per run): 2..8 threads
    with per-thread live sets and fill patterns; at join all patterns intact, blocks disjoint,
    bytes_active consistent, quiescence clause after releasing everything, destroy returns all."""
    try:
        exe = cbuild.build_harness(**HARNESS)
    except cbuild.BuildError as e:
        ctx.machinery_broken("build: " + str(e)[:2000])
        return
    quick = ctx.tier == "quick"
    runs = [(2, 4000), (3, 3000), (4, 3000), (8, 2000)] if quick else [(t, 20000) for t in (2, 3, 4, 5, 6, 7, 8)] * 3
    results = []

    def one(args):
        k, (nt, ops) = args
        seed = ctx.seed * 7919 + k
        text = f"case {k}\nnew mt=1\nstress {nt} {ops} {seed}\ndestroy\n"
        if bud.spent():
            return nt, ops, seed, None, "", text
        rc, out, _ = core.run_stream([exe], text, _stage_timeout(ctx), _stage_env(ctx), stall_s=_stage_timeout(ctx))
        bud.note(rc, out)
        return nt, ops, seed, rc, out, text

    from concurrent.futures import ThreadPoolExecutor
    _clear_hangs()
    bud = _Budget()
    with ThreadPoolExecutor(4) as ex:
        for nt, ops, seed, rc, out, text in ex.map(one, enumerate(runs)):
            if rc is None:
                results.append({"threads": nt, "ops_per_thread": ops, "ok": None, "skipped": "stage budget spent (hung runs)"})
                continue
            ls = out.splitlines()
            st = [l for l in ls if l.startswith("P stress")]
            ds = [l for l in ls if l.startswith("P destroyed")]
            ok = rc == 0 and st and " ok=1 " in st[0] and ds == ["P destroyed pages_left=0 parent_left=0 backend_left=0"]
            results.append({"threads": nt, "ops_per_thread": ops, "ok": bool(ok)})
            if not ok:
                ctx.violation(f"stress-{ctx.seed}-{nt}", {"stress_ops": text.splitlines(), "threads": nt, "observed": out[-2500:],
                                                         "kind": "threaded stress (OS-scheduled, may need repetition to reproduce)"},
                              "threaded run on a multi-threaded allocator: " +
                              (st[0] if st else ([l for l in ls if "wall-clock watchdog" in l] or [f"rc={rc} (crash / sanitizer abort)"])[0]))
    ctx.cov["threaded_stress_runs_TEST"] = results
    ctx.notes.append("threaded stage is an OS-scheduled stress test (supporting run), not a proof over schedules")
    parent_stage(ctx, exe)
    _clear_hangs()
    plain_stage(ctx)
    sched_stage(ctx)
    _clear_hangs()
    debug_stage(ctx)
    _clear_hangs()


def parent_stage(ctx, exe):
    """the PARENT CONTRACT assumed by the model (ASSUMPTIONS), checked directly on every parent configuration under ASan:
    aws_mem_acquire / calloc (num > 1) / realloc / release on the parent itself, sizes around 512 and 4096, patterns of all
    live blocks after every step, calloc zeros, realloc keeps min(old,new), C-library balance 0 at the end"""
    quick = ctx.tier == "quick"
    jobs = [(k, ctx.seed * 131 + i) for k in PARENTS for i in range(3 if quick else 8)]
    bud = _Budget()

    def one(job):
        kind, seed = job
        ops = [f"parent {kind} {3000 if quick else 8000} {seed}"]
        if bud.spent():
            return ops, True, None, "not run: stage budget spent"
        rc, out, _ = core.run_stream([exe], "case 0\n" + "\n".join(ops) + "\n", _stage_timeout(ctx), _stage_env(ctx), stall_s=_stage_timeout(ctx))
        bud.note(rc, out)
        ls = out.splitlines()
        mon = [l for l in ls if l.startswith("P MONITOR")]
        ok = rc == 0 and f"P parent kind={kind} ok=1" in ls
        return ops, ok, rc, (mon[0] if mon else out[-400:])
    from concurrent.futures import ThreadPoolExecutor
    fails = 0
    with ThreadPoolExecutor(8) as ex:
        for ops, ok, rc, msg in ex.map(one, jobs):
            if not ok:
                fails += 1
                if fails <= 2:
                    ctx.violation(f"parent-{ctx.seed}-{ops[0].split()[1]}-{ops[0].split()[3]}", {"history_ops": ops, "flavour": "asan", "observed": msg, "rc": rc},
                                  "parent allocator against the contract the model assumes: " + msg[:300])
    ctx.cov["parent_contract_runs"] = {"runs": len(jobs), "failed": fails}


def plain_stage(ctx):
    """the corpus and the whole-page cases once more on an uninstrumented (-O2, no sanitizer) library: there a chunk of a
    page already returned to the OS is handed out silently, so it is the harness's ownership monitor (pages held /
    parent blocks, from the wrapped posix_memalign/free and the recording parent) and the oracle that must flag it"""
    try:
        exe = cbuild.build_harness(**dict(HARNESS, flavour="plain"))
    except cbuild.BuildError as e:
        ctx.machinery_broken("build (plain flavour): " + str(e)[:2000])
        return
    history_runs(ctx, exe)
    cases = core.load_corpus(ID) + fullpage_cases(ctx.rng, "quick")
    c_out, _, crashes = core.run_both(ctx, cases, exe, None, timeout=TIMEOUT, c_env=C_ENV, stall_s=STALL_S)
    ctx.cov["plain_build_cases"] = len(cases)
    for i, c in enumerate(cases):
        errs = oracle(c, c_out.get(i, []))
        if not errs and i in crashes:
            errs = ["crash: " + crashes[i][-600:]]
        if errs:
            ctx.violation(f"plain-{ctx.seed}-{i}", {"ops": c.ops, "flavour": "plain", "clause": errs[:3], "impl_output": c_out.get(i, [])[-12:]},
                          "uninstrumented build, direct oracle: " + errs[0][:300])
            break


def debug_cases(rng, quick):
    """legal histories for the DEBUG_BUILD run; hand-written first: per size class, carve n chunks from a fresh page, release
    all n while it is still the working page (the page stays, alloc_count 0, its chunks on the free list), acquire again"""
    cases = []
    for cls in consts().get("BINS", [32, 64, 128, 256, 512]):
        for n in (1, 2, min(5, per_page(cls) - 1)):
            ops = ["new mt=0"] + [f"acq p{i} {cls}" for i in range(1, n + 1)] + [f"rel p{i}" for i in range(1, n + 1)]
            ops += [f"acq p{i} {max(1, cls - 1)}" for i in range(10, 10 + n + 1)] + [f"rel p{i}" for i in range(10, 10 + n + 1)] + ["destroy"]
            cases.append(Case(ops, {"debug": 1}))
    cases += core.load_corpus(ID)
    k = 40 if quick else 300
    cases += [case_drain(rng) for _ in range(k)] + [case_random(rng, 60) for _ in range(k)]
    cases += [case_cross(rng) for _ in range(k // 2)] + [case_parents(rng, par) for par in PARENTS for _ in range(3 if quick else 20)]
    cases += fullpage_cases(rng, "quick")[::4 if quick else 1]
    return cases


def debug_stage(ctx):
    """the op stream once more on a DEBUG_BUILD library (-DDEBUG_BUILD: the library's own AWS_ASSERT / AWS_PRECONDITION /
    AWS_POSTCONDITION active, as in the repository's Debug configuration).  Every history generated here is legal, so an
    assertion that fires (abort) is a violation: the allocator refuses a history the property says it must serve."""
    try:
        exe = cbuild.build_harness(**dict(HARNESS, flavour="debug"))
    except cbuild.BuildError as e:
        ctx.machinery_broken("build (debug flavour): " + str(e)[:2000])
        return
    cases = debug_cases(ctx.rng, ctx.tier == "quick")
    c_out, _, crashes = core.run_both(ctx, cases, exe, None, timeout=TIMEOUT, c_env=C_ENV, stall_s=STALL_S)
    ctx.cov["debug_build_cases"] = len(cases)
    reported = 0
    for i, c in enumerate(cases):
        errs = oracle(c, c_out.get(i, []))
        if i in crashes:
            tail = [l for l in crashes[i].splitlines() if "Fatal error condition" in l or "assert" in l.lower() or "ERROR" in l]
            errs = ["the library aborted on a legal history (DEBUG_BUILD assertions active): " + (tail[0].strip() if tail else crashes[i][-300:])]
        if errs:
            ctx.violation(f"debug-{ctx.seed}-{i}", {"debug_ops": c.ops, "flavour": "debug", "clause": errs[:3],
                                                   "observed": crashes.get(i, "")[-1500:]},
                          "DEBUG_BUILD run: " + errs[0][:300])
            reported += 1
            if reported >= 2:
                break


def history_runs(ctx, exe):
    """long random histories (sizes 1..700, bins and parent mixed, grow / shrink phases that drain pages) on the -O2
    build with plain malloc as the parent — malloc recycles the memory of pages the allocator returned, so a parent
    block can land on it: this is the run that covers the tag test of s_sba_free on parent blocks (the defect repaired
    by /repo bdb9b25 — tags left in freed pages — shows up here).  One process per history; the harness's monitors
    decide (overlap, chunk-boundary-of-its-class or parent block, patterns, bytes_active, quiescence, parent balance)."""
    quick = ctx.tier == "quick"
    n = 400 if quick else 6000
    base = ctx.seed * 100003
    jobs = []
    for k in range(n):
        phase = (3000, 3250, 3500, 3750, 4000)[k % 5]
        jobs.append(["new mt=0 malloc", f"history {4 * phase} {base + k} 4000 {phase}", "destroy"])

    bud = _Budget()

    def one(ops):
        if bud.spent():
            return ops, True, None, "not run: stage budget spent"
        rc, out, _ = core.run_stream([exe], "case 0\n" + "\n".join(ops) + "\n", _stage_timeout(ctx), _stage_env(ctx), stall_s=_stage_timeout(ctx))
        bud.note(rc, out)
        ls = out.splitlines()
        h = [l for l in ls if l.startswith("P history")]
        mon = [l for l in ls if l.startswith("P MONITOR")]
        ok = rc == 0 and h and h[0].endswith("ok=1") and "P destroyed pages_left=0 parent_left=0 backend_left=0" in ls and not mon
        return ops, ok, rc, (mon[0] if mon else (h[0] if h else out[-300:]))
    from concurrent.futures import ThreadPoolExecutor
    fails = 0
    with ThreadPoolExecutor(8) as ex:
        for ops, ok, rc, msg in ex.map(one, jobs):
            if not ok:
                fails += 1
                if fails <= 3:
                    ctx.violation(f"history-{ctx.seed}-{ops[1].split()[2]}", {"history_ops": ops, "flavour": "plain", "observed": msg, "rc": rc},
                                  "random history on the -O2 build with malloc as the parent: " + msg[:300])
    ctx.cov["plain_histories"] = {"runs": n, "steps_each": "12000-16000", "failed": fails}


# ------------------------------------------------------------------ scheduled run (detsched)
def sched_scenarios(cls):
    """short scripted thread programs around the page transitions of one size class: (size, pre, [(give, prog), ...])"""
    pp = per_page(cls)
    return [
        ("release-vs-exhaust", pp - 2, [(1, "ra"), (pp - 3, "a a a ra")]),
        ("release-vs-exhaust-2", pp - 1, [(1, "ra"), (pp - 2, "a a ra")]),
        ("three-threads", pp - 1, [(1, "ra"), (pp - 2, "ra"), (0, "a a a ra")]),
        ("drain-active-page", pp, [(1, "rl"), (pp - 1, "ra"), (0, "a ra")]),
        ("first-page-race", 0, [(0, "a a ra"), (0, "a a rz")]),
        ("mixed", pp - 1, [((pp - 1) // 2, "rz a"), (pp - 1 - (pp - 1) // 2, "ra a a ra")]),
        ("two-pages", pp + 1, [(1, "ra"), (pp - 1, "rz"), (1, "ra a a")]),
        # a third thread reads bytes_active while the others are inside the bins (every bin is read under its lock: the
        # value must lie within what the live blocks summed to during the call)
        ("metric-vs-exhaust", pp - 2, [(1, "ra"), (pp - 3, "a a a ra"), (0, "m m m")]),
        ("metric-vs-drain", pp, [(1, "rl a"), (pp - 1, "ra"), (0, "m m")]),
        ("metric-two-readers", 2, [(2, "a rf a ra"), (0, "m m"), (0, "m a m ra")]),
    ]


def sched_ops(cls, sc):
    name, pre, threads = sc
    return [f"scenario {cls} {pre} {len(threads)}"] + [f"thread {g} {prog}" for g, prog in threads]


def sched_stage(ctx):
    """The multi-threaded allocator under harness/detsched.c: every pthread mutex call of the library is a schedule
    point, execution is serialised, the schedule is chosen by the harness.  Per size class 2-3 threads run short scripted
    programs (fill the page / release in orders / release everything); explored: the schedule without preemption, EVERY
    single preemption of it (a switch at a lock call is exactly the window between an unlocked read and the locked part),
    sampled second preemptions, and seeded random schedules.  Oracle after join: patterns intact, live blocks disjoint
    and owned, then everything released: bytes_active = 0, at most one page per class, no page released twice, destroy
    returns everything.  A failure is reported with the explicit schedule (replayable)."""
    try:
        exe = cbuild.build_harness(**SCHED_HARNESS)
    except cbuild.BuildError as e:
        ctx.machinery_broken("build (detsched flavour): " + str(e)[:2000])
        return
    quick = ctx.tier == "quick"
    jobs = []
    for cls in consts().get("BINS", [32, 64, 128, 256, 512]):
        for sc in sched_scenarios(cls):
            jobs.append((cls, sc))

    def one(job):
        cls, sc = job
        head = sched_ops(cls, sc)
        ops = ["case 0"] + head + [f"explore 2 {3000 if quick else 200000} {ctx.seed}"]
        for k in range(10 if quick else 300):
            ops.append(f"run seed {ctx.seed * 1000 + k}")
        if not quick:
            ops += [f"explore 2 200000 {ctx.seed * 77 + k}" for k in range(1, 6)]
        if bud.spent():
            return cls, sc, head, 0, False, None, "not run: the stage already has its failing schedules", None
        tmo = 60 if quick else 600
        rc, out, _ = core.run_stream([exe], "\n".join(ops) + "\n", tmo, _stage_env(ctx), stall_s=_stage_timeout(ctx))
        ls = out.splitlines()
        if rc != 0 or any(l.startswith("P MONITOR") for l in ls):
            bud.hung += 1          # a deadlock / failing schedule / watchdog: two of them end the stage
        runs = sum(int(l.split("runs=")[1].split()[0]) for l in ls if l.startswith("P explore")) + sum(1 for l in ls if l.startswith("P sched seed"))
        mon = [l for l in ls if l.startswith("P MONITOR")]
        sch = [l for l in ls if l.startswith("W schedule ")]
        bad = rc != 0 or mon or any(l.startswith("P sched") and " ok=0" in l for l in ls) or "bad-op" in ls
        return cls, sc, head, runs, bad, rc, (mon[0] if mon else out[-400:]), (sch[0].split(" ", 2)[2] if sch else None)
    from concurrent.futures import ThreadPoolExecutor
    total, reported = 0, 0
    bud = _Budget()
    with ThreadPoolExecutor(8) as ex:
        for cls, sc, head, runs, bad, rc, msg, sched in ex.map(one, jobs):
            total += runs
            if bad and reported < 3:
                reported += 1
                rops = head + ([f"run explicit {sched}"] if sched else [f"explore 2 3000 {ctx.seed}"])
                ctx.violation(f"sched-{ctx.seed}-{cls}-{sc[0]}", {"sched_ops": rops, "size_class": cls, "scenario": sc[0], "schedule": sched,
                                                                 "observed": msg, "rc": rc, "flavour": "asan + detsched"},
                              f"multi-threaded allocator under the deterministic scheduler, class {cls}, scenario {sc[0]}: " + msg[:300])
    ctx.cov["scheduled_runs"] = {"scenarios": len(jobs), "schedules_executed": total,
                                 "exploration": "no preemption + every single preemption + sampled second preemptions + seeded random"}
    ctx.cov["traces_validated_against_impl"] = ctx.cov.get("traces_validated_against_impl", 0)


def replay(ctx, obj):
    if "debug_ops" in obj:
        exe = cbuild.build_harness(**dict(HARNESS, flavour="debug"))
        rc, out, _ = core.run_stream([exe], "case 0\n" + "\n".join(obj["debug_ops"]) + "\n", 120, C_ENV, stall_s=RERUN_STALL_S)
        print(out[-2500:])
        errs = oracle(Case(obj["debug_ops"]), out.splitlines()[1:]) if rc == 0 else [f"the library aborted / crashed again (rc={rc}) on this legal history"]
        if errs:
            ctx.violation(f"replay-{ctx.seed}", {"debug_ops": obj["debug_ops"], "observed": out[-2000:]}, "replay on the DEBUG_BUILD library fails again: " + errs[0][:300])
        else:
            print("replay: the property held on this history (DEBUG_BUILD)")
        return
    if "history_ops" in obj or "sched_ops" in obj:
        sched = "sched_ops" in obj
        exe = cbuild.build_harness(**(SCHED_HARNESS if sched else dict(HARNESS, flavour=obj.get("flavour", "plain") if obj.get("flavour") in ("plain", "asan") else "plain")))
        ops = obj["sched_ops"] if sched else obj["history_ops"]
        rc, out, _ = core.run_stream([exe], "case 0\n" + "\n".join(ops) + "\n", 600)
        print(out[-3000:])
        ls = out.splitlines()
        bad = rc != 0 or any(l.startswith("P MONITOR") for l in ls) or any(" ok=0" in l for l in ls)
        if bad:
            key = "sched_ops" if sched else "history_ops"
            mon = [l for l in ls if l.startswith("P MONITOR")]
            ctx.violation(f"replay-{ctx.seed}", {key: ops, "observed": out[-2500:]},
                          "replay fails again: " + (mon[0] if mon else f"rc={rc}"))
        else:
            print("replay: the property held on this history / schedule")
        return
    """replay of a threaded stress finding: the schedule is the OS's, so the run is repeated"""
    if "stress_ops" not in obj:
        print(json.dumps(obj, indent=1)[:3000])
        return
    exe = cbuild.build_harness(**HARNESS)
    text = "\n".join(obj["stress_ops"]) + "\n"
    for k in range(10):
        rc, out, _ = core.run_stream([exe], text, 600)
        st = [l for l in out.splitlines() if l.startswith("P stress")]
        ds = [l for l in out.splitlines() if l.startswith("P destroyed")]
        ok = rc == 0 and st and " ok=1 " in st[0] and ds == ["P destroyed pages_left=0 parent_left=0 backend_left=0"]
        print(f"stress replay {k}: {'ok' if ok else 'FAILED'} {st[0] if st else out[-400:]}")
        if not ok:
            ctx.violation(f"stress-replay-{ctx.seed}", {"stress_ops": obj["stress_ops"], "observed": out[-2500:]},
                          "threaded run on a multi-threaded allocator fails again: " + (st[0] if st else f"rc={rc}"))
            return


MANIFEST = dict(
    category="proof",
    design_ref="5.3",
    text=("Lean 4 theorems over a transcription of allocator_sba.c (find-bin via the generated round-up/clz functions, "
          "alloc-from-bin, free-to-bin with the purge loop and swap-with-last removal as written, realloc cases, metrics, destroy) "
          "with the OS page source and the parent allocator as parameters: an inductive invariant over every sequence of atomic "
          "bin actions (hence every merge of per-thread sequences) gives: no chunk both free and live, none twice in a free list, "
          "no chunk of a released page anywhere, live blocks disjoint / large enough / 32-byte aligned, alloc_count = live chunks "
          "of the page, bytes_active = sum of size classes, at quiescence at most the cursor page per bin, destroy frees exactly "
          "the held pages, realloc keeps min(old,new) bytes and writes to no other live block. Constants (bin sizes, page size, "
          "header size, tag) are regenerated from the source on every run. Tied to /repo by a correspondence run of the compiled "
          "model against allocator_sba.c rebuilt from the working tree (posix_memalign/free wrapped to number pages; chunk identity "
          "page/offset compared), a Python bookkeeping oracle on the implementation's printed addresses, fill patterns of all live "
          "blocks re-verified after every op under ASan, an OS-scheduled 2-8 thread stress run (test), long random histories on an "
          "-O2 build with malloc as the parent (covers the tag test of s_sba_free on parent blocks), and the multi-threaded allocator "
          "under the deterministic scheduler (every single preemption at lock/unlock points per size class)."),
    note=("Trusted: Lean kernel; hand-written model Model/Sba.lean (tied by correspondence only); harness; bin operations atomic "
          "under the bin mutex; the unlocked tag read in s_sba_free and the parent's page-base word are assumptions; real races only sampled."),
    technique="Lean 4 inductive invariant over all action sequences + generated constants + model/implementation differential run + threaded stress test",
)
