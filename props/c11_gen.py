"""C11 case generators.  Trees are tuples: ('z',) | ('b',bool) | ('n',bits) | ('s',bytes) |
('a',[tree]) | ('o',[(keybytes, tree)])."""
import struct
from lib.core import Case
from props import c11_num as N

LIMIT_DEFAULT = 1000

# ---------------------------------------------------------------- scalars
CTRL = bytes(range(1, 32))


def gen_bytes(rng, allow_nul=False):
    r = rng.random()
    if r < 0.1:
        return b""
    n = rng.choice([1, 1, 2, 3, 5, 8, 17])
    out = bytearray()
    for _ in range(n):
        k = rng.random()
        if k < 0.25:
            out.append(rng.choice(CTRL))                         # control characters (\b \f \n \r \t and \u00XX)
        elif k < 0.4:
            out += rng.choice([b'"', b"\\", b"/", b"\\u0041", b"\\n", b'\\"'])   # quotes, backslashes, text that looks like escapes
        elif k < 0.6:
            out += rng.choice(["é", "ß", "€", "日本", "𝄞", "😀", "\u07ff", "\u0800", "\uffff", "\U00010000", "\U0010ffff"]).encode()
        elif k < 0.7:
            out.append(rng.randrange(0x80, 0x100))               # arbitrary high bytes (not valid UTF-8)
        elif k < 0.75:
            out.append(0x7F)
        else:
            out.append(rng.choice(b"abcxyzABCXYZ019 _-{}[]:,"))
    if allow_nul and rng.random() < 0.3:
        out.insert(rng.randrange(len(out) + 1), 0)
    return bytes(out)


def gen_key(rng, used):
    """key whose C string is not case-insensitively equal to a used one"""
    for _ in range(50):
        k = gen_bytes(rng) if rng.random() < 0.5 else bytes(rng.choice(b"abAB") for _ in range(rng.randint(1, 3)))
        if k.lower() not in used:
            return k
    return b"k%d" % len(used)


def d2b(d):
    return N.bits_of(d)


def gen_num_bits(rng):
    """finite doubles, except those whose PREDICTED text already violates the number clause (the known findings: |d| > 1.797693134862315e308,
    2^k-2ulp, some subnormals) — these live in corpus/C11 only so that they do not use up the report budget"""
    while True:
        b = _gen_num_bits(rng)
        tk = N.predicted_token(b)
        if tk != b"null" and N.number_clause(b, float(tk.decode())) is not None:
            continue      # known findings C11-huge-inf / C11-relerr-margin: exercised from corpus/C11 only
        return b


def _gen_num_bits(rng):
    r = rng.random()
    if r < 0.3:
        return d2b(float(rng.choice([0, 1, -1, 7, 42, -42, 2**31 - 1, -2**31, 2**31 - 2, -2**31 + 1, rng.randint(-2**31, 2**31 - 1)])))
    if r < 0.4:   # just beyond int
        return d2b(float(rng.choice([2**31, -2**31 - 1, 2**31 + 1, 2**32, 2**53, 2**53 - 1, 2**53 + 2, -2**53, 2**63, 2**64, 10**15, 10**15 + 1, 10**16, 123456789012345678, 10**22, 10**23])))
    if r < 0.5:   # subnormals and extremes
        return rng.choice([1, 2, 0x000FFFFFFFFFFFFF, 0x0010000000000000, 0x7FEFFFFFFFFFFFFF, 0x8000000000000001, 0xFFEFFFFFFFFFFFFF,
                           rng.randrange(1, 1 << 52)])
    if r < 0.55:
        return 0x8000000000000000   # -0.0
    if r < 0.7:   # short decimals (<= 15 significant digits)
        digs = rng.randint(1, 15)
        m = rng.randrange(1, 10**digs)
        e = rng.randint(-20, 20)
        return d2b(float(f"{'-' if rng.random() < 0.3 else ''}{m}e{e}"))
    if r < 0.8:   # 16/17 significant digits
        digs = rng.choice([16, 17])
        m = rng.randrange(10**(digs - 1), 10**digs)
        return d2b(float(f"{m}e{rng.randint(-30, 10)}"))
    if r < 0.9:   # near-integers and halves
        return d2b(rng.choice([0.5, -0.5, 1.5, 0.1, 0.2, 0.3, 1 / 3, 2 / 3, 1e-7, 1e21, 1e-5, 0.0001, 123456.789, 2**31 - 0.5, -2**31 - 0.5, 4.35, 0.1 + 0.2, 5e-324, 1.7976931348623157e308]))
    while True:
        b = rng.getrandbits(64)
        if (b >> 52) & 0x7FF != 0x7FF:      # finite
            return b


def gen_scalar(rng, nonfinite=False):
    r = rng.random()
    if r < 0.1:
        return ("z",)
    if r < 0.25:
        return ("b", rng.random() < 0.5)
    if r < 0.6:
        if nonfinite and rng.random() < 0.05:
            return ("n", rng.choice([0x7FF0000000000000, 0xFFF0000000000000, 0x7FF8000000000000]))
        return ("n", gen_num_bits(rng))
    return ("s", gen_bytes(rng))


def gen_tree(rng, depth, ints_only=False, width=4):
    if depth <= 0 or rng.random() < 0.3:
        t = gen_scalar(rng)
        if ints_only and t[0] == "n" and not N.is_int_class(t[1]):
            t = ("n", d2b(float(rng.randint(-2**31, 2**31 - 1))))
        return t
    n = rng.choice([0, 1, 1, 2, 3, width])
    if rng.random() < 0.5:
        return ("a", [gen_tree(rng, depth - 1, ints_only, width) for _ in range(n)])
    used, ms = set(), []
    for _ in range(n):
        k = gen_key(rng, used)
        used.add(k.lower())
        ms.append((k, gen_tree(rng, depth - 1, ints_only, width)))
    return ("o", ms)


def tree_depth(t):
    if t[0] == "a":
        return 1 + max([tree_depth(x) for x in t[1]] or [0])
    if t[0] == "o":
        return 1 + max([tree_depth(x) for _, x in t[1]] or [0])
    return 0


def tree_nums(t, out):
    if t[0] == "n":
        out.append(t[1])
    elif t[0] == "a":
        for x in t[1]:
            tree_nums(x, out)
    elif t[0] == "o":
        for _, x in t[1]:
            tree_nums(x, out)
    return out


def hx(b):
    return b.hex() or "-"


# ---------------------------------------------------------------- op emission
class Emit:
    def __init__(self):
        self.ops, self.n = [], 0
        self.tok, self.val = {}, {}

    def fresh(self, p="v"):
        self.n += 1
        return f"{p}{self.n}"

    def hint_num(self, bits):
        if not N.is_int_class(bits):
            tk = N.predicted_token(bits)
            self.tok[bits] = tk
            if tk != b"null":
                b2 = N.bits_of(float(tk.decode()))
                self.val[tk] = b2
                if b2 != bits and b2 not in self.tok:
                    self.hint_num(b2)       # the re-read value may be printed again

    def hint_text(self, text):
        h = N.hints_for_text(text)
        self.val.update(h)
        for b in h.values():
            self.hint_num(b)            # a number read from the text may be printed later

    def build(self, t):
        """ops creating tree t through the API; returns the slot name"""
        s = self.fresh()
        k = t[0]
        if k == "z":
            self.ops.append(f"null {s}")
        elif k == "b":
            self.ops.append(f"bool {s} {int(t[1])}")
        elif k == "n":
            d = N.dbl_of(t[1])
            self.hint_num(t[1])
            if N.is_int_class(t[1]) and (self.n % 2 == 0):
                self.ops.append(f"num_i {s} {int(d)}")
            else:
                self.ops.append(f"num_bits {s} {N.hex16(t[1])}")
        elif k == "s":
            # aws_json_value_new_string (cursor) or aws_json_value_new_string_from_c_str
            self.ops.append(f"{'str' if self.n % 3 else 'cstr_str'} {s} {hx(t[1])}")
        elif k == "a":
            self.ops.append(f"new_arr {s}")
            for x in t[1]:
                c = self.build(x)
                self.ops.append(f"arr_add {s} {c}")
        else:
            self.ops.append(f"new_obj {s}")
            for key, x in t[1]:
                c = self.build(x)
                self.ops.append(f"add {s} {hx(key)} {c}")
        return s

    def case(self, tags):
        return Case(N.hint_lines(self.tok, self.val) + self.ops + ["end"], tags)


def roundtrip_case(rng, ints_only=False, depth=None):
    e = Emit()
    t = gen_tree(rng, depth if depth is not None else rng.choice([0, 1, 2, 3, 4, 5]), ints_only)
    s = e.build(t)
    e.ops += [f"dump {s}", f"print {s} compact", f"print {s} formatted",
              f"reparse {s} compact r0", "dump r0", f"cmp {s} r0 1", f"cmp r0 {s} 0",
              f"reparse {s} formatted r1", "dump r1", f"cmp r1 {s} 1",
              f"dup {s} d0", "dump d0", f"cmp d0 {s} 1", f"cmp d0 {s} 0", f"type {s}"]
    if rng.random() < 0.3:
        e.ops += ["reparse r0 formatted r2", "dump r2"]
    return e.case({"kind": "roundtrip", "ints_only": ints_only})


def access_case(rng):
    """add / get / has / remove on one object and one array, keys differing only in case,
    exact duplicates, indices around the size"""
    e = Emit()
    e.ops += ["new_obj o", "new_arr a", "new_obj w"]
    keys = []
    rehomed = 0
    size = 0
    for _ in range(rng.randint(3, 25)):
        r = rng.random()
        if r < 0.25:
            if keys and rng.random() < 0.4:
                k = rng.choice(keys)
                k = k if rng.random() < 0.5 else k.swapcase()
            else:
                k = gen_bytes(rng, allow_nul=True) if rng.random() < 0.5 else bytes(rng.choice(b"abAB") for _ in range(rng.randint(1, 2)))
            v = e.build(gen_tree(rng, 1))
            e.ops.append(f"add o {hx(k)} {v}")
            e.ops.append(f"destroy {v}")     # bad-op (both sides) when the add succeeded; frees it when refused
            keys.append(k)
        elif r < 0.45 and keys:
            k = rng.choice(keys)
            if rng.random() < 0.3:
                k = k.swapcase()
            e.ops.append(rng.choice([f"get o {hx(k)}", f"has o {hx(k)}", f"dupget o {hx(k)} g"]))
            if e.ops[-1].startswith("dupget") and rng.random() < 0.7:
                # a duplicated member still carries its old key: adding it elsewhere must replace (and release) that key
                rehomed += 1
                e.ops += [rng.choice([f"add w {hx(b'r%d' % rehomed)} g", "arr_add a g"]), "destroy g", "print w compact", "dump w"]
                if e.ops[-4] == "arr_add a g":
                    size += 1
                    # the element still carries a key internally: an array must not answer object queries with it
                    e.ops += [f"has a {hx(k)}", f"get a {hx(k)}", f"remove a {hx(k)}", "dump a"]
        elif r < 0.55 and keys:
            k = rng.choice(keys)
            if rng.random() < 0.3:
                k = k.swapcase()
            e.ops.append(f"remove o {hx(k)}")
            e.ops.append(f"has o {hx(k)}")
        elif r < 0.7:
            v = e.build(gen_tree(rng, 1))
            e.ops.append(f"arr_add a {v}")
            size += 1
        elif r < 0.8:
            i = rng.choice([0, max(size - 1, 0), size, size + 1, "MAX", "HALF", 2**31, 2**32, rng.randint(0, size + 2)])
            e.ops.append(rng.choice([f"arr_get a {i}", f"dupat a {i} g"]))
        elif r < 0.9:
            i = rng.choice([0, max(size - 1, 0), size, size + 1, "MAX", 2**32, rng.randint(0, size + 2)])
            e.ops.append(f"arr_remove a {i}")
            if isinstance(i, int) and i < size:
                size -= 1
        elif r < 0.93:
            tgt = rng.choice(["o", "a", "a", "w"])
            st = rng.choice(["-", "-", "0", "1", "2", str(rng.randint(0, 30))])
            fl = rng.choice(["-", "-", "-", "0", "1", str(rng.randint(0, 30))])
            e.ops.append(f"iter {tgt} {st} {fl}")
        elif r < 0.95:
            e.ops.append(rng.choice(["arr_size a", "arr_size o", "iter g - -", "get a 6b", "has a 6b", "remove a 6b", "arr_get o 0", "arr_remove o 0"]))
        else:
            v = e.build(gen_scalar(rng))
            e.ops.append(rng.choice([f"add a 6b {v}", f"arr_add o {v}", f"add {v} 6b a"]))
            e.ops.append(f"destroy {v}")
    e.ops += ["dump o", "dump a", "print o compact", "print a formatted", "reparse o compact r0", "dump r0", "cmp o r0 1"]
    return e.case({"kind": "access"})


# ---------------------------------------------------------------- JSON text written by Python (parser input)
def py_string(rng, b):
    """a JSON string literal for bytes b using every escape form cJSON accepts"""
    out = bytearray(b'"')
    try:
        chars = list(b.decode("utf-8"))
        valid = True
    except UnicodeDecodeError:
        chars, valid = [], False
    if not valid:
        for c in b:
            if c == 0x22 or c == 0x5C:
                out += b"\\" + bytes([c])
            elif c < 0x20 and rng.random() < 0.7:
                out += b"\\u%04x" % c
            else:
                out.append(c)      # raw byte (cJSON copies it)
        return bytes(out + b'"')
    short = {"\b": b"\\b", "\f": b"\\f", "\n": b"\\n", "\r": b"\\r", "\t": b"\\t", '"': b'\\"', "\\": b"\\\\", "/": b"\\/"}
    for ch in chars:
        cp = ord(ch)
        r = rng.random()
        if ch in short and (r < 0.7 or ch in '"\\'):
            out += short[ch]
        elif cp < 0x20 or r < 0.3:
            if cp >= 0x10000:
                v = cp - 0x10000
                hi, lo = 0xD800 + (v >> 10), 0xDC00 + (v & 0x3FF)
                f = "\\u%04X\\u%04x" if rng.random() < 0.5 else "\\u%04x\\u%04X"
                out += (f % (hi, lo)).encode()
            else:
                out += (("\\u%04X" if rng.random() < 0.5 else "\\u%04x") % cp).encode()
        else:
            out += ch.encode()
    return bytes(out + b'"')


def py_number(rng, bits):
    d = N.dbl_of(bits)
    if N.is_int_class(bits):
        n = int(d)
        r = rng.random()
        if r < 0.6:
            return b"%d" % n
        if r < 0.7:
            return b"%d.0" % n
        if r < 0.8:
            return b"%d.000e0" % n
        if r < 0.9 and n % 10 == 0 and n != 0:
            return b"%de1" % (n // 10)
        return b"%dE+0" % n
    r = rng.random()
    s = repr(d) if r < 0.5 else ("%.17g" % d if r < 0.8 else "%.16e" % d)
    return s.encode()


def ws(rng):
    return rng.choice([b"", b"", b"", b" ", b"\n", b"\t", b"\r\n", b"  \t", b"\x01", b"\x1f "])


def py_text(rng, t):
    k = t[0]
    if k == "z":
        return b"null"
    if k == "b":
        return b"true" if t[1] else b"false"
    if k == "n":
        return py_number(rng, t[1])
    if k == "s":
        return py_string(rng, t[1])
    if k == "a":
        return b"[" + ws(rng) + (ws(rng) + b"," + ws(rng)).join(py_text(rng, x) for x in t[1]) + ws(rng) + b"]"
    return b"{" + ws(rng) + (ws(rng) + b"," + ws(rng)).join(
        py_string(rng, key) + ws(rng) + b":" + ws(rng) + py_text(rng, x) for key, x in t[1]) + ws(rng) + b"}"


def gen_tree_for_text(rng, depth):
    """trees a text can denote: duplicate keys and keys differing only in case are allowed"""
    t = gen_tree(rng, depth)
    if t[0] == "o" and t[1] and rng.random() < 0.3:
        k, v = rng.choice(t[1])
        k2 = k if rng.random() < 0.5 else k.swapcase()
        t[1].insert(rng.randrange(len(t[1]) + 1), (k2, gen_scalar(rng)))
    return t


def parse_case(rng):
    e = Emit()
    t = gen_tree_for_text(rng, rng.choice([0, 1, 2, 3, 4]))
    # finite numbers only (text cannot denote NaN); -0.0 denotes itself ("-0.0")
    text = ws(rng) + py_text(rng, t)
    if rng.random() < 0.2:
        text = b"\xef\xbb\xbf" + text
    tail = rng.choice([b"", b"", b" ", b"\n", b" trailing", b"]", b"\0garbage["])
    text += tail
    e.hint_text(text)
    for b in tree_nums(t, []):
        e.hint_num(b)
    e.ops += [f"parse p {hx(text)}", "dump p", "type p", "print p compact", "reparse p compact r0", "dump r0",
              "reparse p formatted r1", "dump r1", "dup p d0", "dump d0"]
    if not has_dup_keys(t, cs=True):
        e.ops += ["cmp p r0 1", "cmp d0 p 1", "cmp p d0 1"]     # keys may still differ in case only
    if not has_dup_keys(t):
        e.ops += ["cmp p r0 0", "cmp d0 p 0"]
    if t[0] == "o" and t[1]:
        k = rng.choice(t[1])[0]
        e.ops += [f"get p {hx(k)}", f"has p {hx(k.swapcase())}", f"get p {hx(k.swapcase())}", "iter p - -", f"iter p {rng.randint(0, 3)} -"]
        if rng.random() < 0.5:
            e.ops += [f"remove p {hx(k)}", "dump p", f"has p {hx(k)}"]
    elif t[0] == "a":
        e.ops += [f"iter p {rng.choice(['-', '0', '1'])} {rng.choice(['-', '-', '0', '2'])}", "arr_size p"]
    return e.case({"kind": "parse", "expect": dump_tree(t)})


def has_dup_keys(t, cs=False):
    """some object holds two members whose keys the lookup identifies: equal up to ASCII case (cs=False, the access
    layer and case-insensitive compare) or exactly equal (cs=True, case-sensitive compare)"""
    if t[0] == "a":
        return any(has_dup_keys(x, cs) for x in t[1])
    if t[0] == "o":
        ks = [(k if cs else k.lower()) for k, _ in t[1]]
        return len(set(ks)) != len(ks) or any(has_dup_keys(x, cs) for _, x in t[1])
    return False


def casekeys_case(rng):
    """objects PARSED from text whose member names differ only in letter case ("a"/"A", "key"/"KEY"/"Key"; the API
    refuses to build them) with different values: compared under both flags and in both orders with their duplicate,
    with their re-parsed serialisation and with one-leaf variants"""
    e = Emit()
    base = rng.choice([b"a", b"key", b"Ab", b"x1y", b"\xc3\xa9k", b"k"])
    forms = list(dict.fromkeys([base, base.upper(), base.lower(), base.capitalize(), base.swapcase()]))
    rng.shuffle(forms)
    forms = forms[:rng.randint(2, len(forms))]
    ms = [(k, rng.choice([("n", d2b(float(i + 1))), ("s", b"v%d" % i), ("b", i % 2 == 0), ("a", [("n", d2b(float(i)))]),
                          ("o", [(b"in", ("n", d2b(float(i))))])])) for i, k in enumerate(forms)]
    if rng.random() < 0.5:
        ms.insert(rng.randrange(len(ms) + 1), (b"other", gen_scalar(rng)))
    t = ("o", ms)
    r = rng.random()
    if r < 0.3:
        t = ("a", [t, ("z",)])
    elif r < 0.5:
        t = ("o", [(b"outer", t), (b"OUTER", ("n", d2b(0.0)))])
    u = _variant(rng, t)
    ta, tb = py_text(rng, t), py_text(rng, u)
    for x in (ta, tb):
        e.hint_text(x)
    for b in tree_nums(t, []) + tree_nums(u, []):
        e.hint_num(b)
    e.ops += [f"parse p {hx(ta)}", "dump p", "dup p d", "dump d", "reparse p compact r0", "dump r0", "reparse p formatted r1", "dump r1",
              f"parse q {hx(tb)}", "dump q"]
    for x, y in (("d", "p"), ("p", "d"), ("r0", "p"), ("p", "r1"), ("p", "q"), ("q", "p"), ("d", "q")):
        e.ops += [f"cmp {x} {y} 1"]
    # under the case-insensitive flag identical copies of such objects are the known finding C11-dupkey-compare
    # (witness in corpus/C11); only the variant pairs are compared here (model agreement)
    if u != t:
        e.ops += ["cmp p q 0", "cmp q p 0"]
    return e.case({"kind": "casekeys"})


def malformed_case(rng):
    e = Emit()
    r = rng.random()
    if r < 0.55:
        base = bytearray(py_text(rng, gen_tree_for_text(rng, rng.choice([1, 2, 3]))))
        for _ in range(rng.randint(1, 3)):
            k = rng.random()
            pos = rng.randrange(len(base) + 1)
            if k < 0.3 and base:
                del base[min(pos, len(base) - 1)]
            elif k < 0.6:
                base.insert(pos, rng.choice(b'"\\{}[],:0-e.ux\x00\x1f\xff'))
            elif k < 0.8 and base:
                base[min(pos, len(base) - 1)] = rng.choice(b'"\\{}[],:0-e.ux\x00\xff')
            else:
                base = base[:pos]
        if rng.random() < 0.25:
            # the wrong kind of closing bracket somewhere
            idx = [i for i, ch in enumerate(base) if ch in b"]}"]
            if idx:
                i = rng.choice(idx)
                base[i] = ord("}") if base[i] == ord("]") else ord("]")
        if rng.random() < 0.15 and b"\\u" in bytes(base):
            # damage the introducer of a second \u escape (surrogate pairs need exactly backslash-u)
            idx = [i for i in range(len(base) - 1) if base[i:i + 2] == b"\\u"]
            i = rng.choice(idx)
            base[i + rng.randint(0, 1)] = rng.choice(b"nU/x ")
        text = bytes(base)
    elif r < 0.6:
        # byte-order-mark look-alikes in front of valid text: only exactly EF BB BF (and at least one more byte) is skipped
        pre = bytes(rng.choice([[0xEF, 0xBB, 0xBF], [0xEF, 0xBB], [0xEF], [0xEF, 0xBB, rng.randrange(256)], [0xEF, rng.randrange(256), 0xBF],
                                [rng.randrange(256), 0xBB, 0xBF], [0xEF, 0xBB, 0xBF, 0xEF, 0xBB, 0xBF], [0x20, 0xEF, 0xBB, 0xBF]]))
        text = pre + py_text(rng, gen_tree_for_text(rng, rng.choice([0, 1, 2])))
    elif r < 0.7:
        text = bytes(rng.choice(b'[]{}",:\\u0123456789dDaAfF-+.eEtruefalsn \n\x00\xff') for _ in range(rng.randint(0, 24)))
    elif r < 0.85:
        text = rng.choice([
            b"", b"\0", b" ", b"\xef\xbb\xbf", b"\xef\xbb\xbf1", b"\xef\xbb\xbf[]", b"\xef\xbb[1]", b"\xef\xbb 1", b"\xef\xbf\xbf1", b"\xef[1]",
            b"\xef\xbb\xbe[1]", b"\xef\xbb\xbf\xef\xbb\xbf1", b" \xef\xbb\xbf1", b"\xef\xbb\xbf 1", b"\xef\xbb\xbf", b"\xef\xbb\xbf\x00", b"\xbb\xbf1", b"\xef\xbb\xbfx", b"nul", b"nulll", b"tru", b"-", b"-e", b"-.", b"-.5", b"+1", b".5", b"1.",
            b"1.e5", b"1e", b"1e+", b"0x10", b"007", b"-0", b"-00", b"1e999", b"-1e999", b"1" * 70, b"1" * 62 + b".5", b"1" * 63 + b",",
            b'"', b'"\\', b'"\\"', b'"\\u', b'"\\u12"', b'"\\u123"', b'"\\uD800"', b'"\\uD800\\u0041"', b'"\\uDC00"', b'"\\uD800\\uDC0"',
            b'"\\uD83D\\uDE00"', b'"\\ud83d\\ude00"', b'"\\uDBFF\\uDFFF"', b'"\\u0000abc"', b'"ab\\uZZZZcd"', b'"\\u00e9\\u20ac"', b'"\\x41"', b'"\\a"',
            b'"\\u\\"ab"x"', b'"\\u018\\\\"', b'"\\uD83D\\nDE00"', b'"\\uD83DxuDE00"', b'"\\uD83D\\\\uDE00"', b'"\\uD83D uDE00"', b'"\\uD83D\\UDE00"', b'"\\uD83D/uDE00"',
            b"[1}", b"[}", b"[[]}", b"{]", b'{"a":1]', b'{"a":[1}}', b"[1,2}", b"[{}}", b'[1,"a"}x', b'"\\u\\\\\\\\\\"', b'"\\uD800\\u018\\\\"', b'"ab\\u00\\\\\\"', b'"a\nb"', b'"\x7f\x80\xff"',
            b"[", b"[1", b"[1,", b"[1,]", b"[,1]", b"[1 2]", b"[1,2", b"[]]", b"{", b'{"a"', b'{"a":', b'{"a":1', b'{"a":1,', b'{"a":1,}', b"{1:2}", b'{"a" 1}',
            b'{"a":1 "b":2}', b'{"a":1,"a":2}', b'{"a":1,"A":2}', b'{"":0}', b"[1,2]x", b"[1,2],", b"{}{}", b"[ \t\r\n]", b"{ \n }", b"[\x01]",
        ])
    else:
        d = rng.choice([999, 1000, 1001, 1002, 1500])
        o = rng.choice([b"[", b'{"a":', b"[ "])
        c = b"]" if o[0:1] == b"[" else b"}"
        inner = rng.choice([b"", b"1", b'"x"'])
        text = o * d + (inner if o[0:1] == b"[" else (inner or b"0")) + c * d
    e.hint_text(text)
    e.ops += [f"parse p {hx(text)}"]
    # if it parsed, everything that follows must still work; if not, these are bad-op on both sides
    e.ops += ["dump p", "print p compact", "reparse p compact r0", "dump r0"]
    c = e.case({"kind": "malformed"})
    return c


def deep_case(rng, depth, kind):
    """a tree of exactly `depth` nested containers built through the API, then printed and re-read"""
    e = Emit()
    cur = e.build(gen_scalar(rng))
    for i in range(depth):
        s = e.fresh()
        if kind == "a" or (kind == "m" and i % 2):
            e.ops += [f"new_arr {s}", f"arr_add {s} {cur}"]
        else:
            e.ops += [f"new_obj {s}", f"add {s} 6b {cur}"]
        cur = s
    e.ops += [f"reparse {cur} compact r0", f"dup {cur} d0"]
    if kind == "a" or depth <= 64:
        # formatted text of n nested objects has n^2/2 tabs; the model's list appends make that cubic-ish, so the
        # formatted round trip of deep OBJECT nests is exercised at depth <= 64 only
        e.ops += [f"reparse {cur} formatted r1"]
    if kind == "a":
        # cJSON_Compare walks nested objects twice per level (2^depth calls): only arrays are compared when deep
        e.ops += [f"cmp d0 {cur} 1", f"cmp r0 {cur} 0"]
    return e.case({"kind": "deep", "depth": depth})


def container_paths(t, prefix=""):
    """(reference suffix, subtree) of every container reachable through getter steps with unambiguous keys"""
    out = []
    if t[0] == "a":
        out.append((prefix, t))
        for i, x in enumerate(t[1]):
            out += container_paths(x, f"{prefix}/i{i}")
    elif t[0] == "o":
        out.append((prefix, t))
        lows = [k.lower() for k, _ in t[1]]
        for k, x in t[1]:
            if lows.count(k.lower()) == 1:
                out += container_paths(x, f"{prefix}/k{hx(k)}")
    return out


def shaped_tree(rng):
    """a tree holding containers with exactly 0, 1, 2 and 3 children, some nested in one-child chains"""
    def leaf():
        return gen_scalar(rng) if rng.random() < 0.7 else ("n", d2b(float(rng.randint(-5, 5))))

    def cont(n, kind=None):
        kind = kind or rng.choice("ao")
        if kind == "a":
            return ("a", [leaf() for _ in range(n)])
        return ("o", [(b"m%d" % i, leaf()) for i in range(n)])
    parts = [cont(n) for n in (0, 1, 1, 2, 3)]
    # one-child chains: [[x]], {"k":[x]}, [{"k":x}], {"k":{"k":x}}
    chain = leaf()
    for _ in range(rng.randint(1, 3)):
        chain = ("a", [chain]) if rng.random() < 0.5 else ("o", [(rng.choice([b"k", b"K1", b"", b"in"]), chain)])
    parts.append(chain)
    if rng.random() < 0.5:
        parts.append(("a", [cont(1), cont(1, "o")]))
    rng.shuffle(parts)
    parts = parts[:rng.randint(1, len(parts))]
    r = rng.random()
    if r < 0.2:
        return parts[0]                       # the container itself is the root
    if r < 0.6:
        return ("a", parts)
    return ("o", [(b"p%d" % i, x) for i, x in enumerate(parts)])


def dupmut_case(rng, parsed=False):
    """continue the API history ON a duplicate (or a parsed tree) and on containers reached inside it"""
    e = Emit()
    t = shaped_tree(rng)
    if parsed:
        text = py_text(rng, t)
        e.hint_text(text)
        for b in tree_nums(t, []):
            e.hint_num(b)
        e.ops += [f"parse s {hx(text)}", "dump s"]
        src = "s"
    else:
        src = e.build(t)
    e.ops += [f"dup {src} d", "dump d", f"cmp d {src} 1"]
    targets = ["d"] if rng.random() < 0.6 else ["d", src]
    if parsed and rng.random() < 0.5:
        targets = [src]
    fresh = 0
    for root in targets:
        paths = container_paths(t)
        rng.shuffle(paths)
        for suffix, sub in paths[:rng.randint(1, 8)]:
            ref = root + suffix
            n = len(sub[1])
            if sub[0] == "o":
                fresh += 1
                key = b"zz%d" % fresh
                v = e.build(gen_scalar(rng) if rng.random() < 0.7 else ("a", []))
                e.ops += [f"add {ref} {hx(key)} {v}", f"get {ref} {hx(key)}", f"has {ref} {hx(key)}"]
                if rng.random() < 0.6:
                    v2 = e.build(("z",))
                    e.ops += [f"add {ref} {hx(key.upper() if rng.random() < 0.5 else key)} {v2}", f"destroy {v2}"]
                if rng.random() < 0.3:
                    e.ops += [f"remove {ref} {hx(key)}", f"has {ref} {hx(key)}"]
                if n and rng.random() < 0.3:
                    k0 = sub[1][0][0]
                    e.ops += [f"has {ref} {hx(k0)}", f"get {ref} {hx(k0)}"]
            else:
                v = e.build(gen_scalar(rng) if rng.random() < 0.7 else ("o", []))
                e.ops += [f"arr_size {ref}", f"arr_add {ref} {v}", f"arr_size {ref}", f"arr_get {ref} {n}"]
                if rng.random() < 0.4:
                    v2 = e.build(("b", True))
                    e.ops += [f"arr_add {ref} {v2}", f"arr_get {ref} {n + 1}", f"arr_size {ref}"]
                if rng.random() < 0.3:
                    e.ops += [f"arr_remove {ref} 0", f"arr_size {ref}"]
            # take out ORIGINAL children too (middle / last ones need intact prev links in the copy), then keep going
            if n >= 1 and rng.random() < 0.6:
                j = rng.choice([n - 1, n // 2, 0, rng.randrange(n)])
                if sub[0] == "o":
                    kj = sub[1][j][0]
                    if [kk.lower() for kk, _ in sub[1]].count(kj.lower()) == 1:
                        e.ops += [f"remove {ref} {hx(kj)}", f"has {ref} {hx(kj)}", f"dump {ref}"]
                        if n >= 2 and rng.random() < 0.5:
                            k2 = sub[1][(j + 1) % n][0]
                            e.ops += [f"remove {ref} {hx(k2)}", f"dump {ref}"]
                else:
                    e.ops += [f"arr_remove {ref} {j}", f"arr_size {ref}", f"dump {ref}"]
                    if n >= 2 and rng.random() < 0.5:
                        e.ops += [f"arr_remove {ref} {max(j - 1, 0)}", f"dump {ref}", f"iter {ref} - -"]
                break       # paths below this container may be gone now
            e.ops += [f"dump {ref}"]
        e.ops += [f"dump {root}", f"print {root} compact"]
    e.ops += [f"cmp d {src} 1", "reparse d formatted r0", "dump r0", "cmp r0 d 1"]
    return e.case({"kind": "dupmut", "parsed": parsed})


def buffer_case(rng):
    """serialise several documents into ONE output buffer that already holds content; small initial capacities make
    the appends reallocate while old content is present (aws_byte_buf_append_dynamic_secure behind the JSON printers)"""
    e = Emit()
    prefix = bytes(rng.randrange(256) for _ in range(rng.choice([0, 1, 3, 8, 8, 17, 40])))
    cap = rng.choice([0, 1, len(prefix), len(prefix) + 1, len(prefix) + 3, 16, 64, 300])
    e.ops.append(f"buf b {cap} {hx(prefix)}")
    ndocs = rng.randint(1, 4)
    for i in range(ndocs):
        t = gen_tree(rng, rng.choice([0, 1, 2, 3, 4]), width=rng.choice([3, 6, 12]))
        s = e.build(t)
        fmt = rng.choice(["compact", "formatted"])
        if rng.random() < 0.2:
            # through a borrowed child when there is one
            ps = [p for p, _ in container_paths(t) if p]
            if ps:
                s = s + rng.choice(ps)
        e.ops.append(f"printinto b {s} {fmt}")
        if rng.random() < 0.7:
            sep = rng.choice([bytes([10]), b",", b" ", bytes([13, 10]), bytes([0]), bytes(rng.randrange(256) for _ in range(rng.randint(1, 5)))])
            e.ops.append(f"bufappend b {hx(sep)}")
        if rng.random() < 0.3:
            e.ops.append("bufdump b")
    e.ops.append("bufdump b")
    for i in range(ndocs):
        e.ops += [f"parseseg b {i} r{i}", f"dump r{i}"]
    return e.case({"kind": "buffer"})


def wide_case(rng, lim, via):
    """documents with 1000-3000 sibling containers (empty {} and [], one-child, mixes) followed by a nested
    container: the parser's depth counter must not drift with the number of siblings"""
    n = rng.choice([lim - 1, lim, lim + 1, rng.randint(lim, 3 * lim)])
    kind = rng.choice(["eo", "ea", "mix", "o1", "members"])

    def sib(i):
        if kind == "eo":
            return ("o", [])
        if kind == "ea":
            return ("a", [])
        if kind == "o1":
            return ("o", [(b"k", ("o", []))])
        return rng.choice([("o", []), ("a", []), ("o", [(b"a", ("a", []))]), ("a", [("o", [])]), ("n", d2b(float(i % 7)))])
    tail = rng.choice([("a", [("n", d2b(1.0))]), ("o", [(b"t", ("a", []))]), ("a", [("a", [("o", [])])]), ("o", [])])
    if kind == "members":
        t = ("o", [(b"m%d" % i, rng.choice([("o", []), ("a", [])])) for i in range(n)] + [(b"tail", tail)])
    else:
        t = ("a", [sib(i) for i in range(n)] + [tail])
    if rng.random() < 0.3:
        t = ("a", [t]) if rng.random() < 0.5 else ("o", [(b"w", t)])
    e = Emit()
    if via == "api":
        s = e.build(t)
        e.ops += [f"reparse {s} compact r0", "dump r0", f"reparse {s} formatted r1", "dump r1"]
    else:
        text = py_text(rng, t) if rng.random() < 0.5 else dump_json_compact(t)
        e.hint_text(text)
        e.ops += [f"parse p {hx(text)}", "dump p", "reparse p compact r0", "dump r0"]
        return e.case({"kind": "wide", "n": n, "expect": dump_tree(t)})
    return e.case({"kind": "wide", "n": n})


def dump_json_compact(t):
    """plain compact JSON text (ints only here)"""
    k = t[0]
    if k == "z":
        return b"null"
    if k == "b":
        return b"true" if t[1] else b"false"
    if k == "n":
        return b"%d" % int(N.dbl_of(t[1]))
    if k == "s":
        return b'"' + t[1] + b'"'
    if k == "a":
        return b"[" + b",".join(dump_json_compact(x) for x in t[1]) + b"]"
    return b"{" + b",".join(b'"' + key + b'":' + dump_json_compact(x) for key, x in t[1]) + b"}"


def align_case(rng, pad):
    """every kind of token placed around cJSON's first print-buffer boundary (256 bytes) and the boundary after the
    first growth: an `ensure()` that reserves one byte too few shows up as a heap overflow under the exact-size allocator"""
    e = Emit()
    toks = [("b", False), ("b", True), ("z",), ("n", d2b(float(rng.choice([7, -12345, 2147483647])))), ("n", d2b(0.5)), ("s", b"q\n"),
            ("a", []), ("o", []), ("o", [(b"k", ("a", [("z",)]))]), ("s", b"")]
    rng.shuffle(toks)
    second = ("s", b"y" * rng.randint(200, 330))
    t = ("a", [("s", b"x" * pad)] + toks + [second] + toks[::-1])
    if rng.random() < 0.5:
        t = ("o", [(b"p", ("s", b"x" * max(pad - 6, 0)))] + [(b"m%d" % i, x) for i, x in enumerate(toks)] + [(b"q", second)] +
                  [(b"n%d" % i, x) for i, x in enumerate(toks[::-1])])
    s = e.build(t)
    e.ops += [f"print {s} compact", f"print {s} formatted", f"reparse {s} compact r0", "dump r0"]
    return e.case({"kind": "align", "pad": pad})


def _variant(rng, t):
    """a tree that differs from t in exactly one small place (or only in object member order: then it is EQUAL)"""
    import copy as _c
    t = _c.deepcopy(t)
    spots = []

    def walk(x, setter):
        spots.append((x, setter))
        if x[0] == "a":
            for i in range(len(x[1])):
                walk(x[1][i], (lambda v, l=x[1], i=i: l.__setitem__(i, v)))
        elif x[0] == "o":
            for i in range(len(x[1])):
                walk(x[1][i][1], (lambda v, l=x[1], i=i: l.__setitem__(i, (l[i][0], v))))
    holder = [t]
    walk(t, lambda v: holder.__setitem__(0, v))
    x, setter = rng.choice(spots)
    k = x[0]
    if k == "b":
        setter(("b", not x[1]))
    elif k == "z":
        setter(rng.choice([("b", False), ("s", b""), ("n", 0), ("a", []), ("o", [])]))
    elif k == "s":
        sv = x[1]
        setter(("s", rng.choice([sv + b"x", b"x" + sv, sv[:-1] if sv else b"y", sv.swapcase() if sv.swapcase() != sv else sv + b"A",
                                 sv + b" "])))
    elif k == "n":
        d = N.dbl_of(x[1])
        nd = d + 1 if abs(d) < 2**50 else d * 2
        setter(("n", d2b(nd)) if nd == nd and abs(nd) != float("inf") else ("z",))
    elif k == "a":
        r = rng.random()
        if x[1] and r < 0.35:
            setter(("a", x[1][:-1]))
        elif len(x[1]) >= 2 and r < 0.6:
            l2 = list(x[1]); l2[0], l2[-1] = l2[-1], l2[0]
            setter(("a", l2))
        elif r < 0.8:
            setter(("a", x[1] + [("z",)]))
        else:
            setter(("o", []))
    else:
        r = rng.random()
        if len(x[1]) >= 2 and r < 0.4:
            l2 = list(x[1]); rng.shuffle(l2)          # member order only: still equal
            setter(("o", l2))
        elif x[1] and r < 0.6:
            setter(("o", x[1][1:]))
        elif x[1] and r < 0.8:
            l2 = list(x[1]); l2[0] = (l2[0][0] + b"_", l2[0][1])
            setter(("o", l2))
        else:
            setter(("o", x[1] + [(b"zz_new", ("z",))]))
    return holder[0]


def nearmiss_case(rng):
    """two trees that differ in exactly one leaf / one key / one element (or only in member order), compared in both
    orders and under both case flags; the oracle decides with its own notion of JSON equality"""
    e = Emit()
    t = gen_tree(rng, rng.choice([0, 1, 2, 3]), width=3)
    u = _variant(rng, t)
    a, b = e.build(t), e.build(u)
    e.ops += [f"cmp {a} {b} 1", f"cmp {b} {a} 1", f"cmp {a} {b} 0", f"cmp {b} {a} 0", f"dup {a} c", f"cmp c {b} 1", f"cmp {b} c 0"]
    return e.case({"kind": "nearmiss"})


def long_bytes(rng):
    n = rng.choice([255, 256, 257, 300, 301, 511, 512, 600, 1000, 2000, rng.randint(250, 1500)])
    base = bytearray(rng.choice([b"a", b"ab", "é".encode(), b"x y", b"/"]) * n)[:n]
    for _ in range(rng.choice([0, 1, 1, 2, 3, 8])):
        pos = rng.choice([0, len(base) - 1, rng.randrange(len(base))])
        base[pos] = rng.choice([1, 7, 8, 9, 10, 12, 13, 0x1F, 0x22, 0x5C, 0x7F])
    return bytes(base)


def longstring_case(rng):
    """strings and keys of 250-2000 bytes with none / one / a few characters that need escaping (at the start, at the
    end, inside): both copy paths of print_string_ptr and the buffer growth inside one token"""
    e = Emit()
    r = rng.random()
    if r < 0.4:
        t = ("s", long_bytes(rng))
    elif r < 0.7:
        t = ("a", [("s", long_bytes(rng)), ("b", True), ("s", long_bytes(rng))])
    else:
        t = ("o", [(long_bytes(rng), ("s", long_bytes(rng))), (b"k", ("a", [("s", long_bytes(rng))]))])
    s = e.build(t)
    e.ops += [f"print {s} compact", f"reparse {s} compact r0", "dump r0", f"reparse {s} formatted r1", "dump r1", f"dup {s} d", f"cmp d {s} 1"]
    if rng.random() < 0.5:
        text = py_text(rng, t)
        e.hint_text(text)
        e.ops += [f"parse p {hx(text)}", "dump p", f"cmp p {s} 1"]
    return e.case({"kind": "longstring"})


def huge_array_case(rng):
    """an array with more than 32767 / 65535 elements: indices beyond the range of a short must still work"""
    n = rng.choice([33000, 66000])
    vals = [i % 10 for i in range(n)]
    text = b"[" + b",".join(b"%d" % v for v in vals) + b"]"
    e = Emit()
    e.ops += [f"parse p {hx(text)}", "arr_size p"]
    for i in (32767, 32768, n - 1, 65535 if n > 65536 else 40000 % n, 65536 if n > 65537 else 32769):
        e.ops += [f"arr_get p {i}"]
    e.ops += [f"arr_remove p {n - 2}", "arr_size p", f"arr_get p {n - 2}", "arr_remove p 32768", "arr_size p", f"arr_get p {n}", f"arr_remove p {n}"]
    return e.case({"kind": "huge", "n": n})


def dump_tree(t):
    """the harness's canonical dump format"""
    k = t[0]
    if k == "z":
        return "z"
    if k == "b":
        return "t" if t[1] else "f"
    if k == "n":
        return "n" + N.hex16(t[1])
    if k == "s":
        return "s" + hx(t[1])
    if k == "a":
        return "[" + ",".join(dump_tree(x) for x in t[1]) + "]"
    return "{" + ",".join(hx(key) + ":" + dump_tree(x) for key, x in t[1]) + "}"


def parse_dump(s):
    """inverse of dump_tree; raises ValueError on anything else"""
    pos = 0

    def hexrun():
        nonlocal pos
        if s[pos:pos + 1] == "-":
            pos += 1
            return b""
        j = pos
        while j < len(s) and s[j] in "0123456789abcdef":
            j += 1
        b = bytes.fromhex(s[pos:j])
        pos = j
        return b

    def val():
        nonlocal pos
        c = s[pos]
        pos += 1
        if c == "z":
            return ("z",)
        if c in "tf":
            return ("b", c == "t")
        if c == "n":
            b = int(s[pos:pos + 16], 16)
            pos += 16
            return ("n", b)
        if c == "s":
            return ("s", hexrun())
        if c == "[":
            xs = []
            if s[pos] == "]":
                pos += 1
                return ("a", xs)
            while True:
                xs.append(val())
                c2 = s[pos]
                pos += 1
                if c2 == "]":
                    return ("a", xs)
                if c2 != ",":
                    raise ValueError("bad dump")
        if c == "{":
            ms = []
            if s[pos] == "}":
                pos += 1
                return ("o", ms)
            while True:
                key = hexrun()
                if s[pos] != ":":
                    raise ValueError("bad dump")
                pos += 1
                ms.append((key, val()))
                c2 = s[pos]
                pos += 1
                if c2 == "}":
                    return ("o", ms)
                if c2 != ",":
                    raise ValueError("bad dump")
        raise ValueError("bad dump")
    try:
        v = val()
    except IndexError:
        raise ValueError("bad dump")
    if pos != len(s):
        raise ValueError("bad dump")
    return v
