"""C01 — byte buffers and cursors stay in bounds; failed operations change nothing."""
import os, re, itertools
from lib.core import Case, GenError, write_if_changed, LEAN
from lib import cbuild

ID = "C01"
LEAN_MODULES = ["AwsVerif.Props.C01"]
COMPONENT = "bytebuf"
HARNESS = dict(name="bytebuf", flavour="asan", ldflags=("-Wl,--wrap=fread", "-Wl,--wrap=feof"))   # file.c reads a simulated file
P_DIFF_CONCRETE = True
TIMEOUT = 600
# memset(NULL, c, 0) in aws_byte_buf_write_u8_n on a zero-capacity buffer: recoverable UBSan nonnull report, see the file
C_ENV = {"UBSAN_OPTIONS": "print_stacktrace=1:suppressions=" + os.path.join(cbuild.VERIF, "harness", "bytebuf.ubsan.supp")}

MAX = (1 << 64) - 1
HALF = MAX // 2

TRUSTED = ["hand model lean/AwsVerif/Model/ByteBuf.lean (tied to byte_buf.c by this correspondence run only)",
           "gen/bytebuf_tables.py (s_tolower_table / s_hex_to_num_table re-read from byte_buf.c on every run)",
           "gen/bytebuf_fns.py + gen/cfun.py + gen/math_gen.py (aws_nospec_mask, aws_is*, six guard expressions, aws_byte_buf_is_valid / aws_byte_cursor_is_valid, checked arithmetic "
           "re-translated from the C source on every run; the empty asm barrier of aws_nospec_mask is dropped)",
           "harness: fread/feof of file.c wrapped at link time to serve a simulated file (size, data, short-read schedule)",
           "harness/bytebuf.c: numbering allocator, 0xCD fill for never-written bytes, canary-guarded pool"]
ASSUMPTIONS = ["aws_mem_acquire returns a fresh block or aborts (allocation-failure branches not modelled)",
               "the allocator's mem_realloc moves the block: fresh block, copy of the old capacity, release of the old one",
               "memcpy/memset/memchr/memcmp have their ISO meaning; the caller does not pass overlapping memcpy ranges, "
               "released cursors or unrelated pointers (both sides skip such ops)",
               "that the optimiser keeps aws_secure_zero's memset is observed at run time only (release-time zero check)"]
RULE = ("op files over 4 buffers (heap via numbering allocator, canary-guarded static array, zero-capacity, borrowed) and 4 cursors "
        "(external arrays, views into buffers incl. self-append, NULL/0); operand sizes biased to 0,1,free-1,free,free+1,cap,2cap; "
        "separate forged-header stream (len/cap/n in HALF,HALF+1,MAX-1,MAX over a 16-byte block) for guards that must fail before "
        "touching memory; exhaustive op pairs on <=3-byte buffers; non-trivial = at least one growth or failed op and >= 6 ops")
NOT_PROVED = []   # filled from the Lean sources below (every `def …_statement : Prop`)


# ------------------------------------------------------------------ generated Lean
def regen(ctx):
    from gen import bytebuf_tables
    try:
        txt = bytebuf_tables.generate(cbuild.REPO)
    except bytebuf_tables.TableError as e:
        raise GenError(str(e))
    except OSError as e:
        raise GenError("cannot read byte_buf.c: %s" % e)
    write_if_changed(os.path.join(LEAN, "AwsVerif", "Gen", "ByteBufTables.lean"), txt)
    # pure leaf functions and guard expressions of byte_buf.c, and the checked arithmetic of math*.inl, re-translated
    # from the current source (gen/cfun.py); Props/C01.lean proves Model.f = Gen.f for each of them
    from gen import bytebuf_fns, math_gen, cfun
    try:
        fns, _ = bytebuf_fns.generate(cbuild.REPO, cbuild.config_include())
        lean_math, _, _ = math_gen.generate(cbuild.REPO, cbuild.config_include())
    except cfun.GenError as e:
        raise GenError(str(e))
    write_if_changed(os.path.join(LEAN, "AwsVerif", "Gen", "ByteBufFns.lean"), fns)
    write_if_changed(os.path.join(LEAN, "AwsVerif", "Gen", "Math.lean"), lean_math)


def _not_proved():
    out = []
    for root in [os.path.join(LEAN, "AwsVerif", "Props", "C01.lean")]:
        if os.path.exists(root):
            for m in re.finditer(r"^def\s+(\w+)_statement\b", open(root).read(), re.M):
                out.append(m.group(1))
    return out


NOT_PROVED = _not_proved()

# ------------------------------------------------------------------ generator
ALPHA = b"abcxyzABCXYZ019 ,,\t\n=:/-_fF\x00\xcd\xff\x80"
PREDS = ["isspace", "isalnum", "isalpha", "isdigit", "isxdigit"]
SEPS = ["2c", "20", "00", "61", "3d"]


def hexs(bs):
    return bs.hex() if bs else "-"


def rbytes(rng, n, style=None):
    style = style or rng.choice(["alpha", "alpha", "digits", "hexdigits", "spaces", "csv", "any"])
    if style == "digits":
        return bytes(rng.choice(b"0123456789") for _ in range(n))
    if style == "hexdigits":
        return bytes(rng.choice(b"0123456789abcdefABCDEF") for _ in range(n))
    if style == "spaces":
        return bytes(rng.choice(b"  \t\n\x0b\x0c\rab1") for _ in range(n))
    if style == "csv":
        return bytes(rng.choice(b"ab,,c") for _ in range(n))
    if style == "any":
        return bytes(rng.randrange(256) for _ in range(n))
    return bytes(rng.choice(ALPHA) for _ in range(n))


class Mirror:
    """approximate python-side picture of lens/caps, used only to bias operand sizes"""

    def __init__(self):
        self.b = [None] * 4   # dict(len, cap, own)
        self.c = [None] * 4   # dict(len, base) base: 'ext' | buffer index | None

    def free(self, i):
        b = self.b[i]
        return 0 if not b else b["cap"] - b["len"]

    def grow(self, i, n):
        b = self.b[i]
        if not b or not b["own"]:
            return False
        if b["cap"] - b["len"] < n:
            req = b["cap"] + (n - (b["cap"] - b["len"]))
            b["cap"] = max(req, 2 * b["cap"])
            for c in self.c:
                if c and c["base"] == i:
                    c["base"] = "stale"
        b["len"] += n
        return True


def size_near(rng, m, i):
    b = m.b[i]
    cap = b["cap"] if b else 0
    fr = m.free(i)
    cands = [0, 1, fr - 1, fr, fr + 1, cap, 2 * cap, fr // 2, 2, 3]
    v = rng.choice(cands) if rng.random() < 0.8 else rng.randint(0, 2 * cap + 4)
    return max(0, min(v, 300))


def gen_setup(rng, m, ops):
    kinds = ["heap", "static", "zero", "borrowed"]
    rng.shuffle(kinds)
    for i in range(4):
        k = kinds[i] if rng.random() < 0.8 else rng.choice(kinds)
        if rng.random() < 0.12:
            continue
        mk_buf(rng, m, ops, i, k)
    for j in range(4):
        if rng.random() < 0.85:
            mk_cur(rng, m, ops, j)


def mk_buf(rng, m, ops, i, k=None):
    k = k or rng.choice(["heap", "heap", "static", "zero", "borrowed"])
    cap = rng.choice([1, 2, 3, 4, 5, 7, 8, 13, 16, 31, 32, 64])
    if k == "heap":
        ops.append(f"init b{i} {cap}")
        m.b[i] = dict(len=0, cap=cap, own=True)
    elif k == "static":
        ops.append(f"buf_from_empty_array b{i} {cap}")
        m.b[i] = dict(len=0, cap=cap, own=False)
    elif k == "zero":
        if rng.random() < 0.7:
            ops.append(f"init b{i} 0")
            m.b[i] = dict(len=0, cap=0, own=True)
        else:
            ops.append(f"buf_from_empty_array b{i} 0")
            m.b[i] = dict(len=0, cap=0, own=False)
    else:
        n = rng.choice([0, 1, 2, 3, 5, 8, 16])
        ops.append(f"buf_from_array b{i} {hexs(rbytes(rng, n))}")
        m.b[i] = dict(len=n, cap=n, own=False)


def mk_cur(rng, m, ops, j, target=None):
    r = rng.random()
    live = [i for i in range(4) if m.b[i] and m.b[i]["len"] > 0]
    if r < 0.08:
        ops.append(f"cur_null c{j}")
        m.c[j] = dict(len=0, base=None)
    elif r < 0.3 and live:
        i = rng.choice(live)
        L = m.b[i]["len"]
        if rng.random() < 0.4:
            ops.append(f"cur_from_buf c{j} b{i}")
            m.c[j] = dict(len=L, base=i)
        else:
            off = rng.randint(0, L)
            ln = rng.choice([0, 1, L - off, max(0, L - off - 1), rng.randint(0, L - off)])
            ln = max(0, min(ln, L - off))
            ops.append(f"cur_into c{j} b{i} {off} {ln}")
            m.c[j] = dict(len=ln, base=i)
    else:
        t = target if target is not None else rng.randrange(4)
        n = size_near(rng, m, t)
        ops.append(f"cur_bytes c{j} {hexs(rbytes(rng, n))}")
        m.c[j] = dict(len=n, base="ext")


WEIGHTS = [
    ("append", 10), ("append_dynamic", 12), ("append_dynamic_secure", 8), ("append_with_lookup", 4),
    ("append_byte_dynamic", 3), ("append_byte_dynamic_secure", 3), ("append_and_update", 4), ("append_null_terminator", 2),
    ("cat", 3), ("reserve", 3), ("reserve_relative", 3), ("reserve_smart", 2), ("reserve_smart_relative", 2),
    ("buf_advance", 3), ("write", 5), ("write_from_whole_cursor", 3), ("write_from_whole_buffer", 2), ("write_to_capacity", 3),
    ("write_u8", 2), ("write_u8_n", 3), ("write_be", 4), ("reset", 2), ("secure_zero", 1), ("clean_up", 2),
    ("clean_up_secure", 2), ("init_copy", 2), ("init_copy_from_cursor", 2), ("new_buf", 2), ("new_cur", 8),
    ("advance", 6), ("advance_nospec", 4), ("read", 3), ("read_be", 6), ("read_hex_u8", 2), ("read_and_fill_buffer", 2),
    ("next_split", 5), ("split", 3), ("find_exact", 3), ("trim", 3), ("starts_with", 2), ("eq", 4), ("compare", 3), ("parse", 3),
    ("init_from_file", 4), ("float", 3), ("c_str", 2), ("string", 3), ("hash", 1), ("valid", 1), ("init_cache", 2), ("array_eq", 2),
]
DYN_OPS = {"append_dynamic", "append_dynamic_secure", "append_byte_dynamic", "append_byte_dynamic_secure", "append_null_terminator",
           "reserve", "reserve_relative", "reserve_smart", "reserve_smart_relative"}
FIXED_OPS = {"append", "append_with_lookup", "append_and_update", "write", "write_from_whole_cursor", "write_to_capacity", "write_u8",
             "write_u8_n", "write_be", "buf_advance", "cat", "read_and_fill_buffer"}
_W_NAMES = [w[0] for w in WEIGHTS]
_W_VALS = [w[1] for w in WEIGHTS]


def gen_op(rng, m, ops):
    k = rng.choices(_W_NAMES, _W_VALS)[0]
    b = rng.randrange(4)
    c = rng.randrange(4)
    if k in DYN_OPS and rng.random() < 0.85:
        owned = [i for i in range(4) if m.b[i] and m.b[i]["own"]]
        if owned:
            b = rng.choice(owned)
    elif k in FIXED_OPS and rng.random() < 0.7:
        have = [i for i in range(4) if m.b[i] and m.b[i]["cap"] > 0]
        if have:
            b = rng.choice(have)
    mb = m.b[b]
    if k in ("append", "append_with_lookup", "append_and_update", "write_from_whole_cursor", "write_to_capacity"):
        if rng.random() < 0.5:
            mk_cur(rng, m, ops, c, b)
        ops.append(f"{k} b{b} c{c}")
        mc = m.c[c]
        if mb and mc and mc["len"] <= m.free(b):
            mb["len"] += mc["len"]
            if k == "write_to_capacity":
                mc["len"] = 0
        elif mb and mc and k == "write_to_capacity":
            mc["len"] -= m.free(b)
            mb["len"] = mb["cap"]
    elif k in ("append_dynamic", "append_dynamic_secure"):
        if rng.random() < 0.5:
            mk_cur(rng, m, ops, c, b)
        ops.append(f"{k} b{b} c{c}")
        if m.c[c]:
            m.grow(b, m.c[c]["len"])
    elif k in ("append_byte_dynamic", "append_byte_dynamic_secure"):
        ops.append(f"{k} b{b} {rbytes(rng, 1).hex()}")
        m.grow(b, 1)
    elif k == "append_null_terminator":
        ops.append(f"{k} b{b}")
        m.grow(b, 1)
    elif k == "cat":
        srcs = [rng.randrange(4) for _ in range(rng.randint(1, 3))]
        ops.append(f"cat b{b} " + " ".join(f"b{s}" for s in srcs))
        for s in srcs:
            if mb and m.b[s] and m.b[s]["len"] <= m.free(b):
                mb["len"] += m.b[s]["len"]
            else:
                break
    elif k in ("reserve", "reserve_smart"):
        cap = mb["cap"] if mb else 0
        n = rng.choice([0, 1, cap - 1, cap, cap + 1, 2 * cap, 2 * cap + 1, rng.randint(0, 80)])
        n = max(0, n)
        ops.append(f"{k} b{b} {n}")
        if mb and mb["own"] and n > cap:
            mb["cap"] = n if k == "reserve" else max(n, 2 * cap)
    elif k in ("reserve_relative", "reserve_smart_relative"):
        fr = m.free(b)
        n = rng.choice([0, 1, fr - 1, fr, fr + 1, 2 * fr + 1, rng.randint(0, 40)])
        n = max(0, n)
        if rng.random() < 0.06:
            n = rng.choice(["MAX", "MAX-1", "HALF+1", f"MAX-{max(0, (mb['len'] if mb else 0) - 1)}"])   # overflow, or skipped as huge
        ops.append(f"{k} b{b} {n}")
        if mb and mb["own"] and isinstance(n, int) and mb["len"] + n > mb["cap"]:
            req = mb["len"] + n
            mb["cap"] = req if k == "reserve_relative" else max(req, 2 * mb["cap"])
    elif k == "buf_advance":
        n = size_near(rng, m, b)
        if rng.random() < 0.05:
            n = rng.choice(["MAX", "HALF+1", "HALF"])
        ops.append(f"buf_advance b{b} {n}")
        if mb and isinstance(n, int) and n <= m.free(b):
            mb["len"] += n
    elif k == "write":
        n = size_near(rng, m, b)
        data = rbytes(rng, n)
        cnt = n
        r = rng.random()
        if r < 0.06:
            cnt = rng.choice(["MAX", "HALF+1", "MAX-1"])      # guard must fail before src is read
        elif r < 0.15 and n > 0:
            cnt = rng.randint(0, n)
        ops.append(f"write b{b} {hexs(data)} {cnt}")
        if mb and isinstance(cnt, int) and cnt <= m.free(b):
            mb["len"] += cnt
    elif k == "write_from_whole_buffer":
        s = rng.randrange(4)
        ops.append(f"write_from_whole_buffer b{b} b{s}")
        if mb and m.b[s] and m.b[s]["len"] <= m.free(b):
            mb["len"] += m.b[s]["len"]
    elif k == "write_u8":
        ops.append(f"write_u8 b{b} {rbytes(rng, 1).hex()}")
        if mb and m.free(b) >= 1:
            mb["len"] += 1
    elif k == "write_u8_n":
        n = size_near(rng, m, b)
        if rng.random() < 0.06:
            n = rng.choice(["MAX", "HALF+1", "HALF", "MAX-1"])
        ops.append(f"write_u8_n b{b} {rbytes(rng, 1).hex()} {n}")
        if mb and isinstance(n, int) and n <= m.free(b):
            mb["len"] += n
    elif k == "write_be":
        w = rng.choice([16, 24, 32, 64])
        v = rng.choice([0, 1, 0xFFFFFF, 0x1000000, 0xAABBCC, (1 << w) - 1, rng.getrandbits(w), rng.getrandbits(32)])
        ops.append(f"write_be{w} b{b} 0x{v:x}")
        if mb and m.free(b) >= w // 8 and not (w == 24 and (v & 0xFFFFFFFF) > 0xFFFFFF):
            mb["len"] += w // 8
    elif k == "reset":
        ops.append(f"reset b{b} {rng.randint(0, 1)}")
        if mb:
            mb["len"] = 0
    elif k == "secure_zero":
        ops.append(f"secure_zero b{b}")
        if mb:
            mb["len"] = 0
    elif k in ("clean_up", "clean_up_secure"):
        ops.append(f"{k} b{b}")
        m.b[b] = None
        for cc in m.c:
            if cc and cc["base"] == b:
                cc["base"] = "stale"
    elif k == "init_copy":
        free = [i for i in range(4) if not m.b[i] or m.b[i]["cap"] == 0]
        if free:
            d = rng.choice(free)
            s = rng.randrange(4)
            ops.append(f"init_copy b{d} b{s}")
            if m.b[s] and d != s:
                m.b[d] = dict(len=m.b[s]["len"], cap=m.b[s]["cap"], own=True)
    elif k == "init_copy_from_cursor":
        free = [i for i in range(4) if not m.b[i] or m.b[i]["cap"] == 0]
        if free:
            d = rng.choice(free)
            ops.append(f"init_copy_from_cursor b{d} c{c}")
            if m.c[c]:
                m.b[d] = dict(len=m.c[c]["len"], cap=m.c[c]["len"], own=True)
    elif k == "new_buf":
        free = [i for i in range(4) if not m.b[i] or m.b[i]["cap"] == 0]
        if free:
            mk_buf(rng, m, ops, rng.choice(free))
    elif k == "new_cur":
        mk_cur(rng, m, ops, c)
    elif k in ("advance", "advance_nospec", "read"):
        L = m.c[c]["len"] if m.c[c] else 0
        n = rng.choice([0, 1, L - 1, L, L + 1, L // 2, 2 * L + 1])
        n = max(0, n)
        if rng.random() < 0.06:
            n = rng.choice(["MAX", "HALF+1", "HALF", "MAX-1"])
        ops.append(f"{k} c{c} {n}")
        if m.c[c] and isinstance(n, int) and n <= L:
            m.c[c]["len"] -= n
    elif k == "read_be":
        w = rng.choice(["u8", "be16", "be24", "be32", "be64"])
        ops.append(f"read_{w} c{c}")
        n = {"u8": 1, "be16": 2, "be24": 3, "be32": 4, "be64": 8}[w]
        if m.c[c] and m.c[c]["len"] >= n:
            m.c[c]["len"] -= n
    elif k == "read_hex_u8":
        if rng.random() < 0.5:
            ops.append(f"cur_bytes c{c} {hexs(rbytes(rng, rng.choice([0, 1, 2, 3, 4]), 'hexdigits' if rng.random() < 0.8 else 'alpha'))}")
            m.c[c] = dict(len=0, base="ext")
        ops.append(f"read_hex_u8 c{c}")
    elif k == "read_and_fill_buffer":
        if rng.random() < 0.5:
            mk_cur(rng, m, ops, c, b)
        ops.append(f"read_and_fill_buffer c{c} b{b}")
        if mb and m.c[c] and m.c[c]["len"] >= mb["cap"]:
            m.c[c]["len"] -= mb["cap"]
            mb["len"] = mb["cap"]
    elif k == "next_split":
        s = (c + 1 + rng.randrange(3)) % 4
        if rng.random() < 0.6:
            ops.append(f"cur_bytes c{c} {hexs(rbytes(rng, rng.choice([0, 1, 2, 3, 5, 8]), 'csv'))}")
            m.c[c] = dict(len=0, base="ext")
            ops.append(f"cur_null c{s}")
            m.c[s] = dict(len=0, base=None)
        sep = "2c" if rng.random() < 0.7 else rng.choice(SEPS)
        for _ in range(rng.randint(1, 6)):
            ops.append(f"next_split c{c} {sep} c{s}")
    elif k == "split":
        if rng.random() < 0.6:
            ops.append(f"cur_bytes c{c} {hexs(rbytes(rng, rng.choice([0, 1, 2, 3, 5, 8, 12]), 'csv'))}")
            m.c[c] = dict(len=0, base="ext")
        sep = "2c" if rng.random() < 0.7 else rng.choice(SEPS)
        kk = rng.choice([1, 2, 3, 4, 8, 16])
        if rng.random() < 0.5:
            ops.append(f"split_on_char c{c} {sep} {kk}")
        else:
            ops.append(f"split_on_char_n c{c} {sep} {rng.choice([0, 1, 2, 3, 5])} {kk}")
    elif k == "find_exact":
        f = (c + 1 + rng.randrange(3)) % 4
        o = rng.randrange(4)
        if rng.random() < 0.6:
            hay = rbytes(rng, rng.choice([0, 1, 3, 6, 10]), "csv")
            ops.append(f"cur_bytes c{c} {hexs(hay)}")
            m.c[c] = dict(len=len(hay), base="ext")
            if hay and rng.random() < 0.7:
                a = rng.randrange(len(hay))
                nd = hay[a:a + rng.randint(1, 3)]
            else:
                nd = rbytes(rng, rng.choice([0, 1, 2]), "csv")
            ops.append(f"cur_bytes c{f} {hexs(nd)}")
            m.c[f] = dict(len=len(nd), base="ext")
        ops.append(f"find_exact c{c} c{f} c{o}")
    elif k == "trim":
        if rng.random() < 0.6:
            ops.append(f"cur_bytes c{c} {hexs(rbytes(rng, rng.choice([0, 1, 2, 4, 7]), rng.choice(['spaces', 'digits', 'alpha'])))}")
            m.c[c] = dict(len=0, base="ext")
        ops.append(f"{rng.choice(['left_trim', 'right_trim', 'trim', 'satisfies'])} c{c} {rng.choice(PREDS)}")
    elif k == "starts_with":
        p = rng.randrange(4)
        ops.append(f"{rng.choice(['starts_with', 'starts_with_ignore_case'])} c{c} c{p}")
    elif k == "eq":
        r = rng.random()
        d = rng.randrange(4)
        ic = rng.choice(["", "_ignore_case"])
        if r < 0.3:
            ops.append(f"cur_eq{ic} c{c} c{d}")
        elif r < 0.5:
            ops.append(f"cur_eq_buf{ic} c{c} b{b}")
        elif r < 0.7:
            ops.append(f"buf_eq{ic} b{b} b{d}")
        elif r < 0.85:
            ops.append(f"cur_eq_c_str{ic} c{c} {hexs(rbytes(rng, rng.choice([0, 1, 2, 3, 5])))}")
        else:
            ops.append(f"buf_eq_c_str{ic} b{b} {hexs(rbytes(rng, rng.choice([0, 1, 2, 3, 5])))}")
    elif k == "compare":
        d = rng.randrange(4)
        ops.append(f"{rng.choice(['compare_lexical', 'compare_lookup'])} c{c} c{d}")
    elif k == "init_from_file":
        free = [i for i in range(4) if not m.b[i] or m.b[i]["cap"] == 0]
        if free:
            d = rng.choice(free)
            ops.append(gen_file_op(rng, d))
            m.b[d] = None      # result depends on the schedule: unknown to the mirror
    elif k == "float":
        if rng.random() < 0.6:
            w = rng.choice([32, 64])
            v = rng.choice([0, 1 << (w - 1), 0x3f800000 if w == 32 else 0x3ff0000000000000, (0x7fc00001 if w == 32 else 0x7ff8000000000001),
                            (0x7f800000 if w == 32 else 0x7ff0000000000000), rng.getrandbits(w)])
            ops.append(f"write_float_be{w} b{b} 0x{v:x}")
            if mb and m.free(b) >= w // 8:
                mb["len"] += w // 8
        else:
            ops.append(f"read_float_be{rng.choice([32, 64])} c{c}")
    elif k == "c_str":
        bs = rbytes(rng, rng.choice([0, 1, 3, 6]))
        if rng.random() < 0.5:
            ops.append(f"cur_from_c_str c{c} {hexs(bs)}")
            m.c[c] = dict(len=len(bs.split(b'\0')[0]), base="ext")
        else:
            free = [i for i in range(4) if not m.b[i] or m.b[i]["cap"] == 0]
            if free:
                d = rng.choice(free)
                ops.append(f"buf_from_c_str b{d} {hexs(bs)}")
                n = len(bs.split(b'\0')[0])
                m.b[d] = dict(len=n, cap=n, own=False)
    elif k == "string":
        bs = rbytes(rng, rng.choice([0, 1, 2, 4, 7]))
        r = rng.random()
        if r < 0.35:
            ops.append(f"cur_from_string c{c} {hexs(bs)}")
            m.c[c] = dict(len=len(bs), base="ext")
        elif r < 0.6:
            n = size_near(rng, m, b)
            bs = rbytes(rng, n)
            ops.append(f"write_from_whole_string b{b} {hexs(bs)}")
            if mb and n <= m.free(b):
                mb["len"] += n
        elif r < 0.8:
            ops.append(f"string_eq_cursor{rng.choice(['', '_ignore_case'])} {hexs(bs)} c{c}")
        else:
            ops.append(f"string_eq_buf{rng.choice(['', '_ignore_case'])} {hexs(bs)} b{b}")
    elif k == "hash":
        ops.append(f"hash_ignore_case c{c}")
    elif k == "valid":
        ops.append(rng.choice([f"buf_is_valid b{b}", f"cur_is_valid c{c}"]))
    elif k == "init_cache":
        free = [i for i in range(4) if not m.b[i] or m.b[i]["cap"] == 0]
        if free:
            d = rng.choice(free)
            cs = [rng.randrange(4) for _ in range(rng.randint(1, 3))]
            ops.append(f"init_cache b{d} " + " ".join(f"c{x}" for x in cs))
            tot = sum(m.c[x]["len"] if m.c[x] else 0 for x in cs)
            m.b[d] = dict(len=tot, cap=tot, own=True)
            for x in cs:
                if m.c[x]:
                    m.c[x]["base"] = d
    elif k == "array_eq":
        d = rng.randrange(4)
        if rng.random() < 0.5:
            ops.append(f"array_eq{rng.choice(['', '_ignore_case'])} c{c} c{d}")
        else:
            ops.append(f"array_eq_c_str{rng.choice(['', '_ignore_case'])} c{c} {hexs(rbytes(rng, rng.choice([0, 1, 2, 3, 5])))}")
    elif k == "parse":
        if rng.random() < 0.7:
            s = rng.choice([b"", b"0", b"18446744073709551615", b"18446744073709551616", b"ffffffffffffffff", b"10000000000000000",
                            b"12a", b"-1", b" 1", b"00042", rbytes(rng, rng.randint(1, 21), "digits"), rbytes(rng, rng.randint(1, 17), "hexdigits")])
            ops.append(f"cur_bytes c{c} {hexs(s)}")
            m.c[c] = dict(len=len(s), base="ext")
        ops.append(f"{rng.choice(['parse_u64', 'parse_u64_hex'])} c{c}")


def gen_file_op(rng, d):
    """aws_byte_buf_init_from_file[_with_size_hint] against a simulated file: reported size, delivered bytes, short reads"""
    n = rng.choice([0, 1, 2, 5, 31, 32, 33, 63, 64, 65, 100, 200])
    data = rbytes(rng, n)
    r = rng.random()
    statlen = n if r < 0.6 else rng.choice([0, max(0, n - 1), n + 1, 2 * n + 3, n // 2])   # the file changed after fstat
    if rng.random() < 0.08:
        return f"init_from_file b{d} 0 0 - - hint 0"                      # fopen fails
    if rng.random() < 0.01:
        # a file well beyond MAX_BUFFER_GROWTH_READING_FILES read without a usable hint: the growth step must stay capped
        big = rbytes(rng, rng.choice([8193, 9000, 12289]), "alpha")
        return f"init_from_file b{d} 1 0 {hexs(big)} - nohint {rng.choice([0, 1, 33])}"
    if rng.random() < 0.55:
        sched = "-"
    else:
        caps = [rng.choice([0, 1, 1, 2, 7, 31, 32, 33, 1000]) for _ in range(rng.randint(1, 6))]
        if rng.random() < 0.7:
            caps = [c for c in caps if c > 0] or [1]                        # short reads only, no error
        sched = ",".join(str(c) for c in caps)
    if rng.random() < 0.6:
        return f"init_from_file b{d} 1 {statlen} {hexs(data)} {sched} hint 0"
    return f"init_from_file b{d} 1 {statlen} {hexs(data)} {sched} nohint {rng.choice([0, 1, n, n + 1, max(0, n - 1), 7, 64])}"


def gen_random_case(rng, maxops):
    m = Mirror()
    ops = []
    gen_setup(rng, m, ops)
    for _ in range(rng.randint(3, maxops)):
        gen_op(rng, m, ops)
    ops.append("dump")
    return Case(ops, {"stream": "random"})


def gen_selfappend_case(rng):
    """a buffer appended to itself through a cursor into its own storage, across growth"""
    cap = rng.choice([2, 3, 4, 8, 16])
    n = rng.randint(1, cap)
    ops = [f"init b0 {cap}", f"cur_bytes c0 {hexs(rbytes(rng, n))}", "append b0 c0"]
    for _ in range(rng.randint(1, 5)):
        r = rng.random()
        if r < 0.5:
            ops.append("cur_from_buf c1 b0")
        else:
            off = rng.randint(0, n)
            ops.append(f"cur_into c1 b0 {off} {rng.randint(0, n - off)}")
        ops.append(rng.choice(["append_dynamic b0 c1", "append_dynamic_secure b0 c1", "append b0 c1", "cat b0 b0", "cat b0 b0 b0",
                               "write_from_whole_buffer b0 b0", "append_and_update b0 c1"]))
        ops.append("advance c1 1")   # stale after growth: both sides skip
    ops.append("clean_up_secure b0")
    ops.append("dump")
    return Case(ops, {"stream": "selfappend"})


def gen_subview_case(rng):
    """Views whose surroundings would change the answer: the cursor under test is a sub-view of a larger array (or of a
    buffer), and the bytes right before / behind it are chosen so that an implementation that looks outside the view
    gives a different, property-observable result (a match completed behind the view, a longer number, a separator that
    is not there, …).  The same inputs are also run on an exact-size copy (ASan red zone right behind the view)."""
    ops = []
    kind = rng.choice(["find", "find", "find", "starts", "eq", "eq", "casecmp", "casecmp", "split", "trim", "read", "compare", "parse", "misc", "zero", "sep"])
    pre = rbytes(rng, rng.choice([0, 1, 3]), "csv")
    view = post = b""
    follow = []
    if kind == "find":
        nl = rng.randint(2, 5)
        needle = bytes(rng.choice(b"abcdef") for _ in range(nl))
        k = rng.randint(1, nl - 1)                       # needle bytes still inside the view
        body = bytes(rng.choice(b"xyz,") for _ in range(rng.choice([0, 1, 4, 9])))
        if rng.random() < 0.25:
            body += needle                               # a complete earlier occurrence: the first one must be reported
        view = body + needle[:k]
        post = needle[k:] + rbytes(rng, rng.choice([0, 2]), "csv")
        if len(view) < nl:
            view = bytes(rng.choice(b"xyz") for _ in range(nl - len(view))) + view
        follow = [f"cur_bytes c2 {hexs(needle)}", "find_exact c1 c2 c3",
                  f"cur_bytes c2 {hexs(needle[:k])}", "find_exact c1 c2 c3", f"cur_bytes c2 {hexs(needle[:1])}", "find_exact c1 c2 c3"]
    elif kind == "starts":
        view = rbytes(rng, rng.choice([0, 1, 2, 4]), "alpha")
        post = rbytes(rng, rng.choice([1, 2]), "alpha")
        ic = rng.choice(["", "_ignore_case"])
        follow = [f"cur_bytes c2 {hexs(view + post[:1])}", f"starts_with{ic} c1 c2", f"cur_bytes c2 {hexs(view.swapcase())}", f"starts_with{ic} c1 c2",
                  f"cur_bytes c2 {hexs(view)}", f"starts_with{ic} c1 c2", f"starts_with{ic} c2 c1"]
    elif kind == "eq":
        view = rbytes(rng, rng.choice([0, 1, 2, 4]), "alpha")
        post = rbytes(rng, rng.choice([1, 2]), "alpha").replace(b"\0", b"q")
        ic = rng.choice(["", "_ignore_case"])
        longer = view + post[:1]
        follow = [f"cur_bytes c2 {hexs(longer)}", f"cur_eq{ic} c1 c2", f"array_eq{ic} c1 c2", f"cur_eq_c_str{ic} c1 {hexs(longer)}",
                  f"array_eq_c_str{ic} c1 {hexs(view)}", f"string_eq_cursor{ic} {hexs(longer)} c1", f"string_eq_cursor{ic} {hexs(view)} c1",
                  f"cur_bytes c2 {hexs(view)}", f"cur_eq{ic} c1 c2", "init b1 8", f"write b1 {hexs(longer[:8])} {len(longer[:8])}", f"cur_eq_buf{ic} c1 b1"]
    elif kind == "casecmp":
        # comparands that differ from the view only in letter case / are identical: separates every _ignore_case entry
        # point from its case-sensitive sibling, for cursors, buffers, C strings and aws_strings
        view = bytes(rng.choice(b"abXYz19,") for _ in range(rng.choice([1, 2, 4])))
        if not any(65 <= x <= 90 or 97 <= x <= 122 for x in view):
            view += b"q"
        post = rbytes(rng, 1, "alpha")
        sw = view.swapcase()
        follow = ["init b1 8", f"write b1 {hexs(view)} {len(view)}", "init b2 8", f"write b2 {hexs(sw)} {len(sw)}",
                  f"cur_bytes c2 {hexs(sw)}"]
        for ic in ("", "_ignore_case"):
            follow += [f"cur_eq{ic} c1 c2", f"array_eq{ic} c1 c2", f"cur_eq_c_str{ic} c1 {hexs(sw)}", f"cur_eq_c_str{ic} c1 {hexs(view)}",
                       f"array_eq_c_str{ic} c1 {hexs(sw)}", f"cur_eq_buf{ic} c1 b2", f"cur_eq_buf{ic} c1 b1", f"buf_eq{ic} b1 b2", f"buf_eq{ic} b2 b1",
                       f"buf_eq_c_str{ic} b1 {hexs(sw)}", f"buf_eq_c_str{ic} b1 {hexs(view)}", f"string_eq_cursor{ic} {hexs(sw)} c1",
                       f"string_eq_buf{ic} {hexs(sw)} b1", f"string_eq_buf{ic} {hexs(view)} b1", f"starts_with{ic} c1 c2"]
        follow += ["compare_lookup c1 c2", "compare_lexical c1 c2", "hash_ignore_case c1", "hash_ignore_case c2"]
    elif kind == "zero":
        n = rng.choice([0, 1, 7, 8, 9, 15, 16, 17, 23])
        view = bytes(n)
        if n and rng.random() < 0.6:
            k = rng.choice([0, n - 1, n // 2, max(0, n - 2), (n // 8) * 8 - 1 if n >= 8 else 0])
            view = view[:k] + b"\x01" + view[k + 1:]
        pre, post = rng.choice([b"", b"\x01", b"\x00"]), rng.choice([b"\x01", b"\x00\x01"])
        follow = ["is_zeroed c1", "string_from_cursor c1", "init b1 24", f"write b1 {hexs(view)} {len(view)}", "string_from_buf b1",
                  "clean_up b1", "init b1 24", f"write b1 {hexs(view)} {len(view)}", f"reserve b1 {rng.choice([25, 31, 32])}", "clean_up_secure b1"]
    elif kind == "sep":
        view = bytes(rng.choice(b"ab/\\/\\.") for _ in range(rng.choice([0, 1, 3, 6])))
        post = rng.choice([b"/", b"\\", b"\\/"])
        cap = len(view) + len(post)
        # the bytes behind len (inside the capacity) are separators too: they must stay as they are
        follow = [f"init b1 {cap}", f"write b1 {hexs(view + post)} {cap}", "reset b1 0", f"write b1 {hexs(view)} {len(view)}",
                  "normalize_dir_sep b1", f"buf_advance b1 {len(post)}", "string_from_buf b1", "cur_from_buf c2 b1", "string_from_cursor c2",
                  f"buf_from_array b2 {hexs(view + post)}", "normalize_dir_sep b2", "init b3 0", "normalize_dir_sep b3"]
    elif kind == "split":
        view = rbytes(rng, rng.choice([0, 1, 3, 6]), "csv")
        post = rng.choice([b",", b",x", b"x,", b",,"])
        pre = rng.choice([b"", b",", b"a,"])
        follow = ["cur_null c3"] + ["next_split c1 2c c3"] * 5 + ["split_on_char c1 2c 8", f"split_on_char_n c1 2c {rng.randint(1, 3)} 8"]
    elif kind == "trim":
        pr = rng.choice(["isspace", "isdigit", "isalpha", "isalnum", "isxdigit"])
        fill = {"isspace": b" \t", "isdigit": b"0123", "isalpha": b"abXY", "isalnum": b"a1Z9", "isxdigit": b"09afAF"}[pr]
        other = {"isspace": b"x", "isdigit": b"x", "isalpha": b"1", "isalnum": b" ", "isxdigit": b"g"}[pr]
        edge = bytes(rng.choice(fill) for _ in range(rng.choice([0, 1, 2])))
        view = edge + bytes(rng.choice(other + fill) for _ in range(rng.choice([0, 1, 3]))) + (other if rng.random() < 0.6 else b"") + edge
        pre = bytes(rng.choice(fill) for _ in range(rng.choice([1, 2])))
        post = bytes(rng.choice(fill) for _ in range(rng.choice([1, 2])))
        follow = [f"left_trim c1 {pr}", f"right_trim c1 {pr}", f"trim c1 {pr}", f"satisfies c1 {pr}"]
    elif kind == "read":
        w, opn = rng.choice([(1, "read_u8"), (2, "read_be16"), (3, "read_be24"), (4, "read_be32"), (8, "read_be64"), (4, "read_float_be32"),
                             (8, "read_float_be64"), (2, "read_hex_u8")])
        view = rbytes(rng, max(0, w - rng.choice([1, 1, 2])), "hexdigits")
        post = rbytes(rng, 8, "hexdigits")
        follow = [f"{opn} c1", f"read c1 {len(view) + 1}", f"advance c1 {len(view) + 1}", f"advance_nospec c1 {len(view) + 1}", "init b1 8",
                  f"reserve b1 {len(view) + 1}", "read_and_fill_buffer c1 b1" if len(view) < 8 else "dump"]
    elif kind == "compare":
        view = rbytes(rng, rng.choice([0, 1, 3]), "alpha")
        post = rbytes(rng, 2, "alpha")
        follow = [f"cur_bytes c2 {hexs(view + post[:1])}", "compare_lexical c1 c2", "compare_lookup c1 c2", "compare_lookup c2 c1",
                  f"cur_bytes c2 {hexs(view.swapcase())}", "compare_lookup c1 c2", "compare_lexical c1 c2"]
    elif kind == "parse":
        hexa = rng.random() < 0.5
        view = rbytes(rng, rng.choice([1, 2, 5]), "hexdigits" if hexa else "digits")
        post = rbytes(rng, rng.choice([1, 12]), "hexdigits" if hexa else "digits")
        pre = rbytes(rng, rng.choice([0, 1]), "digits")
        follow = [f"parse_u64{'_hex' if hexa else ''} c1", "parse_u64 c1", "satisfies c1 isdigit", "satisfies c1 isxdigit"]
    else:
        view = rbytes(rng, rng.choice([0, 1, 4]), "alpha")
        post = rbytes(rng, 3, "alpha")
        follow = ["hash_ignore_case c1", "init b1 4", "append b1 c1", "append_with_lookup b1 c1", "write_from_whole_cursor b1 c1", "init b2 0",
                  "append_dynamic b2 c1", "init_copy_from_cursor b3 c1", "write_to_capacity b1 c1"]
    big = pre + view + post
    if rng.random() < 0.3 and 0 < len(big) <= 64:
        ops += [f"init b0 {len(big)}", f"write b0 {hexs(big)} {len(big)}", f"cur_into c1 b0 {len(pre)} {len(view)}"]     # view into a buffer
    else:
        ops += [f"cur_bytes c0 {hexs(big)}", f"cur_sub c1 c0 {len(pre)} {len(view)}"]                                  # view into an array
    ops += follow
    # the same view as an exact-size block: the red zone starts at the first byte behind it
    ops += [f"cur_bytes c1 {hexs(view)}"] + [o for o in follow if not o.startswith(("init ", "write b1", "reserve"))]
    ops.append("dump")
    return Case(ops, {"stream": "subview"})


FORGED = ["HALF", "HALF+1", "MAX-1", "MAX"]


def gen_forged_case(rng):
    """forged headers over a 16-byte real block; only calls whose guard must fail before any memory access"""
    ops = []
    r = rng.random()
    if r < 0.45:
        # cursor with a forged length: advance family must refuse (len > HALF, or n > HALF, or n > len)
        ln = rng.choice(FORGED + ["HALF"])
        ops.append(f"cur_forge c0 16 {ln}")
        lnv = {"HALF": HALF, "HALF+1": HALF + 1, "MAX-1": MAX - 1, "MAX": MAX}[ln]
        for _ in range(rng.randint(1, 4)):
            k = rng.choice(["advance", "advance_nospec", "read", "read_u8", "read_be16", "read_be24", "read_be32", "read_be64"])
            if k in ("advance", "advance_nospec", "read"):
                if lnv > HALF:
                    n = rng.choice([0, 1, 16, "HALF", "HALF+1", "MAX"]) if k != "read" else rng.choice([1, 16, "HALF+1", "MAX"])
                elif k == "advance":
                    n = rng.choice(["HALF+1", "MAX", "MAX-1", 0])
                else:
                    n = rng.choice(["HALF+1", "MAX", 1, 16])     # nospec at len = HALF: refused, cursor untouched (574d3b6)
                ops.append(f"{k} c0 {n}")
            else:
                ops.append(f"{k} c0")
        if lnv > HALF and rng.random() < 0.5:
            # the checked sum of the cursor lengths must overflow (or the destination stays empty), whatever the order
            ops.append(f"cur_bytes c1 {hexs(rbytes(rng, rng.choice([1, 2, 3])))}")
            ops.append(f"cur_forge c2 16 {rng.choice(['MAX', 'MAX-1', 'HALF+1'])}")
            ops.append(rng.choice(["init_cache b1 c0 c1", "init_cache b1 c1 c0", "init_cache b1 c0 c2", "init_cache b1 c1 c0 c2"]))
        if lnv > HALF:
            ops.append("init b0 4")
            ops.append(rng.choice(["write_to_capacity b0 c0", "append b0 c0", "append_dynamic b0 c0"]) if lnv >= MAX - 1 else "append b0 c0")
    elif r < 0.55:
        # a small but inconsistent header (len > capacity, or a capacity without storage semantics): every function that
        # validates its argument (AWS_ERROR_PRECONDITION(aws_byte_buf_is_valid)) must refuse before touching memory
        cap = rng.choice([1, 4, 8])
        ops.append(f"buf_forge b0 16 {cap + rng.choice([1, 2, 8])} {cap} {rng.randint(0, 1)}")
        ops.append("buf_is_valid b0")
        for _ in range(rng.randint(1, 4)):
            ops.append(rng.choice(["init_copy b1 b0", "reserve b0 12", "reserve b0 32", "reserve_relative b0 1", "reserve_relative b0 0",
                                   "reserve_smart b0 3", "buf_is_valid b0"]))
        ops.append("clean_up b0")
    elif r < 0.8:
        # buffer header with forged len/cap: write family must refuse
        ln, cap = rng.choice([("HALF+1", "MAX"), ("MAX-1", "MAX"), ("MAX", "MAX"), ("HALF+1", "HALF+1"), ("HALF", "HALF"), ("MAX-1", "MAX-1")])
        own = rng.randint(0, 1)
        ops.append(f"buf_forge b0 16 {ln} {cap} {own}")
        full = ln == cap
        for _ in range(rng.randint(1, 4)):
            k = rng.choice(["write", "write_u8", "write_u8_n", "write_be16", "write_be32", "write_be64", "append", "buf_advance",
                            "reserve_relative", "append_dynamic", "write_from_whole_cursor"])
            if ln == "HALF" and k in ("write_u8_n", "write", "write_u8", "write_be16", "write_be32", "write_be64", "write_from_whole_cursor"):
                k = "write_u8_n_half"
            if k == "write":
                ops.append(f"write b0 0102 {rng.choice([1, 2, 'HALF+1', 'MAX'])}")
            elif k == "write_u8":
                ops.append("write_u8 b0 41")
            elif k == "write_u8_n":
                ops.append(f"write_u8_n b0 41 {rng.choice([1, 2, 'HALF', 'HALF+1', 'MAX'])}")
            elif k == "write_u8_n_half":
                ops.append(f"write_u8_n b0 41 {rng.choice([1, 'HALF+1', 'MAX'])}" if full else "write_u8_n b0 41 MAX")
            elif k.startswith("write_be"):
                ops.append(f"{k} b0 0x4142")
            elif k == "append" and full:
                ops.append("cur_bytes c1 4142")
                ops.append("append b0 c1")
            elif k == "write_from_whole_cursor":
                ops.append("cur_bytes c1 4142")
                ops.append("write_from_whole_cursor b0 c1")
            elif k == "buf_advance" and full:
                ops.append(f"buf_advance b0 {rng.choice([1, 'HALF', 'MAX'])}")
            elif k == "reserve_relative" and own:
                ops.append(f"reserve_relative b0 {rng.choice(['MAX', 'HALF+1', 'MAX-1'])}" if ln != "HALF" else "reserve_relative b0 MAX")
            elif k == "append_dynamic" and own and full and cap in ("MAX", "MAX-1"):
                ops.append("cur_bytes c1 414243")
                ops.append("append_dynamic b0 c1")     # required capacity overflows
        ops.append("clean_up b0")
    else:
        # honest buffer, dishonest operand
        ops.append("init b0 8")
        ops.append("cur_bytes c0 0102030405")
        for _ in range(rng.randint(2, 5)):
            ops.append(rng.choice([
                "write b0 0102 MAX", "write b0 0102 HALF+1", "write_u8_n b0 41 MAX", "write_u8_n b0 41 HALF+1", "write_u8_n b0 41 MAX-7",
                "buf_advance b0 MAX", "buf_advance b0 HALF+1", "reserve_relative b0 MAX", "reserve_smart_relative b0 MAX",
                "reserve_relative b0 MAX-4", "advance c0 MAX", "advance c0 HALF+1", "advance_nospec c0 MAX", "advance_nospec c0 HALF+1",
                "read c0 MAX", "read c0 HALF+1", "append b0 c0", "write_u8 b0 07", "write_be32 b0 0x01020304", "advance c0 HALF",
            ]))
        ops.append("dump")
    return Case(ops, {"stream": "forged"})


def small_alphabet():
    return [
        "append b0 c0", "append b0 c1", "append b0 c2", "append_dynamic b0 c1", "append_dynamic_secure b0 c2", "append_dynamic b0 c2",
        "append_with_lookup b0 c1", "append_byte_dynamic b0 41", "append_byte_dynamic_secure b0 42", "append_and_update b0 c0",
        "append_null_terminator b0", "cat b0 b1", "cat b0 b0 b1", "cat b1 b0", "reserve b0 4", "reserve_relative b0 3", "reserve_smart b0 4",
        "reserve_smart_relative b0 2", "buf_advance b0 1", "buf_advance b0 3", "write b0 4142 2", "write b0 41 1", "write b0 - 0",
        "write_from_whole_buffer b0 b1", "write_from_whole_cursor b0 c1", "write_to_capacity b0 c1", "write_to_capacity b1 c1",
        "write_u8 b0 43", "write_u8_n b0 44 2", "write_u8_n b0 44 0", "write_be16 b0 0x4546", "write_be24 b0 0x474849", "write_be24 b0 0x1000000",
        "reset b0 0", "reset b0 1", "secure_zero b0", "clean_up b0", "clean_up_secure b0", "cur_from_buf c2 b0", "cur_into c2 b0 1 1",
        "advance c1 1", "advance c1 3", "advance_nospec c1 2", "read c1 2", "read_u8 c0", "read_be16 c1", "read_be24 c1",
        "read_and_fill_buffer c1 b1", "read_and_fill_buffer c1 b0", "append b1 c1", "append b1 c0", "init b3 2", "init_copy b3 b0",
        "init_copy_from_cursor b3 c1", "append b2 c0", "append_dynamic b2 c0", "reserve b2 1", "write_u8_n b2 41 0",
        "init_from_file b3 1 2 4142 - hint 0", "init_from_file b3 1 3 414243 1,0 hint 0", "init_cache b3 c0 c1", "write_float_be32 b0 0x3f800000",
        "read_float_be32 c1", "write_from_whole_string b0 4142", "clean_up_secure b3",
    ]


def exhaustive_cases(depth):
    """all op sequences of the given length over a 3-byte heap buffer, a 2-byte static one, a zero-capacity one"""
    pre = ["init b0 3", "buf_from_empty_array b1 2", "init b2 0", "cur_bytes c0 61", "cur_bytes c1 4243", "write_u8 b0 7a", "write_u8 b1 79",
           "cur_into c2 b0 0 1"]
    out = []
    for seq in itertools.product(small_alphabet(), repeat=depth):
        out.append(Case(pre + list(seq) + ["dump"], {"stream": "exhaustive", "exhaustive": True}))
    return out


def gen_cases(rng, tier):
    quick = tier == "quick"
    cases = []
    # the three special streams first: the core reports at most five failing cases per run
    cases += [gen_forged_case(rng) for _ in range(2000 if quick else 20000)]
    cases += [gen_selfappend_case(rng) for _ in range(1000 if quick else 10000)]
    cases += [gen_subview_case(rng) for _ in range(3000 if quick else 30000)]
    cases += [gen_random_case(rng, 40) for _ in range(14000 if quick else 150000)]
    cases += exhaustive_cases(2)          # every ordered pair of the small-scope alphabet, in both tiers
    if not quick:
        ex3 = exhaustive_cases(3)
        cases += [ex3[i] for i in sorted(rng.sample(range(len(ex3)), 60000))]
    return cases


# ------------------------------------------------------------------ direct oracle (implementation output only)
_kv = re.compile(r"(\w+)=(\S+)")
NONRESET_MUT = {"write_float_be32", "write_float_be64", "write_from_whole_string", "append", "append_with_lookup", "append_dynamic", "append_dynamic_secure", "append_byte_dynamic",
                "append_byte_dynamic_secure", "append_and_update", "append_null_terminator", "cat", "reserve", "reserve_relative",
                "reserve_smart", "reserve_smart_relative", "buf_advance", "write", "write_from_whole_buffer", "write_from_whole_cursor",
                "write_to_capacity", "write_u8", "write_u8_n", "write_be16", "write_be24", "write_be32", "write_be64"}
PARTIAL_OK = {"cat", "split_on_char", "split_on_char_n"}
SECURE = {"append_dynamic_secure", "append_byte_dynamic_secure", "clean_up_secure"}
NOSPEC = {"advance_nospec", "read", "read_u8", "read_be16", "read_be24", "read_be32", "read_be64", "read_and_fill_buffer"}


def psize(t):
    if t.startswith("MAX"):
        base, r = MAX, t[3:]
    elif t.startswith("HALF"):
        base, r = HALF, t[4:]
    elif t.startswith("0x"):
        return int(t, 16)
    else:
        return int(t)
    if r.startswith("+"):
        return base + int(r[1:])
    if r.startswith("-"):
        return base - int(r[1:])
    return base


def unhex(h):
    return b"" if h == "-" else bytes.fromhex(h)


class OState:
    def __init__(self):
        self.b = {}     # slot -> dict(rid,len,own,data,cap)
        self.c = {}     # slot -> dict(rid,off,len)
        self.ext = {}   # rid -> bytes (external immutable arrays)

    def cur_bytes(self, c):
        """bytes a cursor views, from what the implementation itself printed (None = unknown)"""
        if c is None or c["rid"] in ("null", "?"):
            return b"" if c and c["len"] == 0 else None
        if c["len"] == 0:
            return b""
        rid = c["rid"]
        if rid in self.ext:
            d = self.ext[rid]
            return d[c["off"]:c["off"] + c["len"]] if c["off"] + c["len"] <= len(d) else None
        for b in self.b.values():
            if b["rid"] == rid and isinstance(b["data"], bytes) and c["off"] + c["len"] <= len(b["data"]):
                return b["data"][c["off"]:c["off"] + c["len"]]
        return None


def _split_ops(case, lines):
    """group output lines per op: [release|…]* (r|skip|bad-op)? [b|W|c|MONITOR]*"""
    groups, i, n = [], 0, len(lines)
    for op in case.ops:
        g = []
        if op == "dump":
            while i < n and (lines[i].startswith(("P b", "W b", "P c"))):
                g.append(lines[i]); i += 1
            groups.append(g)
            continue
        if op == "dump_tables":
            while i < n and lines[i].startswith(("P tolower", "P hex2num")):
                g.append(lines[i]); i += 1
            groups.append(g)
            continue
        while i < n and lines[i].startswith(("P release", "P MONITOR")):
            g.append(lines[i]); i += 1
        if i < n and (lines[i].startswith(("P r ", "P skip", "P FAULT")) or lines[i] == "bad-op"):
            g.append(lines[i]); i += 1
        while i < n and lines[i].startswith(("P b", "W b", "P c", "P MONITOR")):
            g.append(lines[i]); i += 1
        groups.append(g)
    return groups, lines[i:]


def oracle(case, lines):
    errs = []
    st = OState()
    groups, rest = _split_ops(case, lines)
    if rest:
        errs.append("unparsed implementation output: " + rest[0][:200])
    for op, g in zip(case.ops, groups):
        t = op.split()
        name = t[0]
        res = None
        after_b, after_c, releases = {}, {}, []
        for l in g:
            if l.startswith("P MONITOR"):
                errs.append(f"{op}: harness monitor: {l}")
            elif l.startswith("P release"):
                kv = dict(_kv.findall(l))
                kv["secure"] = name in SECURE
                releases.append(kv)
                if kv["secure"] and kv.get("zero") != "1":
                    errs.append(f"{op}: block {kv['rid']} ({kv['size']} bytes) released by a secure variant without being zeroed")
            elif l.startswith("P r "):
                res = l[4:]
            elif l.startswith("P FAULT") or l == "bad-op":
                res = None
            elif l.startswith("P b"):
                kv = dict(_kv.findall(l))
                s = int(l.split()[1][1:])
                d = kv["data"]
                after_b[s] = dict(rid=kv["rid"], len=int(kv["len"]), own=kv["own"], data=(d if d in ("forged", "stale") else unhex(d)), cap=None)
            elif l.startswith("W b"):
                s = int(l.split()[1][1:])
                if s in after_b:
                    after_b[s]["cap"] = int(l.split("cap=")[1])
            elif l.startswith("P c"):
                kv = dict(_kv.findall(l))
                s = int(l.split()[1][1:])
                after_c[s] = dict(rid=kv["rid"], off=int(kv["off"]) if kv["off"] != "?" else -1, len=int(kv["len"]))
        if res is None or res.startswith("skip"):
            # skipped / malformed op: nothing was called
            for s, v in after_b.items():
                st.b[s] = v
            for s, v in after_c.items():
                st.c[s] = v
            continue
        before_b = {s: st.b.get(s) for s in after_b}
        before_c = {s: st.c.get(s) for s in after_c}
        failed = res.startswith("ERR") or res == "false" or res == "view zeroed" or \
            (name in ("advance", "advance_nospec") and res.startswith("cur rid=null"))
        # (A) structural validity of every buffer the implementation reports
        for s, v in after_b.items():
            if v["data"] == "forged":
                continue
            if v["cap"] is not None and v["len"] > v["cap"]:
                errs.append(f"{op}: b{s} len {v['len']} > capacity {v['cap']}")
            if v["cap"] is not None and ((v["rid"] == "null") != (v["cap"] == 0)):
                errs.append(f"{op}: b{s} buffer pointer {v['rid']} with capacity {v['cap']}")
            if v["rid"] == "?":
                errs.append(f"{op}: b{s} points to no live block")
        dest = int(t[1][1:]) if len(t) > 1 and t[1][0] == "b" and t[1][1:].isdigit() else None
        if name == "read_and_fill_buffer":
            dest = int(t[2][1:])
        bb, ab = (before_b.get(dest), after_b.get(dest)) if dest is not None else (None, None)
        forged = ab is not None and ab["data"] == "forged"
        # (C) failure leaves every object the call was given exactly as it was
        if failed and name not in PARTIAL_OK and not name.startswith(("cur_", "buf_from", "buf_forge", "init_from_file", "init_cache")):
            for s, v in after_b.items():
                if before_b[s] is not None and before_b[s] != v:
                    errs.append(f"{op}: reported failure but b{s} changed: {before_b[s]} -> {v}")
            for s, v in after_c.items():
                if before_c[s] is not None and before_c[s] != v:
                    errs.append(f"{op}: reported failure but c{s} changed: {before_c[s]} -> {v}")
        if failed and name == "cat" and bb and ab and not forged:
            if not (isinstance(ab["data"], bytes) and isinstance(bb["data"], bytes) and ab["data"].startswith(bb["data"]) and ab["rid"] == bb["rid"] and ab["cap"] == bb["cap"]):
                errs.append(f"{op}: failed cat did not keep the old contents as a prefix: {bb} -> {ab}")
        # (B) success of a non-resetting op keeps [0, len_before) and never shrinks
        if not failed and name in NONRESET_MUT and bb and ab and not forged and isinstance(bb["data"], bytes) and isinstance(ab["data"], bytes):
            if not ab["data"].startswith(bb["data"]):
                errs.append(f"{op}: previously written bytes changed: {bb['data'].hex()} -> {ab['data'].hex()}")
            if ab["cap"] < bb["cap"]:
                errs.append(f"{op}: capacity shrank {bb['cap']} -> {ab['cap']}")
        # (D) secure variants: a block they give back must have been reported zero
        if name in SECURE and bb and ab and bb["rid"] not in ("null", "?") and bb["own"] == "1" and ab["rid"] != bb["rid"]:
            if not any(r["rid"] == bb["rid"] and r["secure"] and r.get("zero") == "1" and int(r["size"]) == bb["cap"] for r in releases):
                errs.append(f"{op}: old block {bb['rid']} of {bb['cap']} bytes was not released zeroed")
        # (F) advance guard
        if name in ("advance", "advance_nospec") and before_c.get(int(t[1][1:])) is not None:
            cb, ca = before_c[int(t[1][1:])], after_c[int(t[1][1:])]
            n = psize(t[2])
            should = n <= cb["len"] and n <= HALF and (cb["len"] < HALF if name == "advance_nospec" else cb["len"] <= HALF)
            if should is True:
                exp_r = f"cur rid={cb['rid']} off={cb['off']} len={n}"
                exp_c = dict(rid=cb["rid"], off=(cb["off"] + n if cb["rid"] != "null" else 0), len=cb["len"] - n)
                if res != exp_r or ca != exp_c:
                    errs.append(f"{op}: guard holds but result `{res}` / cursor {ca}, expected `{exp_r}` / {exp_c}")
            elif should is False and not (res.startswith("cur rid=null") and res.endswith("len=0") and ca == cb):
                errs.append(f"{op}: guard fails (len={cb['len']}, n={n}) but result `{res}` / cursor {cb} -> {ca}")
        # (G) write guard + written bytes
        wsrc = None
        if name == "write":
            wsrc = unhex(t[2])[:psize(t[3])] if psize(t[3]) <= len(unhex(t[2])) else None
            wn = psize(t[3])
        elif name == "write_u8":
            wsrc, wn = unhex(t[2]), 1
        elif name == "write_u8_n":
            wn = psize(t[3]); wsrc = unhex(t[2]) * wn if wn <= 1 << 20 else None
        elif name in ("write_be16", "write_be32", "write_be64", "write_be24"):
            w = int(name[8:]) // 8
            x = psize(t[2]) & ((1 << (8 * (4 if w == 3 else w))) - 1)
            wsrc, wn = (x & ((1 << (8 * w)) - 1)).to_bytes(w, "big"), w
            if w == 3 and x > 0xFFFFFF:
                wn = None
        else:
            wn = False
        if wn is not False and bb and ab and bb["cap"] is not None:
            if wn is None:
                should = False
            else:
                should = (wn == 0) or (bb["len"] <= HALF and wn <= HALF and bb["len"] + wn <= bb["cap"])
            if should != (res == "true"):
                errs.append(f"{op}: write guard says {should} (len={bb['len']} cap={bb['cap']} n={wn}) but the call returned {res}")
            if should and res == "true" and not forged and wsrc is not None and isinstance(bb["data"], bytes):
                if ab["data"] != bb["data"] + wsrc or ab["len"] != bb["len"] + wn:
                    errs.append(f"{op}: expected contents {(bb['data'] + wsrc).hex()} got {ab['data'].hex() if isinstance(ab['data'], bytes) else ab['data']}")
        # (H) append family: capacity rule and appended bytes = the source bytes
        if name in ("append", "append_dynamic", "append_dynamic_secure", "append_and_update", "write_from_whole_cursor", "append_with_lookup") \
                and bb and ab and not forged and bb["cap"] is not None:
            cs = int(t[2][1:])
            cb = before_c.get(cs)
            if cb is not None and isinstance(bb["data"], bytes):
                src = st.cur_bytes(cb)
                fits = cb["len"] <= bb["cap"] - bb["len"]
                if name in ("append", "append_and_update", "append_with_lookup") and fits == failed:
                    errs.append(f"{op}: source of {cb['len']} bytes, free space {bb['cap'] - bb['len']}, but result {res}")
                if name.startswith("append_dynamic") and bb["own"] == "1" and failed and cb["len"] + bb["len"] < (1 << 40):
                    errs.append(f"{op}: growable buffer refused an append of {cb['len']} bytes: {res}")
                if not failed and src is not None and isinstance(ab["data"], bytes) and (name != "write_from_whole_cursor" or res == "true"):
                    exp = bb["data"] + (src.lower() if name == "append_with_lookup" and src.isascii() else src)
                    if (name != "append_with_lookup" or src.isascii()) and ab["data"] != exp:
                        errs.append(f"{op}: expected contents {exp.hex()} got {ab['data'].hex()}")
                if not failed and ab["cap"] is not None and ab["len"] > ab["cap"]:
                    errs.append(f"{op}: len {ab['len']} > cap {ab['cap']}")
        # (I) reads: value = big-endian of the bytes under the cursor; cursor advanced by exactly k
        if name in ("read_u8", "read_be16", "read_be24", "read_be32", "read_be64"):
            k = {"read_u8": 1, "read_be16": 2, "read_be24": 3, "read_be32": 4, "read_be64": 8}[name]
            cs = int(t[1][1:])
            cb, ca = before_c.get(cs), after_c.get(cs)
            if cb is not None and ca is not None:
                should = k <= cb["len"] < HALF
                if should != res.startswith("true"):
                    errs.append(f"{op}: cursor of {cb['len']} bytes but result {res}")
                if should and res.startswith("true"):
                    src = st.cur_bytes(cb)
                    if src is not None and int(res.split()[1]) != int.from_bytes(src[:k], "big"):
                        errs.append(f"{op}: read value {res.split()[1]} but the bytes are {src[:k].hex()}")
                    if ca != dict(rid=cb["rid"], off=cb["off"] + k, len=cb["len"] - k):
                        errs.append(f"{op}: cursor {cb} -> {ca}, expected to move by {k}")
        # (J) init_from_file: failure => cleaned-up (zero) buffer and the block given back last was zeroed; success =>
        #     contents are exactly the bytes the reads delivered, with room for the terminator (len < cap)
        if name == "init_from_file" and ab is not None:
            if failed:
                if ab["rid"] != "null" or ab["len"] != 0 or ab["cap"] != 0 or ab["own"] != "0":
                    errs.append(f"{op}: failed but the buffer was not cleaned up: {ab}")
                if releases and releases[-1].get("zero") != "1":
                    errs.append(f"{op}: the block handed back by clean_up_secure on the error path was not zeroed")
            else:
                data = unhex(t[4])
                if not isinstance(ab["data"], bytes) or not data.startswith(ab["data"]) or ab["len"] >= (ab["cap"] or 0):
                    errs.append(f"{op}: contents {ab['data']} / len {ab['len']} cap {ab['cap']} do not match the file bytes {data.hex()}")
                if t[5] == "-" and ab["data"] != data:
                    errs.append(f"{op}: whole file expected, got {ab['data']}")
        # (K) float round trip as bit patterns; hash is FNV-1a of the lower-cased bytes
        if name in ("write_float_be32", "write_float_be64") and bb and ab and res == "true" and isinstance(bb["data"], bytes):
            w = 4 if name.endswith("32") else 8
            exp = bb["data"] + (psize(t[2]) & ((1 << (8 * w)) - 1)).to_bytes(w, "big")
            if ab["data"] != exp:
                errs.append(f"{op}: expected contents {exp.hex()} got {ab['data'].hex() if isinstance(ab['data'], bytes) else ab['data']}")
        if name == "hash_ignore_case" and res.startswith("OK "):
            cb = st.c.get(int(t[1][1:]))
            src = st.cur_bytes(cb) if cb else None
            if src is not None:
                hv = 0xcbf29ce484222325
                for x in src:
                    x = x + 32 if 65 <= x <= 90 else x
                    hv = ((hv ^ x) * 0x100000001b3) & MAX
                if int(res.split()[1]) != hv:
                    errs.append(f"{op}: hash {res.split()[1]} is not FNV-1a of the lower-cased bytes ({hv})")
        # (L) find_exact: the first occurrence entirely inside the view, or NOT_FOUND (bytes around the view play no role)
        if name == "find_exact":
            ci, cf, co = st.c.get(int(t[1][1:])), st.c.get(int(t[2][1:])), after_c.get(int(t[3][1:]))
            hay, nd = (st.cur_bytes(ci) if ci else None), (st.cur_bytes(cf) if cf else None)
            if hay is not None and nd is not None and co is not None and ci["len"] <= HALF:
                if len(nd) > len(hay):
                    exp = "ERR AWS_ERROR_STRING_MATCH_NOT_FOUND"
                elif len(nd) < 1:
                    exp = "ERR AWS_ERROR_SHORT_BUFFER"
                else:
                    k = hay.find(nd)
                    exp = "OK" if k >= 0 else "ERR AWS_ERROR_STRING_MATCH_NOT_FOUND"
                    if k >= 0 and res == "OK" and co != dict(rid=ci["rid"], off=ci["off"] + k, len=ci["len"] - k):
                        errs.append(f"{op}: first occurrence is at {k} of the view, result cursor {co}")
                if res != exp:
                    errs.append(f"{op}: needle {nd.hex()} in view {hay.hex()}: expected {exp}, got {res}")
        # (M) normalize_dir_sep rewrites separators in [0,len) only; string_from_* copies exactly the viewed bytes; is_zeroed
        if name == "normalize_dir_sep" and bb and ab and isinstance(bb["data"], bytes) and isinstance(ab["data"], bytes):
            if ab["data"] != bb["data"].replace(b"\\", b"/") or ab["len"] != bb["len"] or ab["cap"] != bb["cap"] or ab["rid"] != bb["rid"]:
                errs.append(f"{op}: {bb} -> {ab}")
        if name in ("string_from_cursor", "string_from_buf") and res.startswith("OK "):
            if name == "string_from_cursor":
                cb = st.c.get(int(t[1][1:]))
                src = st.cur_bytes(cb) if cb else None
            else:
                b0 = st.b.get(int(t[1][1:]))
                src = b0["data"] if b0 and isinstance(b0["data"], bytes) else None
            if src is not None:
                f = res.split()
                if f[1] != f"len={len(src)}" or f[2] != "nul=1" or unhex(f[3]) != src:
                    errs.append(f"{op}: the new string is `{res}`, the viewed bytes are {src.hex()}")
        if name == "is_zeroed" and res.startswith("pred "):
            cb = st.c.get(int(t[1][1:]))
            src = st.cur_bytes(cb) if cb else None
            if src is not None and (res == "pred 1") != (not any(src)):
                errs.append(f"{op}: {res} for bytes {src.hex()}")
        # commit what the implementation printed
        if name in ("cur_bytes", "cur_from_string") and int(t[1][1:]) in after_c:
            s = int(t[1][1:])
            st.ext[after_c[s]["rid"]] = unhex(t[2])
        if name == "cur_from_c_str" and int(t[1][1:]) in after_c:
            s = int(t[1][1:])
            st.ext[after_c[s]["rid"]] = unhex(t[2]).split(b"\0")[0]
        if name == "buf_from_array" and after_b:
            pass
        for s, v in after_b.items():
            st.b[s] = v
        for s, v in after_c.items():
            st.c[s] = v
    return errs


def extra_stages(ctx):
    debug_flavour_stage(ctx, cbuild.build_harness(**HARNESS))


def debug_flavour_stage(ctx, exe_asan):
    """DEBUG_BUILD flavour: the library's own AWS_PRECONDITION / AWS_POSTCONDITION checks are live (they abort).  The
    honest streams (no forged headers) must run through without an abort and print exactly what the NDEBUG build prints."""
    from lib import core
    quick = ctx.tier == "quick"
    cases = [gen_random_case(ctx.rng, 40) for _ in range(3000 if quick else 30000)]
    cases += [gen_selfappend_case(ctx.rng) for _ in range(300 if quick else 3000)]
    cases += exhaustive_cases(2)
    exe_dbg = cbuild.build_harness(**dict(HARNESS, flavour="debug"))
    txt = core.batch_text(cases, list(range(len(cases))))
    rc_d, out_d, _ = core.run_stream([exe_dbg], txt, TIMEOUT, C_ENV)
    rc_a, out_a, _ = core.run_stream([exe_asan], txt, TIMEOUT, C_ENV)
    ctx.cov["debug_flavour_cases"] = len(cases)
    d, a = core._split_cases(out_d), core._split_cases(out_a)
    if rc_d != 0:
        started = [int(k) for k in d.keys()]
        bad = started[-1] if started else 0
        ctx.violation(f"debug-abort-{ctx.seed}-{bad}", {"ops": cases[bad].ops, "observed": out_d[-2500:], "flavour": "debug"},
                      "DEBUG_BUILD flavour: a pre/post-condition of the library (or a sanitizer) aborted on this honest sequence")
        return
    for i in range(len(cases)):
        if d.get(str(i)) != a.get(str(i)):
            fd = core.first_diff(d.get(str(i), []), a.get(str(i), []))
            ctx.violation(f"debug-diff-{ctx.seed}-{i}", {"ops": cases[i].ops, "first_difference": fd, "flavour": "debug vs asan"},
                          "DEBUG_BUILD and NDEBUG builds of byte_buf.c print different results for this sequence")
            return


def nontrivial(case):
    if len(case.ops) < 6:
        return False
    return any(o.split()[0] in ("append_dynamic", "append_dynamic_secure", "reserve", "reserve_relative", "append", "write", "advance")
               for o in case.ops)


def distribution(cases, c_out):
    d = {"ops": {}, "streams": {}, "results": {"ok": 0, "err": 0, "true": 0, "false": 0, "skip": 0, "release": 0, "secure_release": 0, "growth": 0}}
    for i, c in enumerate(cases):
        d["streams"][c.tags.get("stream", "corpus")] = d["streams"].get(c.tags.get("stream", "corpus"), 0) + 1
        for o in c.ops:
            k = o.split()[0]
            d["ops"][k] = d["ops"].get(k, 0) + 1
        for l in c_out.get(i, []):
            r = d["results"]
            if l.startswith("P r OK"):
                r["ok"] += 1
            elif l.startswith("P r ERR"):
                r["err"] += 1
                e = l.split()[3]
                r[e] = r.get(e, 0) + 1
            elif l == "P r true" or l.startswith("P r true "):
                r["true"] += 1
            elif l.startswith("P r false"):
                r["false"] += 1
            elif l.startswith("P skip"):
                r["skip"] += 1
            elif l.startswith("P release"):
                r["release"] += 1
                if l.endswith("zero=1"):
                    r["secure_release"] += 1      # released blocks that were all-zero
    return d


MANIFEST = dict(
    category="proof",
    design_ref="5.1",
    text=("Lean 4 theorems (no sorry, axioms propext/Quot.sound/Classical.choice only) over an executable model of byte_buf.c with "
          "an explicit heap of regions, one Lean function per API function (guards transcribed as written) and one `step` over an "
          "inductive op language of 58 operation forms (every function of byte_buf.h except aws_hash_byte_cursor_ptr, plus init_from_file and the aws_string views). Fully proved, for every operation, every state and every operation sequence: "
          "c01_inv/c01_inv_run (len <= cap, block length = cap, cap = 0 iff no block, distinct buffers own distinct blocks, cursors "
          "inside their block — preserved by every op and every op sequence); c01_writes_in_bounds (no access outside the object's "
          "bound); c01_fail_unchanged (failure => whole state unchanged, no side condition; cat: documented weaker form "
          "c01_cat_partial); c01_prefix_stable (bytes [0,len) kept by all non-resetting ops, across growth and self-aliasing); "
          "c01_secure_zero(_run,_exact) (a secure variant releases exactly the old block, all-zero over its old capacity); "
          "c01_advance_guard, c01_nospec_eq, c01_nospec_mask, c01_write_guard; c01_split_spec, c01_split_n_spec, c01_find_exact_spec (first "
          "occurrence entirely inside the view or NOT_FOUND), c01_trim_spec, c01_compare_spec, "
          "c01_parse_u64_spec; c01_init_from_file (source/file.c against a simulated file with any size / data / short-read "
          "schedule: valid result, failure => cleaned-up buffer, success => NUL terminator inside the capacity); c01_tolower_table / "
          "c01_hex_table over the two tables, and the bridge theorems c01_gen_nospec_mask, c01_gen_predicates, c01_gen_guards, "
          "c01_gen_checked_arith, c01_gen_valid (model function = function re-translated from the C source by gen/cfun.py on every run) and "
          "c01_is_valid_all (aws_byte_buf_is_valid / aws_byte_cursor_is_valid as written hold for every buffer and cursor after every history). "
          "Nothing is left as an unproved statement. Tied to /repo by a differential run of the compiled "
          "model against byte_buf.c rebuilt from the working tree (ASan/UBSan and DEBUG_BUILD flavours, canary-guarded arrays, "
          "release-time zero inspection, forged-header stream, every ordered pair of a 58-op small-scope alphabet) plus a "
          "model-independent oracle on the implementation's own before/after snapshots."),
    note=("Trusted: Lean kernel; hand-written model Model/ByteBuf.lean (tied by correspondence only); table translator; harness. "
          "Allocation failure, realloc-in-place and compiler removal of the secure memset are outside the model. The former finding "
          "F-C01-1 (advance_nospec at len == SIZE_MAX/2) was repaired in /repo 574d3b6; its witness is a corpus regression case."),
    technique="Lean 4 invariant proofs over an op-language step function + model/implementation differential run + direct oracle",
)
