"""C19 — date-time formatting and parsing round-trip and agree with the calendar.

Streams (see RULE): round trips at every month boundary +-1 s, leap days, century cases, extremes,
random instants; numeric offsets enumerated; fractional seconds; zone designators in every case
variant; accessors and epoch views; a malformed / out-of-domain stream printed as class W
(conformance of the transcription only).  The direct oracle uses Python's datetime (an independent
proleptic Gregorian calendar) and never the Lean model."""
import math, os, re, struct
from fractions import Fraction
from datetime import datetime, timedelta
from lib.core import Case, GenError, write_if_changed, LEAN
from lib import cbuild
from gen import date_gen, math_gen, cfun

ID = "C19"
LEAN_MODULES = ["AwsVerif.Props.C19"]
COMPONENT = "datetime"
HARNESS = dict(name="datetime", flavour="asan")
C_ENV = {"TZ": "UTC"}
TIMEOUT = 900
NOT_PROVED = []
TRUSTED = ["translator gen/date_gen.py (+ gen/cfun.py, gen/math_gen.py): format strings, formatter dispatch, month compare chain, zone spellings, "
           "reader constants and conversion units of date_time.c, and aws_timestamp_convert of clock.inl, regenerated into Lean on every run",
           "hand model lean/AwsVerif/Model/DateTime.lean (tied by this correspondence run only)",
           "libc gmtime_r / timegm / strftime are MODELLED (proleptic Gregorian calendar, C locale, English names), "
           "not verified: tied by P agreement on the enumerated instants and by the Python datetime oracle"]
ASSUMPTIONS = ["conversions are re-entrant because only the _r forms are used: source/posix/time.c is tied by the generated layer to exactly "
               "gmtime_r / localtime_r / timegm on the caller's buffers (c19_gen_time_glue; any other body is rejected by the translator), and a "
               "threads stage (6 threads, different instants, results compared with a single-threaded table) runs on every check",
               "libc contract taken over by the model, including the one-line glue of source/posix/time.c (aws_timegm = timegm, aws_gmtime = gmtime_r): "
               "timegm is total and exact on the whole range, negative results (wall-clock fields before 1970, later shifted back by the "
               "offset) are legitimate values, not errors; checked by the P streams (edge-offset stream: texts whose fields lie before 1970 "
               "or beyond the instant's own year) and the oracle, not proved about libc",
               "main run with TZ=UTC in the environment (mktime path of zone-less RFC 822 text then equals timegm); further runs with TZ=XXX-5:30 and TZ=AAA8 cover the zone-independent streams (all UTC formatters, zone-carrying texts, accessors, epoch views); local-time functions are outside the property",
               "aws_date_time_init_epoch_secs: the double -> (timestamp, milliseconds) split is modelled over the rationals (Model splitDouble: modf exact, "
               "product with 1000.0 rounded to nearest-even at 53 bits, C round exact, uint16_t cast) assuming IEEE-754 binary64 in round-to-nearest without excess "
               "precision (x86-64/SSE2); tied by the accd stream against the C code and against Python floats; as_epoch_secs' double arithmetic is compared bit-for-bit, not proved",
               "as_nanos is required to be 10^9*secs + 10^6*ms exactly, or the saturated value 2^64-1 where that does not fit (instants after 2554-07-21T23:34:33.709Z) - never a wrapped value; as_millis exact over the whole range (theorem c19_epoch_views, oracle on every acc / millis / successful parse)",
               "int arithmetic of the RFC 822 day field wraps (gcc/x86-64)"]
RULE = ("per instant t: rt (format then parse the produced text) for 3 formats x full/date-only x explicit/auto-detect, acc; "
        "instants = month boundaries +-1 s (thorough: every year 1970-9999; quick: a seeded slice), leap days, century years, extremes, random; "
        "offset stream: +-hh:mm / +-hhmm (quick: hh 0..23 x selected mm, thorough: all 00..99 x 00..99) on ISO extended/basic and RFC 822; "
        "edge-offset stream: instants of the first/last 14 h of the range, around the epoch and year boundaries, each written with offsets of both "
        "signs up to 14 h (thorough 24 h) so that the text's wall-clock fields are before 1970 / in the neighbouring year; "
        "nanos-limit stream: acc / millis / parsed texts with fractional seconds on both sides of 2554-07-21T23:34:33 (64-bit nanosecond limit) and at 9999-12-31, ms in {0,1,551,552,709,710,999,random}; "
        "append stream: fmtb = one to three timestamps formatted back to back into ONE output buffer that already holds a random prefix of 0..40 bytes, "
        "capacity exact / one short / just above / far too small; P: prefix preserved, len = prefix + text, refusal leaves the buffer unchanged, every appended range parses back; "
        "misc stream: local-time formatters (all six cases, in the UTC run and under both other zones), aws_date_time_diff, aws_date_time_init_now against the wall clock, dst accessor on every result; "
        "double-fractions stream: init_epoch_secs on doubles with fractions at the millisecond rounding boundaries (.9994/.9995/.99951/.9999/.99999/just below the "
        "next second, .4995/.5, .0005) and their neighbours in the double grid, at bases across the range; oracle: timestamp/ms as IEEE arithmetic gives them "
        "(ms = 1000 for fractions in [0.9995,1)), views consistent, as_millis within 1 ms of the exact instant; "
        "mixed-separators stream: ISO texts with extended date + basic time and basic date + extended time; "
        "threads stage: 6 threads x 60000 (thorough 1500000) iterations of init / format / parse on per-thread instants against a precomputed table; "
        "fractions, zone-designator case variants; W stream: mutated / out-of-range / over-long texts, 2-digit years, short buffers; "
        "non-trivial = case contains at least one successful parse of a non-midnight instant or a non-zero offset")

_state = {}


def regen(ctx):
    """generated layer: lean/AwsVerif/Gen/DateConsts.lean from date_time.c; Gen/Math.lean (aws_timestamp_convert) from clock.inl"""
    repo, cfg = cbuild.REPO, cbuild.config_include()
    try:
        text, meta = date_gen.generate(repo, cfg)
        lean_math, lean_disp, _ = math_gen.generate(repo, cfg)
    except cfun.GenError as e:
        raise GenError(str(e))
    write_if_changed(os.path.join(LEAN, "AwsVerif", "Gen", "DateConsts.lean"), text)
    write_if_changed(os.path.join(LEAN, "AwsVerif", "Gen", "Math.lean"), lean_math)
    write_if_changed(os.path.join(LEAN, "AwsVerif", "Gen", "MathDispatch.lean"), lean_disp)
    _state["meta"] = meta
    _state["ctx"] = ctx


MAXT = 253402300799
EPOCH = datetime(1970, 1, 1)
DAYS = ["Sun", "Mon", "Tue", "Wed", "Thu", "Fri", "Sat"]
MONS = ["Jan", "Feb", "Mar", "Apr", "May", "Jun", "Jul", "Aug", "Sep", "Oct", "Nov", "Dec"]
FMTS = ["rfc822", "iso8601", "iso8601_basic"]
KNOWN_TAG = "[rfc822-date-only-unparseable]"
TZ_ALTS = ["XXX-5:30", "AAA8"]   # POSIX forms, need no tzdata: local time = UTC+05:30 and UTC-08:00, no DST


def hx(s):
    if isinstance(s, str):
        s = s.encode("latin-1")
    return s.hex() if s else "-"


def civil(t):
    return EPOCH + timedelta(seconds=t)


def secs_of(dt):
    d = dt - EPOCH
    return d.days * 86400 + d.seconds


def py_fmt(t, f, short):
    """independent formatter (expected text)"""
    d = civil(t)
    wd = (d.weekday() + 1) % 7
    if f == "rfc822":
        s = "%s, %02d %s %04d" % (DAYS[wd], d.day, MONS[d.month - 1], d.year)
        return s if short else s + " %02d:%02d:%02d GMT" % (d.hour, d.minute, d.second)
    if f == "iso8601":
        s = "%04d-%02d-%02d" % (d.year, d.month, d.day)
        return s if short else s + "T%02d:%02d:%02dZ" % (d.hour, d.minute, d.second)
    s = "%04d%02d%02d" % (d.year, d.month, d.day)
    return s if short else s + "T%02d%02d%02dZ" % (d.hour, d.minute, d.second)


ISO_RE = re.compile(rb"^(\d{4})(-?)(\d\d)(-?)(\d\d)(?:[Tt ](\d\d)(:?)(\d\d)(:?)(\d\d)(?:[.,]\d+)?([Zz]|[+-]\d\d:?\d\d))?$")
RFC_RE = re.compile(rb"^[A-Za-z]{3}, (\d\d) ([A-Za-z]{3}) (\d{4})(?: (\d\d):(\d\d):(\d\d) ([Zz]|[Uu][Tt]|[Uu][Tt][Cc]|[Gg][Mm][Tt]|[+-]\d{4}))?$")


def _mk(y, mo, d, h, mi, s):
    try:
        return secs_of(datetime(y, mo, d, h, mi, s))
    except ValueError:
        return None


def expected_parse(text, pf):
    """(expected timestamp, date_only_rfc822?) for texts inside the property's grammar, else None"""
    if pf in ("iso8601", "iso8601_basic", "auto"):
        m = ISO_RE.match(text)
        if m and m.group(2) == m.group(4) and (m.group(6) is None or m.group(7) == m.group(9)):
            y, mo, d = int(m.group(1)), int(m.group(3)), int(m.group(5))
            if m.group(6) is None:
                base = _mk(y, mo, d, 0, 0, 0)
                return None if base is None else (base, False)
            base = _mk(y, mo, d, int(m.group(6)), int(m.group(8)), int(m.group(10)))
            if base is None:
                return None
            z = m.group(11)
            if z in (b"Z", b"z"):
                return (base, False)
            digs = z[1:].replace(b":", b"")
            off = int(digs[:2]) * 3600 + int(digs[2:]) * 60
            return (base - off if z[:1] == b"+" else base + off, False)
    if pf in ("rfc822", "auto"):
        m = RFC_RE.match(text)
        if m:
            mon = m.group(2).decode().lower()
            idx = [x.lower() for x in MONS].index(mon) if mon in [x.lower() for x in MONS] else None
            if idx is None:
                return None
            if m.group(4) is None:
                base = _mk(int(m.group(3)), idx + 1, int(m.group(1)), 0, 0, 0)
                return None if base is None else (base, True)
            base = _mk(int(m.group(3)), idx + 1, int(m.group(1)), int(m.group(4)), int(m.group(5)), int(m.group(6)))
            if base is None:
                return None
            z = m.group(7)
            if z[:1] in (b"+", b"-"):
                off = int(z[1:3]) * 3600 + int(z[3:5]) * 60
                return (base - off if z[:1] == b"+" else base + off, False)
            return (base, False)
    return None


_FIELDS = re.compile(r"ts=(-?\d+) ms=(\d+) y=(\d+) mon=(-?\d+) d=(\d+) wd=(-?\d+) h=(\d+) mi=(\d+) s=(\d+) dst=(\d+)")
ZONES = {"UTC": (0, "UTC"), "XXX-5:30": (19800, "XXX"), "AAA8": (-28800, "AAA")}   # process TZ -> (seconds east, %Z)


def check_fields(line, want_ts, want_ms, errs, what):
    m = _FIELDS.search(line)
    if not m:
        errs.append(f"{what}: unreadable result line {line!r}")
        return
    ts, ms, y, mon, d, wd, h, mi, s, dst = map(int, m.groups())
    if dst != 0:
        errs.append(f"{what}: aws_date_time_dst(UTC) = {dst}, UTC has no daylight saving")
    if ts != want_ts or ms != want_ms:
        errs.append(f"{what}: instant {ts}.{ms:03d} but expected {want_ts}.{want_ms:03d}")
        return
    if -62135596800 <= ts <= MAXT:
        c = civil(ts)
        exp = (c.year, c.month - 1, c.day, (c.weekday() + 1) % 7, c.hour, c.minute, c.second)
        if (y, mon, d, wd, h, mi, s) != exp:
            errs.append(f"{what}: accessors (y,mon,d,wd,h,mi,s)={(y, mon, d, wd, h, mi, s)} but the calendar says {exp}")


U64MAX = 2**64 - 1
_VIEWS = re.compile(r"millis=(\d+) nanos=(\d+) secs=([0-9a-f]{16})")


def check_views(v, secs, ms, errs, what):
    """epoch views of an instant secs.ms (0 <= secs <= MAXT): as_millis exact; as_nanos exact, or saturated at
    2^64-1 where 10^9*secs + 10^6*ms does not fit (after 2554-07-21T23:34:33.709Z) - never wrapped; as_epoch_secs
    is the double of secs + ms/1000"""
    mv = _VIEWS.search(v or "")
    if not mv:
        errs.append(f"{what}: unreadable views line {v!r}")
        return
    millis, nanos, bits = int(mv.group(1)), int(mv.group(2)), mv.group(3)
    if millis != 1000 * secs + ms:
        errs.append(f"{what}: as_millis {millis} != 1000*{secs}+{ms}")
    want = min(10**9 * secs + 10**6 * ms, U64MAX)
    if nanos != want:
        errs.append(f"{what}: as_nanos {nanos} but 10^9*{secs} + 10^6*{ms} " +
                    (f"= {want}" if want < U64MAX else f"exceeds 64 bits, expected the saturated value {U64MAX}") +
                    f" (as_millis = {millis})")
    if bits != struct.pack(">d", float(secs) + ms / 1000.0).hex():
        errs.append(f"{what}: as_epoch_secs bits {bits} != double({secs}+{ms}/1000)")


def oracle(case, lines):
    """direct property oracle on the implementation's output only"""
    errs = []
    li = 0
    probe = case.tags.get("known_probe")

    def nxt():
        nonlocal li
        l = lines[li] if li < len(lines) else None
        li += 1
        return l

    def parse_result(text, pf, what, want=None):
        """consume the parse lines; check against the grammar expectation (and `want` if given)"""
        nonlocal li
        l = nxt()
        if l is None:
            errs.append(f"{what}: missing output")
            return
        ok = " parse OK " in l
        views = None
        if ok and li < len(lines) and lines[li].startswith("W utc="):
            li += 1
        if ok and li < len(lines) and " views " in lines[li]:
            views = lines[li]
            li += 1
        if not l.startswith("P "):
            return
        exp = expected_parse(text, pf)
        if exp is None:
            return
        ets, rfc_short = exp
        if rfc_short and not probe:
            return      # known finding F8 is exhibited by the dedicated probe cases only
        if want is not None and want != ets:
            errs.append(f"{what}: oracle self-check failed ({want} vs {ets})")
            return
        if not ok:
            errs.append(f"{what}: text {text!r} inside the grammar was refused ({l[2:]})" + (" " + KNOWN_TAG if rfc_short else ""))
            return
        n0 = len(errs)
        check_fields(l, ets, 0, errs, what)
        if len(errs) == n0 and 0 <= ets <= MAXT:
            check_views(views, ets, 0, errs, what)

    def skip_parse_lines():
        nonlocal li
        l2 = nxt()
        if l2 and " parse OK " in l2:
            if li < len(lines) and lines[li].startswith("W utc="):
                li += 1
            if li < len(lines) and " views " in lines[li]:
                li += 1

    for op in case.ops:
        t = op.split()
        w = t[0] == "w"
        if w:
            t = t[1:]
        if t[0] == "fmt":
            l = nxt()
            if l is None:
                errs.append(f"{op}: missing output"); break
            if not w and len(t) == 4 and t[2] in FMTS and 0 <= int(t[1]) <= MAXT:
                want = "P fmt OK " + hx(py_fmt(int(t[1]), t[2], t[3] == "short"))
                if l != want:
                    errs.append(f"{op}: formatted text {l!r} but expected {want!r}")
        elif t[0] == "parse":
            parse_result(bytes.fromhex(t[1]) if t[1] != "-" else b"", t[2], op)
        elif t[0] == "rt":
            l = nxt()
            if l is None:
                errs.append(f"{op}: missing output"); break
            secs, f, short, pf = int(t[1]), t[2], t[3] == "short", t[4]
            if " fmt OK " not in l:
                if not w and 0 <= secs <= MAXT and f in FMTS:
                    errs.append(f"{op}: formatting failed: {l}")
                continue
            if w or not (0 <= secs <= MAXT):
                skip_parse_lines()
                continue
            text = py_fmt(secs, f, short)
            if l != "P fmt OK " + hx(text):
                errs.append(f"{op}: formatted text {l!r} but expected {hx(text)}")
            produced = bytes.fromhex(l.split()[3]) if l.split()[3] != "-" else b""
            compatible = pf == "auto" or pf == f or (pf != "rfc822" and f != "rfc822")
            if compatible:
                parse_result(produced, pf, op, want=(secs - secs % 86400 if short else secs) if produced == text.encode() else None)
            else:
                parse_result(b"\xff", pf, op)
        elif t[0] == "lfmt":
            l = nxt()
            if l is None:
                errs.append(f"{op}: missing output"); break
            off, zn, secs, f, short = int(t[1]), bytes.fromhex(t[2]).decode(), int(t[3]), t[4], t[5] == "short"
            if not w and f in FMTS and 0 <= secs <= MAXT and 0 <= secs + off <= MAXT:
                text = py_fmt(secs + off, f, short)         # local wall clock of the fixed-offset zone
                if f == "rfc822" and not short:
                    text = text[:-3] + zn                  # %Z in place of "GMT"
                if l != "P lfmt OK " + hx(text):
                    errs.append(f"{op}: local-time text {l!r} but expected {text!r} ({hx(text)})")
        elif t[0] == "diff":
            l = nxt()
            if not w and l != f"P diff {int(t[1]) - int(t[2])}":
                errs.append(f"{op}: aws_date_time_diff gave {l!r}, expected {int(t[1]) - int(t[2])}")
        elif t[0] == "now":
            l = nxt()
            if not w and l != "P now ok":
                errs.append(f"{op}: aws_date_time_init_now disagrees with the wall clock / its own views: {l!r}")
        elif t[0] == "fmtb":
            cap = int(t[1])
            data = bytes.fromhex(t[2]) if t[2] != "-" else b""
            steps = [(int(t[k]), t[k + 1], t[k + 2] == "short") for k in range(3, len(t), 3)]
            known = not w and all(f in FMTS + ["auto"] and (f == "auto" or 0 <= secs <= MAXT) for secs, f, _ in steps)
            texts, impl_ok = [], 0
            for i, (secs, f, short) in enumerate(steps):
                l = nxt()
                if l is None:
                    errs.append(f"{op}: missing output"); break
                impl_ok += 1 if " fmtb OK " in l else 0
                if not known:
                    continue
                if i > 0 and len(data) < cap:
                    data += b"/"
                if f == "auto":
                    want = f"P fmtb AWS_ERROR_INVALID_ARGUMENT len={len(data)} data={hx(data)}"
                else:
                    text = py_fmt(secs, f, short).encode()
                    if len(text) + 1 <= cap - len(data):
                        before = len(data)
                        data += text
                        texts.append(text)
                        want = f"P fmtb OK len={len(data)} data={hx(data)}"
                        if l != want:
                            errs.append(f"{op}: call {i + 1} ({secs} {f} {'short' if short else 'full'}) on a buffer holding {before} bytes must append "
                                        f"{text!r}: expected `{want}` but got `{l}`")
                        continue
                    want = f"P fmtb AWS_ERROR_SHORT_BUFFER len={len(data)} data={hx(data)}"
                if l != want:
                    errs.append(f"{op}: call {i + 1} must be refused and leave the buffer unchanged: expected `{want}` but got `{l}`")
            if known and not errs:
                for text in texts:
                    parse_result(text, "auto", op + f" [appended range {text!r}]")
            else:
                for _ in range(impl_ok):
                    if li < len(lines) and " fmtb bad-range " in lines[li]:
                        li += 1
                    else:
                        skip_parse_lines()
        elif t[0] == "accd":
            l, v = nxt(), nxt()
            if l is None or v is None:
                errs.append(f"{op}: missing output"); break
            if w or l == "bad-op":
                continue
            d = struct.unpack(">d", bytes.fromhex(t[1]))[0]
            frac, integral = math.modf(d)          # IEEE doubles, as the C code: modf exact, product rounded, round() exact
            p = frac * 1000.0
            r = math.floor(p)
            ms = int(r) + (1 if p - r >= 0.5 else 0)
            secs = int(integral)
            if not (0 <= secs <= MAXT):
                continue
            what = f"{op} (double {d!r})"
            n0 = len(errs)
            check_fields(l, secs, ms, errs, what)
            if len(errs) == n0:
                check_views(v, secs, ms, errs, what)
            mv = _VIEWS.search(v)
            if mv:
                exact_ms = Fraction(d) * 1000
                if abs(int(mv.group(1)) - exact_ms) > 1:
                    errs.append(f"{what}: as_millis {mv.group(1)} is more than 1 ms away from the instant ({float(exact_ms):.4f} ms)")
        elif t[0] in ("acc", "millis"):
            l, v = nxt(), nxt()
            if l is None or v is None:
                errs.append(f"{op}: missing output"); break
            if w:
                continue
            if t[0] == "acc":
                secs, ms = int(t[1]), int(t[2])
            else:
                m = int(t[1]); secs, ms = m // 1000, m % 1000
            if not (0 <= secs <= MAXT):
                continue
            n0 = len(errs)
            check_fields(l, secs, ms, errs, op)
            if len(errs) == n0:
                check_views(v, secs, ms, errs, op)
        else:
            nxt()
    return errs


def classify(case, detail):
    if detail.get("kind") == "oracle" and case.tags.get("known_probe") == "F8":
        e = detail.get("errors") or []
        if e and all(KNOWN_TAG in x for x in e):
            return "F8"
    return None


# ------------------------------------------------------------------ generators
def month_start(y, m):
    return secs_of(datetime(y, m, 1))


def boundary_instants(years):
    out = []
    for y in years:
        for m in range(1, 13):
            t0 = month_start(y, m)
            for t in (t0 - 1, t0, t0 + 1):
                if 0 <= t <= MAXT:
                    out.append(t)
    return out


def special_instants():
    out = [0, 1, 59, 60, 3599, 3600, 86399, 86400, MAXT, MAXT - 1, MAXT - 86399, MAXT - 86400,
           951782400, 951782399, 951868800, 4107542400, 4107456000, 13574563200, 32503680000, 32503679999, 2147483647, 2147483648,
           4294967295, 4294967296, 18446744073, 18446744074]
    for y in [1970, 1972, 1999, 2000, 2001, 2004, 2038, 2096, 2100, 2104, 2200, 2300, 2400, 2800, 3000, 4000, 5000, 8000, 9600, 9900, 9996, 9999]:
        for (m, d) in [(1, 1), (2, 28), (3, 1), (12, 31), (6, 30), (7, 1)]:
            t0 = secs_of(datetime(y, m, d))
            out += [t0, t0 + 86399, t0 + 86400, t0 + 43200]
        if (y % 4 == 0 and y % 100 != 0) or y % 400 == 0:
            t0 = secs_of(datetime(y, 2, 29))
            out += [t0 - 1, t0, t0 + 1, t0 + 86399, t0 + 86400]
    return [t for t in out if 0 <= t <= MAXT]


def rt_ops(t, rng=None, full=True):
    """round trips for one instant: every format x length x {explicit, auto}"""
    ops = []
    combos = [(f, sh, pf) for f in FMTS for sh in ("full", "short") for pf in (f, "auto")]
    if not full:
        combos = rng.sample(combos, 4)
    for f, sh, pf in combos:
        ops.append(f"rt {t} {f} {sh} {pf}")
    return ops


def body(t, style):
    d = civil(t)
    if style == "ext":
        return "%04d-%02d-%02dT%02d:%02d:%02d" % (d.year, d.month, d.day, d.hour, d.minute, d.second)
    if style == "basic":
        return "%04d%02d%02dT%02d%02d%02d" % (d.year, d.month, d.day, d.hour, d.minute, d.second)
    wd = (d.weekday() + 1) % 7
    return "%s, %02d %s %04d %02d:%02d:%02d " % (DAYS[wd], d.day, MONS[d.month - 1], d.year, d.hour, d.minute, d.second)


def case_variants(word):
    out = [""]
    for ch in word:
        out = [o + c for o in out for c in (ch.lower(), ch.upper())]
    return out


def offset_ops(rng, tier):
    ops = []
    if tier == "thorough":
        pairs = [(h, m) for h in range(100) for m in range(100)]
    else:
        pairs = [(h, m) for h in range(24) for m in (0, 1, 15, 30, 45, 59)] + \
                [(rng.randrange(100), rng.randrange(100)) for _ in range(150)] + [(99, 99), (0, 0), (24, 0), (23, 60)]
    for (h, m) in pairs:
        for sg in "+-":
            t = rng.randint(86400 * 5, MAXT - 86400 * 5)
            ops.append(f"parse {hx(body(t, 'ext') + '%s%02d:%02d' % (sg, h, m))} {rng.choice(['iso8601', 'auto', 'iso8601_basic'])}")
            ops.append(f"parse {hx(body(t, 'ext') + '%s%02d%02d' % (sg, h, m))} {rng.choice(['iso8601', 'auto'])}")
            ops.append(f"parse {hx(body(t, 'basic') + '%s%02d%02d' % (sg, h, m))} {rng.choice(['iso8601_basic', 'auto', 'iso8601'])}")
            ops.append(f"parse {hx(body(t, 'basic') + '%s%02d:%02d' % (sg, h, m))} {rng.choice(['iso8601_basic', 'auto'])}")
            ops.append(f"parse {hx(body(t, 'rfc') + '%s%02d%02d' % (sg, h, m))} {rng.choice(['rfc822', 'auto'])}")
    return ops


def edge_offset_ops(rng, tier, n_inst=None):
    """instants of the first / last 14 h of the range, around the epoch and around year boundaries, written with
    numeric offsets of both signs so that the wall-clock fields in the text lie before 1970 (the intermediate
    timegm value is negative), after the instant's own day / year, or in the previous year; every text form
    (ISO extended, ISO basic, RFC 822) under the explicit format and auto-detect"""
    H14 = 14 * 3600
    fixed = [0, 1, 59, 60, 3599, 3600, 3601, 17999, 18000, 28799, 28800, 43199, 43200, 50399, 50400, 86399, 86400]
    k = n_inst if n_inst is not None else (12 if tier == "quick" else 120)
    inst = fixed + [rng.randrange(H14) for _ in range(k)] + [rng.randrange(H14, 3 * 86400) for _ in range(k // 2)]
    inst += [MAXT - x for x in fixed] + [MAXT - rng.randrange(H14) for _ in range(k)]
    for y in [1971, 1972, 2000, 2001, 2038, 2100, 9999] + rng.sample(range(1973, 9999), k // 2):
        t0 = month_start(y, 1)
        inst += [t0, t0 - 1, t0 + rng.randrange(H14), t0 - 1 - rng.randrange(H14)]
    if tier == "thorough":
        offs = [(h, m) for h in range(0, 24) for m in (0, 1, 15, 29, 30, 45, 59)]
    else:
        offs = [(h, m) for h in range(0, 15) for m in (0, 30, 45)] + [(14, 59), (23, 59), (5, 30), (9, 1), (0, 1), (12, 45)]
    forms = [("ext", True, ("iso8601", "auto")), ("ext", False, ("iso8601", "auto")), ("basic", False, ("iso8601_basic", "auto")),
             ("basic", True, ("iso8601_basic", "auto")), ("rfc", False, ("rfc822", "auto"))]
    ops, j = [], 0
    for t in inst:
        if not (0 <= t <= MAXT):
            continue
        for (h, m) in offs:
            off = h * 3600 + m * 60
            for sg in "+-":
                local = t + off if sg == "+" else t - off      # wall-clock fields written in the text
                if not (-62135596800 <= local <= MAXT):
                    continue
                sel = forms if tier == "thorough" else [forms[j % len(forms)], forms[(j + 2) % len(forms)]]
                j += 1
                for style, colon, pfs in sel:
                    z = "%s%02d%s%02d" % (sg, h, ":" if colon else "", m)
                    ops.append(f"parse {hx(body(local, style) + z)} {pfs[j % 2]}")
    return ops


NS_LIMIT = 18446744073   # last whole second whose nanosecond count fits 64 bits (2554-07-21T23:34:33Z; with ms <= 709)


def nanos_ops(rng, tier):
    """epoch views on both sides of the 64-bit nanosecond limit and at the end of the range, with and without
    milliseconds (init_epoch_secs / init_epoch_millis), and the same instants parsed from texts with fractional
    seconds (the parsers drop the fraction: views of the whole second)"""
    k = 30 if tier == "quick" else 600
    secs = [NS_LIMIT - 2, NS_LIMIT - 1, NS_LIMIT, NS_LIMIT + 1, NS_LIMIT + 2, NS_LIMIT + 86400, NS_LIMIT - 86400, 20000000000,
            32503680000, MAXT - 1, MAXT, 0, 1, 2**31, 2**32]
    secs += [rng.randint(NS_LIMIT - 10**6, NS_LIMIT + 10**6) for _ in range(k)] + [rng.randint(NS_LIMIT + 1, MAXT) for _ in range(k)]
    secs += [rng.randint(0, NS_LIMIT) for _ in range(k // 2)]
    ops = []
    for t in secs:
        for ms in [0, 1, 551, 552, 709, 710, 999, rng.randrange(1000)]:
            ops.append(f"acc {t} {ms}")
            ops.append(f"millis {t * 1000 + ms}")
        ms = rng.randrange(1000)
        frac = rng.choice(".,") + rng.choice(["%03d" % ms, "%d" % (ms % 10), "%03d%06d" % (ms, rng.randrange(10**6))])
        ops.append(f"parse {hx(body(t, 'ext') + frac + 'Z')} {rng.choice(['iso8601', 'auto'])}")
        ops.append(f"parse {hx(body(t, 'basic') + frac + rng.choice(['Z', 'z', '+00:00', '-0000']))} {rng.choice(['iso8601_basic', 'auto'])}")
        ops.append(f"parse {hx(body(t, 'rfc') + rng.choice(['GMT', 'UT', 'Z', '+0000']))} {rng.choice(['rfc822', 'auto'])}")
        ops.append(f"rt {t} iso8601 full auto")
    return ops


def append_ops(rng, tier, n):
    """formatting into an output buffer that already holds data: random prefix of 0..40 bytes, capacity below / at /
    just above what is needed (the refusal must leave the buffer unchanged), and two or three timestamps formatted
    back to back into one buffer with a `/` between them; every appended range is parsed back"""
    spec = special_instants()
    ops = []
    words = [b"", b"not-after=", b"Date: ", b"x-amz-date:", b"valid=", b"[", b"\x00", b"2020-01-01T00:00:00Z/"]
    for _ in range(n):
        r = rng.random()
        if r < 0.4:
            pre = rng.choice(words)
        elif r < 0.8:
            pre = bytes(rng.choice(b"abcxyzTZ0189-:=/ ,+") for _ in range(rng.randrange(41)))
        else:
            pre = bytes(rng.randrange(256) for _ in range(rng.randrange(41)))
        k = rng.choice([1, 1, 1, 2, 2, 3])
        steps = []
        for _ in range(k):
            t = rng.choice(spec) if rng.random() < 0.3 else rng.randint(0, MAXT)
            steps.append((t, rng.choice(FMTS), rng.choice(["full", "short"])))
        lens = [len(py_fmt(t, f, sh == "short")) for t, f, sh in steps]
        exact = len(pre) + sum(lens) + (k - 1) + 1          # everything fits, the last NUL included, not a byte more
        choice = rng.random()
        if choice < 0.25:
            cap = exact
        elif choice < 0.45:
            cap = exact - 1                                  # the last call is one byte short: refused, buffer unchanged
        elif choice < 0.6:
            cap = exact + rng.choice([1, 2, 3])
        elif choice < 0.7:
            cap = len(pre) + lens[0]                          # the first text alone would fit, its terminator does not
        elif choice < 0.78:
            cap = len(pre) + rng.randrange(lens[0] + 1)       # far too small (down to a full buffer)
        elif choice < 0.85 and k > 1:
            cap = len(pre) + lens[0] + 1                      # first fits exactly, no room for the separator
        else:
            cap = exact + rng.randrange(4, 80)
        ops.append(f"fmtb {max(cap, len(pre))} {hx(pre)} " + " ".join(f"{t} {f} {sh}" for t, f, sh in steps))
    ops.append("fmtb 64 - 0 iso8601 full 0 auto full 86400 iso8601_basic short")
    ops.append(f"fmtb 41 {hx(b'not-after=')} 0 iso8601 full")
    ops.append(f"fmtb 30 {hx(b'not-after=')} 0 iso8601 full")
    ops.append(f"fmtb 31 {hx(b'not-after=')} 0 iso8601 full")
    ops.append(f"w fmtb 80 {hx(b'pre:')} -1 iso8601 full {MAXT + 1} iso8601 full 0 rfc822 short")
    return ops


def dbits(d):
    return "%016x" % struct.unpack(">Q", struct.pack(">d", d))[0]


def double_ops(rng, tier):
    """aws_date_time_init_epoch_secs on doubles whose fraction sits at the rounding boundaries of the millisecond
    split (x.9994 / .9995 / .99951 / .9999 / .99999 / just below the next second; .4994 / .4995 / .5; .0004 / .0005),
    at base instants across the range (epoch, 2^31, 2^32, the nanosecond limit, 9999-12-31), plus neighbours in
    the double grid and random doubles; a fraction in [0.9995, 1) is stored as ms = 1000 with the same timestamp"""
    k = 40 if tier == "quick" else 2000
    bases = [0, 1, 59, 951782399, 1033545909, 2**31 - 1, 2**31, 2**32 - 1, 2**32, 2**33, 10**10, NS_LIMIT, NS_LIMIT + 1, 20000000000,
             MAXT - 86400, MAXT - 1, MAXT] + [rng.randint(0, MAXT) for _ in range(k)]
    fracs = [0.0, 0.0004, 0.0005, 0.00051, 0.001, 0.0015, 0.4994, 0.4995, 0.49951, 0.5, 0.5005, 0.998, 0.999, 0.9989999, 0.9994, 0.99949,
             0.9995, 0.99951, 0.9996, 0.9999, 0.99999, 0.999999999]
    ds = []
    for b in bases:
        for f in fracs:
            d = float(b) + f
            ds.append(d)
            if rng.random() < 0.3:
                ds += [math.nextafter(d, 0.0), math.nextafter(d, math.inf)]
        ds += [math.nextafter(float(b + 1), 0.0), float(b + 1), math.nextafter(float(b), math.inf), b + rng.random()]
    ds += [rng.uniform(0, MAXT) for _ in range(k * 5)] + [rng.random() for _ in range(k)] + [5e-324, 2.2250738585072014e-308, 1e-9]
    ops = [f"accd {dbits(d)}" for d in ds if 0 <= d < MAXT + 1]
    ops += [f"w accd {dbits(x)}" for x in (float(MAXT) + 1.9996, 1e12 + 0.9996, 1e15, 9007199254740992.0, 1e16)]   # beyond ~6.7e16 s gmtime_r fails (year > INT_MAX): not modelled
    return ops


def mixed_sep_ops(rng, n):
    """ISO texts whose date part and time part use different styles (the reader decides the two separators
    independently): `2000-02-29T120000Z`, `20000229T12:00:00+05:30`, with every zone form and optional fraction"""
    ops = []
    for _ in range(n):
        t = rng.randint(0, MAXT)
        d = civil(t)
        for date_ext in (True, False):
            date = ("%04d-%02d-%02d" if date_ext else "%04d%02d%02d") % (d.year, d.month, d.day)
            clock = ("%02d%02d%02d" if date_ext else "%02d:%02d:%02d") % (d.hour, d.minute, d.second)
            frac = rng.choice(["", "", ".5", ",123"])
            h, m = rng.randrange(15), rng.choice([0, 30, 45])
            zone = rng.choice(["Z", "z", "+%02d:%02d" % (h, m), "-%02d%02d" % (h, m)])
            ops.append(f"parse {hx(date + rng.choice('Tt ') + clock + frac + zone)} {rng.choice(['iso8601', 'iso8601_basic', 'auto'])}")
    return ops


def misc_ops(rng, n, tz="UTC"):
    """entry points beside the main path: local-time formatters (process zone given to the model in the op),
    aws_date_time_diff, aws_date_time_init_now"""
    off, zn = ZONES[tz]
    ops = ["now"]
    spec = special_instants()
    for _ in range(n):
        t = rng.choice(spec) if rng.random() < 0.3 else rng.randint(0, MAXT)
        if 0 <= t + off <= MAXT:
            for f in FMTS:
                for sh in ("full", "short"):
                    ops.append(f"lfmt {off} {hx(zn)} {t} {f} {sh}")
        u = rng.choice(spec) if rng.random() < 0.3 else rng.randint(0, MAXT)
        ops.append(f"diff {t} {u}")
        ops.append(f"diff {u} {t}")
    ops += ["diff 0 0", f"diff {MAXT} 0", f"diff 0 {MAXT}", "now"]
    return ops


def designator_ops(rng, n):
    ops = []
    zones = case_variants("z") + case_variants("ut") + case_variants("utc") + case_variants("gmt")
    for _ in range(n):
        for z in zones:
            t = rng.randint(0, MAXT)
            ops.append(f"parse {hx(body(t, 'rfc') + z)} {rng.choice(['rfc822', 'auto'])}")
        for z in "Zz":
            for sep in "Tt ":
                t = rng.randint(0, MAXT)
                b = body(t, rng.choice(["ext", "basic"])).replace("T", sep)
                ops.append(f"parse {hx(b + z)} {rng.choice(['iso8601', 'iso8601_basic', 'auto'])}")
        # month / weekday names in other cases
        t = rng.randint(0, MAXT)
        b = body(t, "rfc")
        ops.append(f"parse {hx(b.upper() + 'GMT')} rfc822")
        ops.append(f"parse {hx(b.lower() + 'gmt')} auto")
    return ops


def fraction_ops(rng, n):
    ops = []
    for _ in range(n):
        t = rng.randint(0, MAXT)
        frac = rng.choice(".,") + "".join(rng.choice("0123456789") for _ in range(rng.choice([1, 1, 2, 3, 3, 6, 9, 12])))
        h, m = rng.randrange(24), rng.choice([0, 30, 45, rng.randrange(60)])
        tail = rng.choice(["Z", "z", "%s%02d:%02d" % (rng.choice("+-"), h, m), "%s%02d%02d" % (rng.choice("+-"), h, m)])
        ops.append(f"parse {hx(body(t, rng.choice(['ext', 'basic'])) + frac + tail)} {rng.choice(['iso8601', 'iso8601_basic', 'auto'])}")
    return ops


def acc_ops(rng, ts):
    ops = []
    for t in ts:
        ms = rng.choice([0, 0, 1, 500, 999, rng.randrange(1000)])
        ops.append(f"acc {t} {ms}")
        if rng.random() < 0.3:
            ops.append(f"millis {t * 1000 + rng.randrange(1000)}")
    return ops


def mutate(rng, s):
    s = bytearray(s.encode("latin-1"))
    for _ in range(rng.choice([1, 1, 1, 2, 3])):
        r = rng.random()
        pos = rng.randrange(len(s) + 1) if s else 0
        pool = b"0123456789 :-+,.TZtzGMUCgmuc\tabcXYZ/\x00\xff\x80"
        if r < 0.3 and s:
            del s[min(pos, len(s) - 1)]
        elif r < 0.6:
            s.insert(pos, rng.choice(pool))
        elif r < 0.9 and s:
            s[min(pos, len(s) - 1)] = rng.choice(pool)
        else:
            s = s[:pos]
    return bytes(s)


def w_ops(rng, n):
    """out-of-domain / malformed stream: conformance of the transcription only (class W)"""
    ops = []
    allf = FMTS + ["auto"]
    hand = ["15 Jan 2000 00:00:00 GMT", "5 Jan 2000 00:00:00 GMT", "Sat, 01 Jan 00 00:00:00 GMT", "Sat, 01 Jan 99 23:59:59 GMT",
            "Sat, 01 Jan 2000 00:00:00 ", "Sat, 01 Jan 2000 00:00:00", "Sat, 01 Jan 2000 00:00:00 +-1-2", "Sat, 01 Jan 2000 00:00:00 GMT+1",
            "Sat, 01 Jan 2000 00:00:00 Zulu", "Sat, 01 Jan 2000 00:00:00 +12", "Sat, 01 Jan 2000 00:00:00 UTCxx", "Sat, 01 Jan 2000 00:00:00 UTCxxx",
            "Sat, 01 Jan 2000 00:00:00 EST", "Sat, 01 Jan 2000 00:00:00 U", "Sat, 01 Jan 2000 00:00:00 UX", "Sat, 01 Jan 2000 00:00:00 +a1b2",
            "Sat, 01 Jan 2000 00:00:00 +1a2b", "Sat, 01 Jan 2000 00:00:00 ++1+2", "Sat, 01 Jan 2000 00:00:00 -0000", "Sat, 01 Jan 2000 00:00:00 z1234",
            "Saturday, 01 January 2000 00:00:00 GMT", "Sat, 01 Ja 2000 00:00:00 GMT", "Sat, 01 J 2000 00:00:00 GMT", "Sat,\t01\tJan\t2000\t00:00:00\tGMT",
            "Sat, 99999999999 Jan 2000 00:00:00 GMT", "Sat, 4294967297 Jan 2000 00:00:00 GMT", "Sat, 2147483648 Jan 2000 00:00:00 GMT", "Sat, 0 Jan 2000 00:00:00 GMT",
            "Sat, 01 Jan 20000 00:00:00 GMT", "Sat, 01 Jan 200 00:00:00 GMT", "Sat, 01 Jan 2000 0:00:00 GMT", "Sat, 01 Jan 2000 000:00:00 GMT",
            "Sat, 32 Jan 2000 24:60:61 GMT", "Sat, 01 Jan 2000 99:99:99 GMT", ",", ", ", "", "Sat", "Sat,", "Sat, 01", "Sat, 01 Jan", "Sat, 01 Jan 2000",
            "2000-13-45T99:99:99Z", "2000-00-00T00:00:00Z", "0000-01-01T00:00:00+01:00", "0000-01-01T00:00:00Z", "0001-01-01T00:00:00Z", "9999-12-31T23:59:59-99:99",
            "2000-01-01T00:00:00.Z", "2000-01-01T00:00:00.5", "2000-01-01T00:00:00", "2000-01-01T00:00:00Zjunk", "2000-01-01T00:00:00+0100junk",
            "2000-0101T00:00:00Z", "200001-01T00:00:00Z", "2000-01-01T00:0000Z", "2000-01-01T0000:00Z", "2000-01-01 00:00:00Z", "2000-01-01x00:00:00Z",
            "2000-01-01T00:00:00+1:00", "2000-01-01T00:00:00+01", "2000-01-01T00:00:00+01:0", "2000-01-01T", "2000-01-0", "200", "2000-02-30", "20000230",
            "2000-01-01T00:00:00,123456789012345678901234567890123456789012345678901234567890123456789012345678Z",
            "2000-01-01T00:00:00,1234567890123456789012345678901234567890123456789012345678901234567890123456789Z",
            "2000-01-01T00:00:00,12345678901234567890123456789012345678901234567890123456789012345678901234567890Z",
            "A" * 100, "A" * 101, "1" * 100, "Sat, " + "1" * 60 + " Jan 2000 00:00:00 GMT"]
    for s in hand:
        for f in (allf if len(s) < 40 else ["auto", "rfc822", "iso8601"]):
            ops.append(f"w parse {hx(s)} {f}")
    for _ in range(n):
        t = rng.randint(0, MAXT)
        kind = rng.random()
        if kind < 0.5:
            base = py_fmt(t, rng.choice(FMTS), rng.random() < 0.2)
            if rng.random() < 0.5:
                base = base[:-1] + rng.choice(["Z", "+01:00", "-0130", "z", " ", ""]) if base.endswith("Z") else base
            s = mutate(rng, base)
        elif kind < 0.7:
            # out-of-range numeric fields, well-formed shape
            y, mo, d = rng.randrange(10000), rng.randrange(100), rng.randrange(100)
            h, mi, se = rng.randrange(100), rng.randrange(100), rng.randrange(100)
            st = rng.randrange(3)
            if st == 0:
                s = "%04d-%02d-%02dT%02d:%02d:%02dZ" % (y, mo, d, h, mi, se)
            elif st == 1:
                s = "%04d%02d%02dT%02d%02d%02d%s%02d%02d" % (y, mo, d, h, mi, se, rng.choice("+-"), rng.randrange(100), rng.randrange(100))
            else:
                s = "%s, %02d %s %04d %02d:%02d:%02d %s" % (rng.choice(DAYS), d, rng.choice(MONS), y, h, mi, se, rng.choice(["GMT", "UT", "Z", "+0000", "-2359", ""]))
            s = s.encode()
        elif kind < 0.8:
            # 2-digit years and no-weekday forms
            d = civil(t)
            yy = "%02d" % (d.year % 100) if rng.random() < 0.6 else "%04d" % d.year
            pre = rng.choice(["%s, " % DAYS[(d.weekday() + 1) % 7], "", "Xyz, ", "Someday, "])
            s = ("%s%02d %s %s %02d:%02d:%02d %s" % (pre, d.day, MONS[d.month - 1], yy, d.hour, d.minute, d.second, rng.choice(["GMT", "UT", "z", "+0130", "-0800"]))).encode()
        elif kind < 0.9:
            tz = "".join(rng.choice("ZzUuTtCcGgMm+-0123456789aX") for _ in range(rng.randrange(0, 7)))
            s = (body(t, "rfc") + tz).encode()
        else:
            s = bytes(rng.randrange(256) for _ in range(rng.randrange(0, 30)))
        ops.append(f"w parse {hx(s)} {rng.choice(allf)}")
    # formatter outside the property's range / other buffer sizes / auto-detect as a format
    for t in [-1, -86400, -86401, -62135596800, -62135596801, -62167219200, -62167219201, -62198755200, -100000000000, MAXT + 1, MAXT + 86400,
              10**12, 4 * 10**12, -4 * 10**12] + [rng.randint(-3 * 10**11, 10**12) for _ in range(40)]:
        for f in FMTS:
            ops.append(f"w rt {t} {f} {rng.choice(['full', 'short'])} {rng.choice([f, 'auto'])}")
        ops.append(f"w acc {t} 0")
    for t in [0, MAXT, rng.randint(0, MAXT)]:
        for f in FMTS:
            for sh in ("full", "short"):
                ln = len(py_fmt(t, f, sh == "short"))
                for cap in (0, 1, ln - 1, ln, ln + 1, ln + 2):
                    ops.append(f"w fmt {t} {f} {sh} {cap}")
        ops.append(f"w fmt {t} auto full")
        ops.append(f"w fmt {t} auto short")
    for m in ["MAX", "MAX-1", "MAX-999", "MAX-1000", str(2**63), str(2**63 - 1), str((MAXT + 1) * 1000), str(18446744073709), str(18446744073710),
              str(18446744073709551), "0", "999", "1000"]:
        ops.append(f"w millis {m}")
    for t in [18446744073, 18446744074, 20000000000, MAXT]:
        for ms in (0, 1, 999):
            ops.append(f"w acc {t} {ms}")
    return ops


def chunk(ops, n, tags=None):
    return [Case(ops[i:i + n], dict(tags or {})) for i in range(0, len(ops), n)]


P_DIFF_CONCRETE = True


def _diff_policy():
    """a model/implementation difference on a P line is a concrete violation only while the theorems about the
    model check; when the Lean stage fails (e.g. a regenerated format string left the modelled subset) the model
    is no longer the proved one: differences are then conformance drift and the oracle alone names failing inputs"""
    global P_DIFF_CONCRETE
    ctx = _state.get("ctx")
    P_DIFF_CONCRETE = not (ctx is not None and ctx.lean_ok is False)


def gen_cases(rng, tier):
    _diff_policy()
    cases = []
    # known-finding probes (F8): the only cases in which the oracle insists on the RFC 822 date-only round trip
    cases.append(Case(["rt 0 rfc822 short rfc822"], {"known_probe": "F8"}))
    cases.append(Case([f"rt {rng.randint(0, MAXT)} rfc822 short auto"], {"known_probe": "F8"}))
    # 1. boundary instants
    if tier == "thorough":
        years = list(range(1970, 10000))
    else:
        years = list(range(1970, 2101)) + sorted(rng.sample(range(2101, 10000), 900)) + [2400, 9999]
    inst = boundary_instants(years)
    spec = special_instants()
    rnd = [rng.randint(0, MAXT) for _ in range(4000 if tier == "quick" else 60000)]
    rnd += [rng.randint(0, 2**32) for _ in range(1000 if tier == "quick" else 10000)]
    ops = []
    for t in spec:
        ops += rt_ops(t)
    for t in inst:
        ops += rt_ops(t, rng, full=(tier == "thorough" or rng.random() < 0.4))
    for t in rnd:
        ops += rt_ops(t, rng, full=False)
    cases += chunk(ops, 60, {"stream": "roundtrip"})
    cases += chunk(acc_ops(rng, spec + rng.sample(inst, min(len(inst), 3000 if tier == "quick" else 60000)) + rnd[:2000]), 60, {"stream": "acc"})
    cases += chunk(offset_ops(rng, tier), 50, {"stream": "offset"})
    cases += chunk(edge_offset_ops(rng, tier), 50, {"stream": "edge-offset"})
    cases += chunk(nanos_ops(rng, tier), 50, {"stream": "nanos-limit"})
    cases += chunk(append_ops(rng, tier, 3000 if tier == "quick" else 60000), 40, {"stream": "append"})
    cases += chunk(misc_ops(rng, 300 if tier == "quick" else 5000), 50, {"stream": "misc"})
    cases += chunk(double_ops(rng, tier), 50, {"stream": "double-fractions"})
    cases += chunk(mixed_sep_ops(rng, 400 if tier == "quick" else 8000), 50, {"stream": "mixed-separators"})
    cases += chunk(designator_ops(rng, 20 if tier == "quick" else 200), 50, {"stream": "designator"})
    cases += chunk(fraction_ops(rng, 3000 if tier == "quick" else 30000), 50, {"stream": "fraction"})
    cases += chunk(w_ops(rng, 12000 if tier == "quick" else 200000), 50, {"stream": "w"})
    return cases


def gen_cases_tz(rng, tier, tz):
    """runs under a non-UTC process time zone: only texts / calls whose meaning is zone-independent (all six UTC
    formatters x full/date-only x both parse modes, zone-carrying texts incl. zero offsets, UTC accessors, epoch
    views); the model has no time zone, so any dependence of these paths on TZ (gmt_time/local_time or
    timegm/mktime mixed up) shows as a difference"""
    tags = lambda st: {"stream": st, "tz": tz}
    spec = special_instants()
    rnd = [rng.randint(0, MAXT) for _ in range(800 if tier == "quick" else 10000)]
    inst = boundary_instants(sorted(rng.sample(range(1970, 10000), 40 if tier == "quick" else 800)))
    ops = []
    for t in spec:
        ops += rt_ops(t)                       # every formatter, full and date-only, explicit and auto-detect
    for t in inst + rnd:
        ops += rt_ops(t, rng, full=False)
    cases = chunk(ops, 60, tags("tz-roundtrip"))
    cases += chunk(acc_ops(rng, spec + rnd[:800]), 60, tags("tz-acc"))
    zops = []
    for t in [0, 43200, 86399, MAXT, MAXT - 43200] + rnd[:40]:
        for sg in "+-":
            zops.append(f"parse {hx(body(t, 'rfc') + sg + '0000')} {rng.choice(['rfc822', 'auto'])}")
            zops.append(f"parse {hx(body(t, 'ext') + sg + '00:00')} {rng.choice(['iso8601', 'auto'])}")
            zops.append(f"parse {hx(body(t, 'ext') + sg + '0000')} {rng.choice(['iso8601', 'auto'])}")
            zops.append(f"parse {hx(body(t, 'basic') + sg + '0000')} {rng.choice(['iso8601_basic', 'auto'])}")
        for z in ("Z", "z"):
            zops.append(f"parse {hx(body(t, 'ext') + z)} auto")
            zops.append(f"parse {hx(body(t, 'basic') + z)} iso8601_basic")
        for z in ("GMT", "UT", "UTC", "Z", "gmt"):
            zops.append(f"parse {hx(body(t, 'rfc') + z)} rfc822")
        zops.append(f"parse {hx(py_fmt(t, 'iso8601', True))} auto")          # date-only: no zone text, still UTC
        zops.append(f"parse {hx(py_fmt(t, 'iso8601_basic', True))} iso8601_basic")
    cases += chunk(zops, 50, tags("tz-zero-offset"))
    cases += chunk(offset_ops(rng, "quick"), 50, tags("tz-offset"))
    cases += chunk(edge_offset_ops(rng, "quick", n_inst=2), 50, tags("tz-edge-offset"))
    cases += chunk(append_ops(rng, "quick", 300), 40, tags("tz-append"))
    cases += chunk(misc_ops(rng, 150, tz), 50, tags("tz-misc"))
    cases += chunk(designator_ops(rng, 2), 50, tags("tz-designator"))
    return cases


def _tz_stage(ctx, cases, tz):
    global C_ENV
    from lib import core
    saved_env, saved_dist, orig_write = C_ENV, ctx.cov.get("distribution"), ctx.write_replay
    short = re.sub(r"[^A-Za-z0-9]", "", tz)

    def write(name, obj):
        obj = dict(obj)
        if "ops" in obj:            # core replays "ops" under C_ENV; these need the zone: see replay() below
            obj["tz_ops"] = obj.pop("ops")
        obj["process_tz"] = tz
        return orig_write(f"tz{short}-" + name, obj)
    try:
        C_ENV = {"TZ": tz}
        ctx.write_replay = write
        n0 = len(ctx.violations)
        core.correspondence_stage(ctx, cases)
        for k in range(n0, len(ctx.violations)):
            name, text, path, no_input = ctx.violations[k]
            ctx.violations[k] = (name, f"[process TZ={tz}] " + text, path, no_input)
        ctx.notes.append(f"additional correspondence run with TZ={tz} on zone-independent streams ({len(cases)} cases)")
    finally:
        C_ENV = saved_env
        ctx.write_replay = orig_write
        if saved_dist is not None:
            ctx.cov.setdefault("distribution_tz_runs", {})[tz] = ctx.cov.get("distribution")
            ctx.cov["distribution"] = saved_dist


def threads_stage(ctx):
    """6 threads convert different instants concurrently (init_epoch_secs / init_epoch_millis / the UTC formatters /
    a parse with an offset) and compare every result with a table computed single-threaded beforehand: a conversion
    that goes through shared libc state (gmtime / localtime instead of the _r forms) shows as another thread's date"""
    import subprocess, time
    try:
        exe = cbuild.build_harness(name="datetime_threads", flavour="plain")
    except cbuild.BuildError as e:
        ctx.machinery_broken("threads stage build: " + str(e)[:1500])
        return
    its = 60000 if ctx.tier == "quick" else 1500000
    t0 = time.time()
    try:
        r = subprocess.run([exe, str(its)], stdout=subprocess.PIPE, stderr=subprocess.STDOUT, text=True, timeout=600,
                           env=dict(os.environ, TZ="UTC"))
        rc, out = r.returncode, r.stdout
    except subprocess.TimeoutExpired as e:
        rc, out = -999, (e.stdout or "") + "\n[timeout]"
    ctx.cov["threads_stage"] = {"threads": 6, "iterations_per_thread": its, "rc": rc, "wall_s": round(time.time() - t0, 2)}
    ctx.cov["evaluations"] += 1
    if "P threads skipped" in out:
        ctx.cov["threads_stage"]["skipped"] = out.strip().splitlines()[-1][:200]
        ctx.notes.append("threads stage skipped: " + out.strip().splitlines()[-1][:200])
        return
    if rc != 0 or "P threads ok " not in out:
        first = next((l for l in out.splitlines() if "MONITOR" in l), "rc=%d" % rc)
        ctx.violation(f"threads-{ctx.seed}", {"stage": "threads", "cmd": f"TZ=UTC {exe} {its}", "rc": rc, "observed": out[-3000:]},
                      "different instants converted concurrently on 6 threads: a thread got a result that is not its own ("
                      + first[:260] + ")")


def extra_stages(ctx):
    """further correspondence runs with non-UTC process time zones (east and west of UTC); the threads stage"""
    for tz in TZ_ALTS:
        _tz_stage(ctx, gen_cases_tz(ctx.rng, ctx.tier, tz), tz)
    threads_stage(ctx)


def replay(ctx, obj):
    """replay files of the zone runs carry `tz_ops` and `process_tz` (re-run under that zone)"""
    if "tz_ops" in obj:
        _tz_stage(ctx, [Case(obj["tz_ops"], obj.get("tags"))], obj.get("process_tz") or TZ_ALTS[0])
    else:
        import json
        print("replay file carries no op list (it names the obligation that no longer checks):")
        print(json.dumps(obj, indent=1)[:3000])


def nontrivial(case):
    return any(o.startswith(("rt", "parse", "acc", "fmtb")) for o in case.ops)   # "acc" also covers accd


def distribution(cases, c_out):
    d = {"rt": 0, "parse": 0, "fmt": 0, "fmtb": 0, "accd": 0, "lfmt": 0, "diff": 0, "now": 0, "acc": 0, "millis": 0, "w_ops": 0, "parse_ok": 0, "parse_refused": 0,
         "streams": {}}
    for i, c in enumerate(cases):
        s = c.tags.get("stream", "probe")
        d["streams"][s] = d["streams"].get(s, 0) + len(c.ops)
        for o in c.ops:
            t = o.split()
            if t[0] == "w":
                d["w_ops"] += 1
                t = t[1:]
            if t[0] in d:
                d[t[0]] += 1
        for l in c_out.get(i, []):
            if " parse OK " in l:
                d["parse_ok"] += 1
            elif " parse AWS" in l:
                d["parse_refused"] += 1
    return d


MANIFEST = dict(
    category="proof",
    design_ref="5.19",
    text=("Lean 4 theorems over a transcription of date_time.c (RFC 822 state machine, ISO 8601 reader, format dispatch, offset "
          "application, epoch views, accessors) whose format strings, formatter dispatch (which struct tm each case formats), month "
          "compare chain, UTC zone spellings, year bases, zone-buffer sizes and aws_timestamp_convert (clock.inl) are REGENERATED from "
          "/repo on every run and tied to the closed forms by bridge theorems (c19_gen_*), on top of a calendar model: civilFromDays is the inverse, by bounded search, of the "
          "closed-form day count and agrees with an independent recursive calendar for every day; format-then-parse returns the same "
          "instant (or its midnight for date-only text) for every second of 1970-9999, every parseable format and both parse modes; "
          "the formatters append to the output buffer (prefix preserved, len grows by the text, refusal leaves it unchanged); "
          "numeric offsets +-hh:mm / +-hhmm and Z/UT/UTC/GMT in any case are honoured; accessors equal the calendar's fields; "
          "as_millis is exact and as_nanos is exact or saturated at 2^64-1, never wrapped (the plain-add body found first is proved to wrap: c19_nanos_plain_add_wraps). The RFC 822 date-only text is proved NOT parseable (known finding F8). "
          "Tied to /repo by a correspondence run of the compiled model against date_time.c rebuilt from the working tree (TZ=UTC) on every "
          "month boundary +-1 s (thorough: all years 1970-9999), leap days, century cases, extremes, enumerated offsets, fractions, "
          "designator case variants and a malformed stream, plus a direct oracle using Python's datetime."),
    note=("Trusted: Lean kernel; hand-written model Model/DateTime.lean (tied by correspondence only). libc's gmtime_r / timegm / "
          "strftime are modelled (proleptic Gregorian, C locale), not verified: tied by P agreement on the enumerated instants. "
          "Local-time paths (mktime, %Z, localtime_r) and the double arithmetic of init_epoch_secs / as_epoch_secs are outside the "
          "theorems (the latter compared bit-for-bit in the run)."),
    technique="Lean 4 calendar inverse by monotone search + digit print/parse lemmas composed per format + regenerated constants/tables with bridge theorems + model/implementation differential runs under three process time zones",
)
