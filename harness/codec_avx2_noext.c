/* C05: source/arch/intel/encoding_avx2.c compiled in the configuration WITHOUT _mm256_extract_epi64
 * (cmake/AwsSIMD.cmake's probe fails on some toolchains; then config.h does not define
 * AWS_HAVE_MM256_EXTRACT_EPI64 and `decode()` takes the high 8 bytes straight out of the vector variable).
 * config.h is pulled in first (its include guard keeps it from redefining the macro), the macro is removed,
 * the two entry points are renamed and the current source is included.  VERIF_AVX2_SRC is given by props/c05.py. */
#include <aws/common/common.h>
#undef AWS_HAVE_MM256_EXTRACT_EPI64
#define aws_common_private_base64_decode_sse41 noext_aws_common_private_base64_decode_sse41
#define aws_common_private_base64_encode_sse41 noext_aws_common_private_base64_encode_sse41
#include VERIF_AVX2_SRC
#ifdef AWS_HAVE_MM256_EXTRACT_EPI64
#    error "the no-extract configuration was not obtained"
#endif
