/* C02 harness: drives aws_hash_table through an op file (see lean/Driver/HashTable.lean for the
 * op language).  The user hash is looked up in a per-case table ident -> hash, equality is on
 * ident, so equal-but-distinct key pointers exist.  Destructor callbacks log "(k|v):<object>".
 * After every table op the harness prints the sorted contents (P), the slot dump read through
 * private/hash_table_impl.h (W), and evaluates the structural invariant (counts, stored hash,
 * duplicates, Robin Hood condition) directly on the C slots: a failure prints "P MONITOR ...". */
#include "h_common.h"
#include <aws/common/byte_buf.h>
#include <aws/common/hash_table.h>
#include <aws/common/private/hash_table_impl.h>
#include <aws/common/string.h>
#include <inttypes.h>
#include <stdlib.h>
#include <string.h>

#define MAXID 256
#define MAXPTR 4
#define MAXVAL (1 << 20)
#define NTAB 8
#define NITER 8

struct hkey {
    uint32_t ident;
    uint32_t ptr;
};
static struct hkey s_keys[MAXID][MAXPTR];
static uint64_t s_hash[MAXID];
static char s_valbase[MAXVAL + 1]; /* value "v<n>" is &s_valbase[n + 1]; never dereferenced */

static struct aws_hash_table s_tab[NTAB];
static struct {
    struct aws_hash_iter it;
    int tab;
    bool valid;
} s_iter[NITER];

/* ---- rendering ---- */
static void s_fmt_key(char *out, const void *key) {
    if (!key) {
        strcpy(out, "knull");
    } else {
        const struct hkey *k = key;
        HC_CHECK(k >= &s_keys[0][0] && k <= &s_keys[MAXID - 1][MAXPTR - 1]);
        sprintf(out, "k%u.p%u", k->ident, k->ptr);
    }
}
static void s_fmt_val(char *out, const void *val) {
    if (!val) {
        strcpy(out, "vnull");
    } else {
        const char *v = val;
        HC_CHECK(v > s_valbase && v <= s_valbase + MAXVAL);
        sprintf(out, "v%ld", (long)(v - s_valbase - 1));
    }
}
static void s_fmt_kv(char *out, const void *key, const void *val) {
    char a[48], b[48];
    s_fmt_key(a, key);
    s_fmt_val(b, val);
    sprintf(out, "%s=%s", a, b);
}

/* small string lists (destructor log, visits, contents) */
struct slist {
    char (*s)[64];
    size_t n, cap;
};
static void sl_push(struct slist *l, const char *x) {
    if (l->n == l->cap) {
        l->cap = l->cap ? l->cap * 2 : 64;
        l->s = realloc(l->s, l->cap * 64);
        HC_CHECK(l->s);
    }
    strncpy(l->s[l->n], x, 63);
    l->s[l->n][63] = 0;
    l->n++;
}
static int s_cmp(const void *a, const void *b) {
    return strcmp((const char *)a, (const char *)b);
}
static void sl_print(const char *prefix, struct slist *l, bool sorted) {
    fputs(prefix, stdout);
    if (l->n == 0) {
        fputs(" -", stdout);
    } else {
        if (sorted) {
            qsort(l->s, l->n, 64, s_cmp);
        }
        for (size_t i = 0; i < l->n; ++i) {
            putchar(' ');
            fputs(l->s[i], stdout);
        }
    }
    putchar('\n');
}

static struct slist s_dlog, s_visits, s_tmp;
static bool s_quiet; /* case reset: do not log */

/* ---- callbacks given to the table ---- */
static uint64_t s_hash_fn(const void *key) {
    const struct hkey *k = key;
    return s_hash[k->ident];
}
static bool s_eq_fn(const void *a, const void *b) {
    return ((const struct hkey *)a)->ident == ((const struct hkey *)b)->ident;
}
static void s_destroy_key(void *key) {
    if (!s_quiet) {
        char b[64] = "k:";
        s_fmt_key(b + 2, key);
        sl_push(&s_dlog, b);
    }
}
static void s_destroy_val(void *val) {
    if (!s_quiet) {
        char b[64] = "v:";
        s_fmt_val(b + 2, val);
        sl_push(&s_dlog, b);
    }
}

/* the content hashes in the two build configurations of lookup3.inl: the library's own (default), and
 * source/hash_table.c compiled a second time with -DVALGRIND (byte-exact tail of hashlittle2's 32-bit path) and its
 * public symbols prefixed vg_ (props/c02.py: HARNESS.extra_srcs).  Ops ending in `v` use the second set. */
extern uint64_t vg_aws_hash_byte_cursor_ptr(const void *item);
extern uint64_t vg_aws_hash_string(const void *item);
extern uint64_t vg_aws_hash_c_string(const void *item);
extern uint64_t vg_aws_hash_ptr(const void *item);
extern uint64_t vg_aws_hash_combine(uint64_t item1, uint64_t item2);
struct hash_fns {
    uint64_t (*cursor)(const void *);
    uint64_t (*string)(const void *);
    uint64_t (*c_string)(const void *);
    uint64_t (*ptr)(const void *);
    uint64_t (*combine)(uint64_t, uint64_t);
};
static const struct hash_fns s_default_fns = {
    aws_hash_byte_cursor_ptr, aws_hash_string, aws_hash_c_string, aws_hash_ptr, aws_hash_combine};
static const struct hash_fns s_valgrind_fns = {
    vg_aws_hash_byte_cursor_ptr, vg_aws_hash_string, vg_aws_hash_c_string, vg_aws_hash_ptr, vg_aws_hash_combine};
static const struct hash_fns *s_fns(const char *op) {
    return op[strlen(op) - 1] == 'v' ? &s_valgrind_fns : &s_default_fns;
}

/* a value_eq callback that is not pointer equality: values v<n> are equal when n agrees mod 8 (never sees NULL) */
static bool s_val_eq_mod8(const void *a, const void *b) {
    long x = (long)((const char *)a - s_valbase - 1), y = (long)((const char *)b - s_valbase - 1);
    HC_CHECK(a && b);
    return (x % 8) == (y % 8);
}

static void s_print_dlog(void) {
    if (s_dlog.n == 0) {
        puts("P D -");
    } else {
        /* W first needs the unsorted order: copy */
        s_tmp.n = 0;
        for (size_t i = 0; i < s_dlog.n; ++i) {
            sl_push(&s_tmp, s_dlog.s[i]);
        }
        sl_print("P D", &s_dlog, true);
        sl_print("W D", &s_tmp, false);
    }
    s_dlog.n = 0;
}

/* ---- property monitor on the C slots ---- */
static uint64_t s_expected_hash(const void *key) {
    if (!key) {
        return 42;
    }
    uint64_t h = s_hash[((const struct hkey *)key)->ident];
    return h ? h : 1;
}

static void s_monitor(const char *name, struct aws_hash_table *t) {
    struct hash_table_state *st = t->p_impl;
    const char *bad = NULL;
    size_t occ = 0;
    if (st->size < 2 || (st->size & (st->size - 1)) || st->mask != st->size - 1) {
        bad = "size-not-power-of-two-or-mask";
    } else if (!(st->max_load < st->size)) {
        bad = "max_load>=size";
    }
    for (size_t i = 0; !bad && i < st->size; ++i) {
        struct hash_table_entry *e = &st->slots[i];
        if (!e->hash_code) {
            continue;
        }
        ++occ;
        if (e->hash_code != s_expected_hash(e->element.key)) {
            bad = "stored-hash-differs-from-hash-of-key";
            break;
        }
        size_t d = (size_t)(i - e->hash_code) & st->mask;
        if (d > 0) {
            struct hash_table_entry *p = &st->slots[(i - 1) & st->mask];
            if (!p->hash_code) {
                bad = "robin-hood:displaced-entry-after-empty-slot";
                break;
            }
            size_t dp = (size_t)(((i - 1) & st->mask) - p->hash_code) & st->mask;
            if (dp + 1 < d) {
                bad = "robin-hood:displacement-jumps-by-more-than-one";
                break;
            }
        }
        for (size_t j = i + 1; j < st->size; ++j) {
            struct hash_table_entry *f = &st->slots[j];
            if (f->hash_code && (e->element.key == f->element.key ||
                                 (e->element.key && f->element.key && s_eq_fn(e->element.key, f->element.key)))) {
                bad = "duplicate-key";
            }
        }
    }
    if (!bad && occ != st->entry_count) {
        bad = "entry_count!=occupied-slots";
    }
    if (!bad && st->entry_count > st->max_load) {
        bad = "entry_count>max_load";
    }
    if (!bad && !aws_hash_table_is_valid(t)) {
        bad = "aws_hash_table_is_valid-rejects-a-well-formed-table";
    }
    if (bad) {
        printf("P MONITOR %s %s\n", name, bad);
    }
}

static void s_state_lines(const char *name, struct aws_hash_table *t) {
    if (!t->p_impl) {
        printf("P C %s nil\n", name);
        return;
    }
    struct hash_table_state *st = t->p_impl;
    s_tmp.n = 0;
    for (size_t i = 0; i < st->size; ++i) {
        if (st->slots[i].hash_code) {
            char b[128];
            s_fmt_kv(b, st->slots[i].element.key, st->slots[i].element.value);
            sl_push(&s_tmp, b);
        }
    }
    char pre[64];
    snprintf(pre, sizeof pre, "P C %s n=%zu", name, aws_hash_table_get_entry_count(t));
    sl_print(pre, &s_tmp, true);
    printf("W S %s size=%zu max=%zu mask=%zu cnt=%zu", name, st->size, st->max_load, st->mask, st->entry_count);
    bool any = false;
    for (size_t i = 0; i < st->size; ++i) {
        if (st->slots[i].hash_code) {
            char b[128];
            s_fmt_kv(b, st->slots[i].element.key, st->slots[i].element.value);
            printf(" %zu:%016" PRIx64 ":%s", i, st->slots[i].hash_code, b);
            any = true;
        }
    }
    puts(any ? "" : " -");
    s_monitor(name, t);
}

/* ---- parsing ---- */
static int s_tab_idx(const char *s) {
    if (s[0] != 't' || !s[1]) {
        return -1;
    }
    int n = atoi(s + 1);
    return (n >= 0 && n < NTAB) ? n : -1;
}
static int s_iter_idx(const char *s) {
    if (s[0] != 'i' || !s[1]) {
        return -1;
    }
    int n = atoi(s + 1);
    return (n >= 0 && n < NITER) ? n : -1;
}
static bool s_parse_key(const char *s, const void **out) {
    if (!strcmp(s, "knull")) {
        *out = NULL;
        return true;
    }
    unsigned i, p;
    if (sscanf(s, "k%u.p%u", &i, &p) != 2 || i >= MAXID || p >= MAXPTR) {
        return false;
    }
    *out = &s_keys[i][p];
    return true;
}
static bool s_parse_val(const char *s, void **out) {
    if (!strcmp(s, "vnull")) {
        *out = NULL;
        return true;
    }
    unsigned long n;
    if (sscanf(s, "v%lu", &n) != 1 || n >= MAXVAL) {
        return false;
    }
    *out = &s_valbase[n + 1];
    return true;
}

static void s_stale(int tab, int keep) {
    for (int i = 0; i < NITER; ++i) {
        if (s_iter[i].tab == tab && i != keep) {
            s_iter[i].valid = false;
        }
    }
}

static const int s_poison = 0;

/* ---- tables keyed through the library's own hash / equality pairs ("typed" table, one at a time) and direct pair
 * checks.  kinds: str (aws_string: aws_hash_string / aws_hash_callback_string_eq / aws_hash_callback_string_destroy),
 * cstr (aws_hash_c_string / aws_hash_callback_c_str_eq), cur (aws_hash_byte_cursor_ptr / aws_byte_cursor_eq),
 * u64 (aws_hash_uint64_t_by_identity / aws_hash_compare_uint64_t_eq), ptr (aws_hash_ptr / aws_ptr_eq). ---- */
enum tkind { TK_NONE, TK_STR, TK_CSTR, TK_CUR, TK_U64, TK_PTR };
static struct aws_hash_table s_tt;
static enum tkind s_tt_kind;
/* harness-owned key storage (cstr / cur / u64 kinds), freed at case reset */
static void **s_arena;
static size_t s_arena_n, s_arena_cap, s_arena_rot;
static void *s_arena_alloc(size_t n) {
    if (s_arena_n == s_arena_cap) {
        s_arena_cap = s_arena_cap ? 2 * s_arena_cap : 64;
        s_arena = realloc(s_arena, s_arena_cap * sizeof(void *));
        HC_CHECK(s_arena);
    }
    void *p = malloc(n ? n : 1);
    HC_CHECK(p);
    s_arena[s_arena_n++] = p;
    return p;
}
static void s_arena_reset(void) {
    for (size_t i = 0; i < s_arena_n; ++i) {
        free(s_arena[i]);
    }
    s_arena_n = 0;
}
static enum tkind s_parse_kind(const char *s) {
    return !strcmp(s, "str") ? TK_STR : !strcmp(s, "cstr") ? TK_CSTR : !strcmp(s, "cur") ? TK_CUR
         : !strcmp(s, "u64") ? TK_U64 : !strcmp(s, "ptr") ? TK_PTR : TK_NONE;
}
static bool s_cursor_eq_cb(const void *a, const void *b) {
    return aws_byte_cursor_eq(a, b);
}
/* make a key object of the given kind from the token; `owned` = the table will own (and destroy) it */
static const void *s_make_key(enum tkind k, const char *tok, bool *needs_destroy) {
    *needs_destroy = false;
    if (k == TK_U64) {
        uint64_t *p = s_arena_alloc(sizeof(uint64_t));
        *p = strtoull(tok, NULL, 16);
        return p;
    }
    if (k == TK_PTR) {
        return (const void *)(uintptr_t)strtoull(tok, NULL, 16);
    }
    size_t len;
    uint8_t *bytes = hc_hex_decode(tok, &len);
    const void *res;
    if (k == TK_STR) {
        res = aws_string_new_from_array(hc_allocator(), bytes, len);
        HC_CHECK(res);
        *needs_destroy = true;
    } else {
        size_t off = (s_arena_rot++) & 3; /* every copy of a key lives at another alignment */
        uint8_t *buf = s_arena_alloc(len + 8);
        memset(buf, 0xC3, len + 8);
        memcpy(buf + off, bytes, len);
        if (k == TK_CSTR) {
            buf[off + len] = 0;
            res = buf + off;
        } else {
            struct aws_byte_cursor *c = s_arena_alloc(sizeof(*c));
            c->ptr = len ? buf + off : NULL;
            c->len = len;
            res = c;
        }
    }
    free(bytes);
    return res;
}
static void s_fmt_tkey(char *out, size_t cap, enum tkind k, const void *key) {
    if (k == TK_U64) {
        snprintf(out, cap, "%" PRIx64, *(const uint64_t *)key);
    } else if (k == TK_PTR) {
        snprintf(out, cap, "%" PRIx64, (uint64_t)(uintptr_t)key);
    } else {
        const uint8_t *p;
        size_t n;
        if (k == TK_STR) {
            p = aws_string_bytes(key);
            n = ((const struct aws_string *)key)->len;
        } else if (k == TK_CSTR) {
            p = key;
            n = strlen(key);
        } else {
            p = ((const struct aws_byte_cursor *)key)->ptr;
            n = ((const struct aws_byte_cursor *)key)->len;
        }
        if (n == 0) {
            snprintf(out, cap, "-");
        } else {
            size_t w = 0;
            for (size_t i = 0; i < n && w + 3 < cap; ++i) {
                w += (size_t)snprintf(out + w, cap - w, "%02x", p[i]);
            }
        }
    }
}
static struct slist s_tc;
static void s_typed_state(void) {
    /* contents through the public iterator, sorted; count; structural monitor with the table's own hash function */
    s_tc.n = 0;
    size_t visited = 0;
    for (struct aws_hash_iter it = aws_hash_iter_begin(&s_tt); !aws_hash_iter_done(&it); aws_hash_iter_next(&it)) {
        char kb[40], vb[48], line[64];
        s_fmt_tkey(kb, sizeof kb, s_tt_kind, it.element.key);
        s_fmt_val(vb, it.element.value);
        snprintf(line, sizeof line, "%.30s=%s", kb, vb);
        sl_push(&s_tc, line);
        ++visited;
    }
    char pre[48];
    snprintf(pre, sizeof pre, "P TC n=%zu", aws_hash_table_get_entry_count(&s_tt));
    sl_print(pre, &s_tc, true);
    struct hash_table_state *st = s_tt.p_impl;
    const char *bad = NULL;
    size_t occ = 0;
    for (size_t i = 0; i < st->size; ++i) {
        struct hash_table_entry *e = &st->slots[i];
        if (!e->hash_code) {
            continue;
        }
        ++occ;
        uint64_t want = e->element.key ? st->hash_fn(e->element.key) : 42;
        if (e->element.key && !want) {
            want = 1;
        }
        if (e->hash_code != want) {
            bad = "stored-hash-differs-from-hash-of-key";
        }
        size_t d = (size_t)(i - e->hash_code) & st->mask;
        if (d > 0) {
            struct hash_table_entry *p = &st->slots[(i - 1) & st->mask];
            if (!p->hash_code || ((size_t)(((i - 1) & st->mask) - p->hash_code) & st->mask) + 1 < d) {
                bad = "robin-hood";
            }
        }
    }
    if (occ != st->entry_count || visited != occ || st->entry_count > st->max_load || !aws_hash_table_is_valid(&s_tt)) {
        bad = "count / is_valid";
    }
    if (bad) {
        printf("P MONITOR typed-table %s\n", bad);
    }
}

static void s_reset(void) {
    s_quiet = true;
    for (int i = 0; i < NTAB; ++i) {
        aws_hash_table_clean_up(&s_tab[i]);
    }
    if (s_tt_kind != TK_NONE) {
        aws_hash_table_clean_up(&s_tt);
        s_tt_kind = TK_NONE;
    }
    s_arena_reset();
    s_quiet = false;
    memset(s_hash, 0, sizeof s_hash);
    for (int i = 0; i < NITER; ++i) {
        s_iter[i].valid = false;
        s_iter[i].tab = -1;
    }
    s_dlog.n = s_visits.n = 0;
}

static void s_print_iter(struct aws_hash_iter *it) {
    switch (it->status) {
        case AWS_HASH_ITER_STATUS_DONE:
            puts("P iter done");
            break;
        case AWS_HASH_ITER_STATUS_DELETE_CALLED:
            puts("P iter deleted");
            break;
        case AWS_HASH_ITER_STATUS_READY_FOR_USE: {
            char b[128];
            s_fmt_kv(b, it->element.key, it->element.value);
            printf("P iter ready %s\n", b);
            break;
        }
        default:
            puts("P iter badstatus");
    }
    printf("W iter slot=%zu limit=%zu\n", it->slot, it->limit);
    if (!aws_hash_iter_is_valid(it)) {
        puts("P MONITOR aws_hash_iter_is_valid rejects an iterator the API just produced");
    }
}

/* foreach callback: flag word per ident */
static int s_flags[MAXID];
static int s_foreach_cb(void *ctx, struct aws_hash_element *el) {
    (void)ctx;
    char b[128];
    s_fmt_kv(b, el->key, el->value);
    sl_push(&s_visits, b);
    if (!el->key) {
        return AWS_COMMON_HASH_TABLE_ITER_CONTINUE;
    }
    return s_flags[((const struct hkey *)el->key)->ident];
}

int main(void) {
    char *t[HC_MAX_TOKS];
    int n;
    aws_common_library_init(hc_allocator());
    for (unsigned i = 0; i < MAXID; ++i) {
        for (unsigned p = 0; p < MAXPTR; ++p) {
            s_keys[i][p].ident = i;
            s_keys[i][p].ptr = p;
        }
    }
    for (int i = 0; i < NITER; ++i) {
        s_iter[i].tab = -1;
    }
    long baseline = hc_live_blocks();
    while ((n = hc_next_line(t)) >= 0) {
        int a, b;
        const void *key;
        void *val;
        if (!strcmp(t[0], "case")) {
            s_reset();
            hc_case_begin(t[1]);
            if (hc_live_blocks() != baseline) {
                printf("P MONITOR leak live_blocks=%ld\n", hc_live_blocks() - baseline);
                baseline = hc_live_blocks();
            }
        } else if (!strcmp(t[0], "hash") && n == 3) {
            unsigned id;
            if (sscanf(t[1], "k%u", &id) != 1 || id >= MAXID) {
                puts("bad-op");
                continue;
            }
            s_hash[id] = strtoull(t[2], NULL, 16);
        } else if (!strcmp(t[0], "hashic") && n == 2) {
            size_t len;
            uint8_t *p = hc_hex_decode(t[1], &len);
            struct aws_byte_cursor c = {.len = len, .ptr = len ? p : NULL};
            printf("W hashic %016" PRIx64 "\n", aws_hash_byte_cursor_ptr_ignore_case(&c));
            free(p);
        } else if ((!strcmp(t[0], "hl2") || !strcmp(t[0], "hl2v")) && n == 2) {
            /* content hashes with the key placed at every alignment mod 4: exercises the 32-bit, 16-bit and
             * byte paths of hashlittle2 against the byte-wise model */
            const struct hash_fns *hf = s_fns(t[0]);
            size_t len;
            uint8_t *p = hc_hex_decode(t[1], &len);
            uint8_t *buf = malloc(len + 16);
            HC_CHECK(buf && ((uintptr_t)buf & 3) == 0);
            uint64_t hc[4], hs, hz[4];
            for (int off = 0; off < 4; ++off) {
                memset(buf, 0xEE, len + 16);
                memcpy(buf + off, p, len);
                struct aws_byte_cursor c = {.len = len, .ptr = (len == 0 && off == 0) ? NULL : buf + off};
                hc[off] = hf->cursor(&c);
            }
            struct aws_string *str = aws_string_new_from_array(hc_allocator(), p, len);
            HC_CHECK(str);
            hs = hf->string(str);
            aws_string_destroy(str);
            for (int off = 0; off < 4; ++off) {
                memset(buf, 0xEE, len + 16);
                memcpy(buf + off, p, len);
                buf[off + len] = 0;
                hz[off] = hf->c_string((const char *)(buf + off));
            }
            /* property monitor: equal contents hash equally wherever they are stored */
            bool same = hc[0] == hc[1] && hc[1] == hc[2] && hc[2] == hc[3] && hc[0] == hs && hz[0] == hz[1] &&
                        hz[1] == hz[2] && hz[2] == hz[3] && (memchr(p, 0, len) != NULL || hz[0] == hs);
            printf("P %s consistent=%d\n", t[0], (int)same);
            printf(
                "W %s cur=%016" PRIx64 ",%016" PRIx64 ",%016" PRIx64 ",%016" PRIx64 " str=%016" PRIx64
                " cstr=%016" PRIx64 ",%016" PRIx64 ",%016" PRIx64 ",%016" PRIx64 "\n",
                t[0], hc[0], hc[1], hc[2], hc[3], hs, hz[0], hz[1], hz[2], hz[3]);
            free(buf);
            free(p);
        } else if ((!strcmp(t[0], "hl2s") || !strcmp(t[0], "hl2sv")) && n == 3) {
            /* the key as a sub-view of a larger buffer: the bytes FOLLOWING the key vary (given bytes, 0x00, 0xFF, 0x0F,
             * 0xF0 fills), at every alignment mod 4.  hashlittle2's 32-bit path loads whole words in its tail and masks
             * the bytes behind the key off: equal keys must hash equally regardless of their surroundings. */
            const struct hash_fns *hf = s_fns(t[0]);
            size_t len, alen;
            uint8_t *p = hc_hex_decode(t[1], &len);
            uint8_t *af = hc_hex_decode(t[2], &alen);
            uint8_t *buf = malloc(len + alen + 24);
            HC_CHECK(buf && ((uintptr_t)buf & 3) == 0);
            static const uint8_t fills[4] = {0x00, 0xFF, 0x0F, 0xF0};
            uint64_t hg[4], hzg[4];
            bool same = true;
            for (int off = 0; off < 4; ++off) {
                for (int v = 0; v < 5; ++v) {
                    memset(buf, v ? fills[v - 1] : 0xA5, len + alen + 24);
                    memcpy(buf + off, p, len);
                    if (v == 0) {
                        memcpy(buf + off + len, af, alen);
                    }
                    struct aws_byte_cursor c = {.len = len, .ptr = buf + off};
                    uint64_t h = hf->cursor(&c);
                    if (v == 0) {
                        hg[off] = h;
                    }
                    same = same && h == hg[0];
                    /* C string: the terminating NUL, then the varying bytes */
                    if (memchr(p, 0, len) == NULL) {
                        buf[off + len] = 0;
                        if (v == 0 && alen > 0) {
                            memcpy(buf + off + len + 1, af, alen);
                        }
                        uint64_t hz = hf->c_string((const char *)(buf + off));
                        if (v == 0) {
                            hzg[off] = hz;
                        }
                        same = same && hz == hg[0];
                    } else if (v == 0) {
                        hzg[off] = 0;
                    }
                }
            }
            printf("P %s consistent=%d\n", t[0], (int)same);
            printf(
                "W %s cur=%016" PRIx64 ",%016" PRIx64 ",%016" PRIx64 ",%016" PRIx64 "\n", t[0], hg[0], hg[1], hg[2], hg[3]);
            (void)hzg;
            free(buf);
            free(p);
            free(af);
        } else if ((!strcmp(t[0], "hptr") || !strcmp(t[0], "hptrv")) && n == 2) {
            printf("W %s %016" PRIx64 "\n", t[0], s_fns(t[0])->ptr((const void *)(uintptr_t)strtoull(t[1], NULL, 16)));
        } else if ((!strcmp(t[0], "hcomb") || !strcmp(t[0], "hcombv")) && n == 3) {
            printf("W %s %016" PRIx64 "\n", t[0], s_fns(t[0])->combine(strtoull(t[1], NULL, 16), strtoull(t[2], NULL, 16)));
        } else if (!strcmp(t[0], "eqic") && n == 3) {
            size_t la, lb;
            uint8_t *pa = hc_hex_decode(t[1], &la), *pb = hc_hex_decode(t[2], &lb);
            struct aws_byte_cursor ca = {.len = la, .ptr = la ? pa : NULL}, cb = {.len = lb, .ptr = lb ? pb : NULL};
            printf(
                "P eqic %d hasheq=%d\n",
                (int)aws_byte_cursor_eq_ignore_case(&ca, &cb),
                (int)(aws_hash_byte_cursor_ptr_ignore_case(&ca) == aws_hash_byte_cursor_ptr_ignore_case(&cb)));
            free(pa);
            free(pb);
        } else if (!strcmp(t[0], "init") && n == 4 && (a = s_tab_idx(t[1])) >= 0) {
            bool dk = strchr(t[3], 'k') != NULL, dv = strchr(t[3], 'v') != NULL;
            if (strcmp(t[3], "kv") && strcmp(t[3], "k") && strcmp(t[3], "v") && strcmp(t[3], "-")) {
                puts("bad-op");
                continue;
            }
            if (s_tab[a].p_impl) {
                puts("P init refused");
                continue;
            }
            int rc = aws_hash_table_init(
                &s_tab[a],
                hc_allocator(),
                hc_parse_size(t[2]),
                s_hash_fn,
                s_eq_fn,
                dk ? s_destroy_key : NULL,
                dv ? s_destroy_val : NULL);
            if (rc) {
                s_tab[a].p_impl = NULL;
                printf("P init %s\n", hc_last_error_name());
            } else {
                s_stale(a, -1);
                puts("P init OK");
                s_state_lines(t[1], &s_tab[a]);
            }
        } else if (!strcmp(t[0], "put") && n == 4 && (a = s_tab_idx(t[1])) >= 0 && s_parse_key(t[2], &key) &&
                   s_parse_val(t[3], &val)) {
            if (!s_tab[a].p_impl) {
                puts("P nil");
                continue;
            }
            int created = -1;
            int rc = aws_hash_table_put(&s_tab[a], key, val, &created);
            s_stale(a, -1);
            if (rc) {
                printf("P put %s\n", hc_last_error_name());
            } else {
                printf("P put OK created=%d\n", created);
                s_print_dlog();
                s_state_lines(t[1], &s_tab[a]);
            }
        } else if (!strcmp(t[0], "putn") && n == 4 && (a = s_tab_idx(t[1])) >= 0 && s_parse_key(t[2], &key) &&
                   s_parse_val(t[3], &val)) {
            /* the optional out-parameters left out: put(map, key, value, NULL) */
            if (!s_tab[a].p_impl) {
                puts("P nil");
                continue;
            }
            int rc = aws_hash_table_put(&s_tab[a], key, val, NULL);
            s_stale(a, -1);
            if (rc) {
                printf("P putn %s\n", hc_last_error_name());
            } else {
                puts("P putn OK");
                s_print_dlog();
                s_state_lines(t[1], &s_tab[a]);
            }
        } else if (!strcmp(t[0], "createn") && n == 4 && (a = s_tab_idx(t[1])) >= 0 && s_parse_key(t[2], &key) &&
                   (!strcmp(t[3], "e") || !strcmp(t[3], "c") || !strcmp(t[3], "-"))) {
            /* create with p_elem and / or was_created NULL: e = only p_elem passed, c = only was_created passed, - = neither */
            if (!s_tab[a].p_impl) {
                puts("P nil");
                continue;
            }
            int created = -1;
            struct aws_hash_element *el = NULL;
            int rc = aws_hash_table_create(&s_tab[a], key, t[3][0] == 'e' ? &el : NULL, t[3][0] == 'c' ? &created : NULL);
            s_stale(a, -1);
            if (rc) {
                printf("P createn %s\n", hc_last_error_name());
            } else {
                char bb[128] = "-";
                if (t[3][0] == 'e') {
                    s_fmt_kv(bb, el->key, el->value);
                }
                if (t[3][0] == 'c') {
                    printf("P createn OK created=%d %s\n", created, bb);
                } else {
                    printf("P createn OK created=? %s\n", bb);
                }
                s_state_lines(t[1], &s_tab[a]);
            }
        } else if (!strcmp(t[0], "removen") && n == 4 && (a = s_tab_idx(t[1])) >= 0 && s_parse_key(t[2], &key) &&
                   (!strcmp(t[3], "out") || !strcmp(t[3], "noout"))) {
            /* remove(map, key, p_value or NULL, NULL): was_present left out */
            if (!s_tab[a].p_impl) {
                puts("P nil");
                continue;
            }
            bool want = !strcmp(t[3], "out");
            struct aws_hash_element out;
            AWS_ZERO_STRUCT(out);
            HC_CHECK(aws_hash_table_remove(&s_tab[a], key, want ? &out : NULL, NULL) == AWS_OP_SUCCESS);
            s_stale(a, -1);
            if (want && (out.key || out.value)) {
                char bb[128];
                s_fmt_kv(bb, out.key, out.value);
                printf("P removen %s\n", bb);
            } else {
                puts("P removen -");
            }
            s_print_dlog();
            s_state_lines(t[1], &s_tab[a]);
        } else if (!strcmp(t[0], "create") && n == 3 && (a = s_tab_idx(t[1])) >= 0 && s_parse_key(t[2], &key)) {
            if (!s_tab[a].p_impl) {
                puts("P nil");
                continue;
            }
            int created = -1;
            struct aws_hash_element *el = NULL;
            int rc = aws_hash_table_create(&s_tab[a], key, &el, &created);
            s_stale(a, -1);
            if (rc) {
                printf("P create %s\n", hc_last_error_name());
            } else {
                char bb[128];
                s_fmt_kv(bb, el->key, el->value);
                printf("P create OK created=%d %s\n", created, bb);
                s_state_lines(t[1], &s_tab[a]);
            }
        } else if (!strcmp(t[0], "find") && n == 3 && (a = s_tab_idx(t[1])) >= 0 && s_parse_key(t[2], &key)) {
            if (!s_tab[a].p_impl) {
                puts("P nil");
                continue;
            }
            struct aws_hash_element *el = (struct aws_hash_element *)&s_poison; /* a miss must store NULL */
            aws_hash_table_find(&s_tab[a], key, &el);
            if (el == (struct aws_hash_element *)&s_poison) {
                puts("P MONITOR find left *p_elem untouched");
                el = NULL;
            }
            if (el) {
                char bb[128];
                s_fmt_kv(bb, el->key, el->value);
                printf("P find %s\n", bb);
            } else {
                puts("P find none");
            }
        } else if (!strcmp(t[0], "remove") && n == 4 && (a = s_tab_idx(t[1])) >= 0 && s_parse_key(t[2], &key) &&
                   (!strcmp(t[3], "out") || !strcmp(t[3], "noout"))) {
            if (!s_tab[a].p_impl) {
                puts("P nil");
                continue;
            }
            bool want = !strcmp(t[3], "out");
            struct aws_hash_element out;
            int present = -1;
            AWS_ZERO_STRUCT(out);
            int rc = aws_hash_table_remove(&s_tab[a], key, want ? &out : NULL, &present);
            s_stale(a, -1);
            HC_CHECK(rc == AWS_OP_SUCCESS);
            if (want && present) {
                char bb[128];
                s_fmt_kv(bb, out.key, out.value);
                printf("P remove present=%d %s\n", present, bb);
            } else {
                printf("P remove present=%d -\n", present);
            }
            s_print_dlog();
            s_state_lines(t[1], &s_tab[a]);
        } else if (!strcmp(t[0], "remel") && n == 3 && (a = s_tab_idx(t[1])) >= 0 && s_parse_key(t[2], &key)) {
            if (!s_tab[a].p_impl) {
                puts("P nil");
                continue;
            }
            struct aws_hash_element *el = (struct aws_hash_element *)&s_poison;
            aws_hash_table_find(&s_tab[a], key, &el);
            if (el == (struct aws_hash_element *)&s_poison) {
                puts("P MONITOR find left *p_elem untouched");
                el = NULL;
            }
            if (!el) {
                puts("P remel 0");
            } else {
                HC_CHECK(aws_hash_table_remove_element(&s_tab[a], el) == AWS_OP_SUCCESS);
                s_stale(a, -1);
                puts("P remel 1");
                s_print_dlog();
                s_state_lines(t[1], &s_tab[a]);
            }
        } else if (!strcmp(t[0], "clear") && n == 2 && (a = s_tab_idx(t[1])) >= 0) {
            if (!s_tab[a].p_impl) {
                puts("P nil");
                continue;
            }
            aws_hash_table_clear(&s_tab[a]);
            s_stale(a, -1);
            puts("P clear");
            s_print_dlog();
            s_state_lines(t[1], &s_tab[a]);
        } else if (!strcmp(t[0], "cleanup") && n == 2 && (a = s_tab_idx(t[1])) >= 0) {
            if (!s_tab[a].p_impl) {
                aws_hash_table_clean_up(&s_tab[a]); /* idempotent */
                puts("P cleanup nil");
                continue;
            }
            aws_hash_table_clean_up(&s_tab[a]);
            s_stale(a, -1);
            puts("P cleanup");
            s_print_dlog();
            s_state_lines(t[1], &s_tab[a]);
        } else if (!strcmp(t[0], "count") && n == 2 && (a = s_tab_idx(t[1])) >= 0) {
            if (!s_tab[a].p_impl) {
                puts("P nil");
                continue;
            }
            printf("P count %zu\n", aws_hash_table_get_entry_count(&s_tab[a]));
        } else if (!strcmp(t[0], "swap") && n == 3 && (a = s_tab_idx(t[1])) >= 0 && (b = s_tab_idx(t[2])) >= 0 && a != b) {
            aws_hash_table_swap(&s_tab[a], &s_tab[b]);
            s_stale(a, -1);
            s_stale(b, -1);
            puts("P swap");
            s_state_lines(t[1], &s_tab[a]);
            s_state_lines(t[2], &s_tab[b]);
        } else if (!strcmp(t[0], "move") && n == 3 && (a = s_tab_idx(t[1])) >= 0 && (b = s_tab_idx(t[2])) >= 0 && a != b) {
            if (s_tab[a].p_impl || !s_tab[b].p_impl) {
                puts("P move refused");
                continue;
            }
            aws_hash_table_move(&s_tab[a], &s_tab[b]);
            s_stale(a, -1);
            s_stale(b, -1);
            puts("P move");
            s_state_lines(t[1], &s_tab[a]);
            s_state_lines(t[2], &s_tab[b]);
        } else if ((!strcmp(t[0], "eq") || !strcmp(t[0], "eqm")) && n == 3 && (a = s_tab_idx(t[1])) >= 0 &&
                   (b = s_tab_idx(t[2])) >= 0) {
            if (!s_tab[a].p_impl || !s_tab[b].p_impl) {
                puts("P nil");
                continue;
            }
            bool m8 = !strcmp(t[0], "eqm");
            printf("P %s %d\n", t[0], (int)aws_hash_table_eq(&s_tab[a], &s_tab[b], m8 ? s_val_eq_mod8 : aws_ptr_eq));
        } else if (!strcmp(t[0], "iter_begin") && n == 3 && (a = s_tab_idx(t[1])) >= 0 && (b = s_iter_idx(t[2])) >= 0) {
            if (!s_tab[a].p_impl) {
                puts("P nil");
                continue;
            }
            s_iter[b].it = aws_hash_iter_begin(&s_tab[a]);
            s_iter[b].tab = a;
            s_iter[b].valid = true;
            s_print_iter(&s_iter[b].it);
        } else if (!strcmp(t[0], "iter_next") && n == 2 && (b = s_iter_idx(t[1])) >= 0) {
            if (!s_iter[b].valid || !s_tab[s_iter[b].tab].p_impl) {
                puts("P iter stale");
                continue;
            }
            aws_hash_iter_next(&s_iter[b].it);
            s_print_iter(&s_iter[b].it);
        } else if (!strcmp(t[0], "iter_done") && n == 2 && (b = s_iter_idx(t[1])) >= 0) {
            if (!s_iter[b].valid) {
                puts("P iter stale");
                continue;
            }
            printf("P iter_done %d\n", (int)aws_hash_iter_done(&s_iter[b].it));
        } else if (
            !strcmp(t[0], "iter_delete") && n == 3 && (b = s_iter_idx(t[1])) >= 0 &&
            (!strcmp(t[2], "destroy") || !strcmp(t[2], "keep"))) {
            if (!s_iter[b].valid || !s_tab[s_iter[b].tab].p_impl) {
                puts("P iter stale");
                continue;
            }
            if (s_iter[b].it.status != AWS_HASH_ITER_STATUS_READY_FOR_USE) {
                puts("P iter notready");
                continue;
            }
            a = s_iter[b].tab;
            aws_hash_iter_delete(&s_iter[b].it, !strcmp(t[2], "destroy"));
            s_stale(a, b);
            s_print_iter(&s_iter[b].it);
            s_print_dlog();
            char nm[16];
            snprintf(nm, sizeof nm, "t%d", a);
            s_state_lines(nm, &s_tab[a]);
        } else if (!strcmp(t[0], "foreach") && n >= 2 && (a = s_tab_idx(t[1])) >= 0) {
            bool okp = true;
            for (int i = 0; i < MAXID; ++i) {
                s_flags[i] = AWS_COMMON_HASH_TABLE_ITER_CONTINUE;
            }
            for (int i = 2; i < n; ++i) {
                unsigned id, fl;
                if (sscanf(t[i], "k%u:%u", &id, &fl) != 2 || id >= MAXID) {
                    okp = false;
                    break;
                }
                s_flags[id] = (int)fl;
            }
            if (!okp) {
                puts("bad-op");
                continue;
            }
            if (!s_tab[a].p_impl) {
                puts("P nil");
                continue;
            }
            s_visits.n = 0;
            aws_reset_error();
            int rc = aws_hash_table_foreach(&s_tab[a], s_foreach_cb, NULL);
            s_stale(a, -1);
            printf("P foreach %s\n", hc_err(rc));
            s_tmp.n = 0;
            for (size_t i = 0; i < s_visits.n; ++i) {
                sl_push(&s_tmp, s_visits.s[i]);
            }
            struct slist ordered = s_tmp; /* s_state_lines reuses s_tmp: print first */
            sl_print("P V", &s_visits, true);
            sl_print("W V", &ordered, false);
            s_state_lines(t[1], &s_tab[a]);
        } else if (!strcmp(t[0], "tinit") && n == 3) {
            enum tkind k = s_parse_kind(t[1]);
            if (k == TK_NONE) {
                puts("bad-op");
                continue;
            }
            if (s_tt_kind != TK_NONE) {
                puts("P tinit refused");
                continue;
            }
            int rc = aws_hash_table_init(
                &s_tt,
                hc_allocator(),
                hc_parse_size(t[2]),
                k == TK_STR    ? aws_hash_string
                : k == TK_CSTR ? aws_hash_c_string
                : k == TK_CUR  ? aws_hash_byte_cursor_ptr
                : k == TK_U64  ? aws_hash_uint64_t_by_identity
                               : aws_hash_ptr,
                k == TK_STR    ? aws_hash_callback_string_eq
                : k == TK_CSTR ? aws_hash_callback_c_str_eq
                : k == TK_CUR  ? s_cursor_eq_cb
                : k == TK_U64  ? aws_hash_compare_uint64_t_eq
                               : aws_ptr_eq,
                k == TK_STR ? aws_hash_callback_string_destroy : NULL,
                NULL);
            HC_CHECK(rc == AWS_OP_SUCCESS);
            s_tt_kind = k;
            puts("P tinit OK");
            s_typed_state();
        } else if (!strcmp(t[0], "tput") && n == 3 && s_parse_val(t[2], &val)) {
            if (s_tt_kind == TK_NONE) {
                puts("P nil");
                continue;
            }
            bool own;
            const void *k = s_make_key(s_tt_kind, t[1], &own);
            int created = -1;
            HC_CHECK(aws_hash_table_put(&s_tt, k, val, &created) == AWS_OP_SUCCESS);
            printf("P tput created=%d\n", created);
            s_typed_state();
        } else if ((!strcmp(t[0], "tfind") || !strcmp(t[0], "trem")) && n == 2) {
            if (s_tt_kind == TK_NONE) {
                puts("P nil");
                continue;
            }
            bool own;
            const void *k = s_make_key(s_tt_kind, t[1], &own); /* a fresh, equal key object (other address / alignment) */
            if (!strcmp(t[0], "tfind")) {
                struct aws_hash_element *el = (struct aws_hash_element *)&s_poison;
                aws_hash_table_find(&s_tt, k, &el);
                HC_CHECK(el != (struct aws_hash_element *)&s_poison);
                if (el) {
                    char kb[40], vb[48];
                    s_fmt_tkey(kb, sizeof kb, s_tt_kind, el->key);
                    s_fmt_val(vb, el->value);
                    printf("P tfind %.30s=%s\n", kb, vb);
                } else {
                    puts("P tfind none");
                }
            } else {
                int present = -1;
                HC_CHECK(aws_hash_table_remove(&s_tt, k, NULL, &present) == AWS_OP_SUCCESS);
                printf("P trem present=%d\n", present);
                s_typed_state();
            }
            if (own) {
                aws_string_destroy((void *)k);
            }
        } else if (!strcmp(t[0], "tclean") && n == 1) {
            if (s_tt_kind == TK_NONE) {
                puts("P nil");
                continue;
            }
            aws_hash_table_clean_up(&s_tt);
            s_tt_kind = TK_NONE;
            puts("P tclean");
        } else if (!strcmp(t[0], "pair") && n == 4) {
            /* the pair itself: equality as the callback sees it, and whether the two hashes agree */
            enum tkind k = s_parse_kind(t[1]);
            if (k == TK_NONE) {
                puts("bad-op");
                continue;
            }
            bool o1, o2;
            const void *a1 = s_make_key(k, t[2], &o1), *b1 = s_make_key(k, t[3], &o2);
            bool eq, heq;
            switch (k) {
                case TK_STR:
                    eq = aws_hash_callback_string_eq(a1, b1);
                    heq = aws_hash_string(a1) == aws_hash_string(b1);
                    break;
                case TK_CSTR:
                    eq = aws_hash_callback_c_str_eq(a1, b1);
                    heq = aws_hash_c_string(a1) == aws_hash_c_string(b1);
                    break;
                case TK_CUR:
                    eq = aws_byte_cursor_eq(a1, b1);
                    heq = aws_hash_byte_cursor_ptr(a1) == aws_hash_byte_cursor_ptr(b1);
                    break;
                case TK_U64:
                    eq = aws_hash_compare_uint64_t_eq(a1, b1);
                    heq = aws_hash_uint64_t_by_identity(a1) == aws_hash_uint64_t_by_identity(b1);
                    break;
                default:
                    eq = aws_ptr_eq(a1, b1);
                    heq = aws_hash_ptr(a1) == aws_hash_ptr(b1);
                    break;
            }
            printf("P pair eq=%d hasheq=%d\n", (int)eq, (int)heq);
            if (k == TK_U64) {
                printf("W pair u64hash=%016" PRIx64 "\n", aws_hash_uint64_t_by_identity(a1));
            }
            if (o1) {
                aws_string_destroy((void *)a1);
            }
            if (o2) {
                aws_string_destroy((void *)b1);
            }
        } else if (!strcmp(t[0], "lowertab") && n == 1) {
            fputs("P lowertab ", stdout);
            hc_put_hex(aws_lookup_table_to_lower_get(), 256);
            putchar('\n');
        } else {
            puts("bad-op");
        }
    }
    s_reset();
    return 0;
}
